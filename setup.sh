#!/bin/sh
# Builds /verif/.venv: an overlay on /venv (the repository's interpreter and its
# dependencies) plus z3-solver and crosshair-tool from the offline wheelhouse.
# Idempotent; every check calls it first because only committed files survive a restore.
set -e
V="$(cd "$(dirname "$0")" && pwd)/.venv"
if [ -x "$V/bin/python" ] && "$V/bin/python" -c 'import z3, cryptography, yaml' 2>/dev/null; then
    exit 0
fi
rm -rf "$V"
/venv/bin/python -m venv "$V"
SP=$("$V/bin/python" -c 'import sysconfig; print(sysconfig.get_paths()["purelib"])')
printf '%s\n' "import site; site.addsitedir('/venv/lib/python3.12/site-packages')" > "$SP/overlay.pth"
PIP_NO_INDEX=1 "$V/bin/python" -m pip install -q --no-index --find-links /opt/veriftools/wheels z3-solver >/dev/null
"$V/bin/python" -c 'import z3, cryptography; print("verif venv ready, z3", z3.get_version_string())'
