#!/usr/bin/env python3
"""Entry point of every registered check:  run.py <ID> [--tier quick|thorough] [--replay FILE]
Rebuilds nothing but imports: the code under analysis is imported from /repo's working tree at the
start of every run.  Exit 0 = holds within bounds, 1 = VIOLATION (replayed natively), 2 = inconclusive."""
import importlib
import os
import subprocess
import sys

VERIF = os.path.dirname(os.path.abspath(__file__))
VENV_PY = os.path.join(VERIF, '.venv', 'bin', 'python')


def bootstrap():
    if os.path.realpath(sys.executable) != os.path.realpath(VENV_PY) or os.environ.get('SYMX_BOOT') != '1':
        r = subprocess.run(['/bin/sh', os.path.join(VERIF, 'setup.sh')], stdout=subprocess.DEVNULL)
        if r.returncode != 0 or not os.path.exists(VENV_PY):
            print('setup.sh failed', file=sys.stderr)
            sys.exit(2)
        env = dict(os.environ, SYMX_BOOT='1', PYTHONDONTWRITEBYTECODE='1', PYTHONHASHSEED='0')
        os.execve(VENV_PY, [VENV_PY, os.path.abspath(__file__)] + sys.argv[1:], env)


def main():
    bootstrap()
    sys.path.insert(0, VERIF)
    args = sys.argv[1:]
    pid = args[0]
    tier = os.environ.get('VERIF_TIER', 'quick')
    replay = None
    i = 1
    while i < len(args):
        if args[i] == '--tier':
            tier = args[i + 1]; i += 2
        elif args[i] == '--replay':
            replay = args[i + 1]; i += 2
        else:
            i += 1
    seed = int(os.environ.get('VERIF_SEED', '0') or 0)
    mod = importlib.import_module(f'harness.{pid.lower()}')
    if replay:
        try:
            code = mod.replay_file(replay)
        except Exception:
            # the replay itself broke (a harness error, not behaviour of /repo): never counted as a reproduction
            import traceback
            traceback.print_exc()
            code = 2
        sys.exit(code)
    sys.exit(mod.main(tier, seed))


if __name__ == '__main__':
    main()
