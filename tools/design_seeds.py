#!/usr/bin/env python3
"""puts the output of tools/seed_table.py between the seeds markers of DESIGN.md (development tool)"""
import os, subprocess, sys
V = os.path.dirname(os.path.dirname(os.path.abspath(__file__)))
out = subprocess.run([sys.executable, os.path.join(V, 'tools', 'seed_table.py')], capture_output=True, text=True).stdout
p = os.path.join(V, 'DESIGN.md')
s = open(p).read()
a, b = s.index('<!-- seeds:begin -->') + len('<!-- seeds:begin -->'), s.index('<!-- seeds:end -->')
open(p, 'w').write(s[:a] + '\n' + out + '\n' + s[b:])
print(len(out.splitlines()), 'lines')
