#!/bin/sh
# usage: mut.sh <ID> <tier> <file> <python-regex-from> <to> [ONLY]   -- applies one source mutation in a scratch copy and runs the check
ID=$1; TIER=$2; F=$3; FROM=$4; TO=$5; ONLY=$6
D=/var/tmp/pyikev2-mut-$$
rm -rf $D; mkdir -p $D; cp /repo/*.py $D/
/venv/bin/python - "$D/$F" "$FROM" "$TO" <<'PY'
import sys,re
p,fr,to=sys.argv[1:4]
s=open(p).read()
n=len(re.findall(fr,s))
if n!=1:
    print('MUTATION PATTERN MATCHES',n,'times'); sys.exit(3)
open(p,'w').write(re.sub(fr,to,s))
PY
[ $? -eq 0 ] || { rm -rf $D; exit 3; }
PYIKEV2_REPO=$D VERIF_ONLY="$ONLY" VERIF_NOEVIDENCE=1 timeout 1200 /verif/.venv/bin/python /verif/run.py $ID --tier $TIER 2>&1 | tail -8
echo "exit=$?"
rm -rf $D
