#!/bin/sh
# archives finished seeds of /tmp/seed-out (patch.diff, demo.py, notes.md) under /verif/seeded and removes the author's scratch worktree once
# both of its variants are in.  usage: seed_archive.sh 5 6
A=$1; B=$2
for p in $(seq -w 1 20); do
  ID=C$p
  n=0
  for v in $A $B; do
    d=/tmp/seed-out/$ID-$v
    if [ -f $d/patch.diff ] && [ -f $d/demo.py ] && [ -f $d/notes.md ]; then
      mkdir -p /verif/seeded/$ID-$v
      cp $d/patch.diff $d/demo.py $d/notes.md /verif/seeded/$ID-$v/
      n=$((n+1))
    fi
  done
  echo "$ID: $n archived"
done
