#!/bin/sh
# usage: seed_eval.sh <ID-N> [tier]      e.g. C08-1
# 1. verifies the seeded change in a scratch worktree (demo passes clean, tests same with patch, demo fails with patch)
# 2. runs the owning check against a scratch copy of /repo with the patch applied (PYIKEV2_REPO), never touching /repo
S=$1; TIER=${2:-quick}; ID=${CHECK_ID:-${S%%-*}}
SRC=/tmp/seed-out/$S
[ -d /verif/seeded/$S ] && SRC=/verif/seeded/$S
[ -f $SRC/patch.diff ] || { echo "no patch for $S"; exit 2; }
WT=/tmp/wt-verify-$S
git -C /repo worktree remove --force $WT 2>/dev/null
git -C /repo worktree add --detach $WT HEAD >/dev/null 2>&1 || exit 2
cd $WT
cp $SRC/demo.py ./demo_seed.py
timeout 600 /venv/bin/python demo_seed.py >/tmp/seed-$S-clean.log 2>&1; C=$?
git apply $SRC/patch.diff 2>/dev/null || git apply --3way $SRC/patch.diff || { echo "PATCH DOES NOT APPLY"; cd /; git -C /repo worktree remove --force $WT; exit 2; }
timeout 900 /venv/bin/python -m pytest -q -p no:cacheprovider --timeout=900 --continue-on-collection-errors 2>&1 | tail -1 > /tmp/seed-$S-tests.log
timeout 600 /venv/bin/python demo_seed.py >/tmp/seed-$S-patched.log 2>&1; P=$?
echo "$S: demo clean exit=$C  patched exit=$P  tests: $(cat /tmp/seed-$S-tests.log)"
rm -f demo_seed.py
# run the check against this patched tree
find . -name __pycache__ -prune -exec rm -rf {} \; 2>/dev/null
PYIKEV2_REPO=$WT VERIF_NOEVIDENCE=1 timeout 3000 /verif/.venv/bin/python /verif/run.py $ID --tier $TIER > /tmp/seed-$S-check.log 2>&1
echo "$S: check $ID $TIER exit=$? ; $(grep -c '^VIOLATION' /tmp/seed-$S-check.log) VIOLATION line(s)"
grep -m2 'counterexample' /tmp/seed-$S-check.log | cut -c1-300
grep -m3 'INCONCLUSIVE' /tmp/seed-$S-check.log | cut -c1-300
cd /
git -C /repo worktree remove --force $WT
