#!/usr/bin/env python3
"""Prints the markdown tables of DESIGN.md section 0.6 from /verif/seeded/*/meta.json and notes.md (development tool)."""
import json
import os
import re

V = os.path.dirname(os.path.dirname(os.path.abspath(__file__)))
# first evaluation of each seed against the checks as they were when the seed arrived (from the session logs)
MISSED_FIRST = set('''C01-3 C01-4 C02-3 C02-4 C03-3 C03-4 C04-3 C04-4 C05-3 C05-4 C07-4 C08-4 C09-3 C10-3 C11-3 C11-4 C12-4 C13-3 C13-4 C14-3 C14-4 C15-3 C16-3
C17-4 C18-4 C19-3 C20-3 C20-4
C01-5 C02-6 C04-5 C05-5 C07-5 C07-6 C10-5 C10-6 C12-5 C12-6 C13-5 C15-5 C16-5 C16-6 C18-5 C18-6 C19-5 C19-6 C20-5 C20-6
C02-7 C02-8 C03-8 C06-7 C06-8 C08-7 C08-8 C09-7 C10-7 C10-8 C11-7 C11-8 C12-7 C13-7 C13-8 C15-7 C17-7 C17-8 C18-7 C19-7 C20-7
C01-10 C05-9 C05-10 C06-9 C07-9 C10-10 C11-10 C13-9 C14-10 C15-10 C16-10 C17-9 C19-9 C20-10 C02-9 C08-10 C12-10 C13-10 C20-9
C12-11 C17-11 C19-11
C04-12 C05-12 C08-12 C15-12 C16-12 C18-12'''.split())
INCONCLUSIVE_FIRST = {'C03-3', 'C04-3', 'C14-4', 'C16-3', 'C18-4', 'C05-5', 'C11-8', 'C02-9', 'C08-10', 'C12-10', 'C13-10', 'C20-9'}
OTHER_FIRST = {'C02-10': '**missed** by C02 (no misbehaving-responder harness there); caught by C11, whose subject it is',
               'C10-9': 'caught (on the tree before the F25 repair; does not apply afterwards)',
               'C18-9': 'caught on the tree before the F23 repair, by the harness written for F23 (does not apply afterwards)'}


def first_sentence(notes):
    t = ' '.join(x.strip() for x in notes.strip().splitlines() if x.strip())
    t = re.sub(r'^#+\s*', '', t)
    t = re.sub(r'[`*]', '', t)
    t = t.replace('|', '/')
    return t[:230] + ('...' if len(t) > 230 else '')


def main():
    for rnd, nums in (('round 2', (3, 4)), ('round 3', (5, 6)), ('round 4', (7, 8)), ('round 5', (9, 10)), ('round 6', (11, 11)), ('round 7', (12, 12))):
        print(f'\n**{rnd}** (variant' + (f's {nums[0]} and {nums[1]}' if nums[0] != nums[1] else f' {nums[0]}') + ' of every property)\n')
        print('| seed | what it changes (author\'s words, shortened) | first evaluation | now: check, exit, first counterexample |')
        print('|---|---|---|---|')
        for p in range(1, 21):
            for n in sorted(set(nums)):
                s = f'C{p:02d}-{n}'
                d = os.path.join(V, 'seeded', s)
                if not os.path.exists(os.path.join(d, 'meta.json')):
                    continue
                meta = json.load(open(os.path.join(d, 'meta.json')))
                notes = open(os.path.join(d, 'notes.md')).read() if os.path.exists(os.path.join(d, 'notes.md')) else ''
                first = 'caught'
                if s in MISSED_FIRST:
                    first = '**inconclusive** (exit 2)' if s in INCONCLUSIVE_FIRST else '**missed**'
                first = OTHER_FIRST.get(s, first)
                cr = meta['check_result']
                ce = cr['first_counterexamples'][0] if cr['first_counterexamples'] else ''
                ce = ce.replace('|', '/')[:150]
                now = f"{cr['check']} exit {cr['exit']}: {ce}" if meta['detected'] else f"exit {cr['exit']}"
                if 'obsolete' in meta:
                    now = 'obsolete - ' + meta['obsolete'][:300]
                    le = meta.get('last_evaluation')
                    if le:
                        lc = le['check_result']
                        now += f" Last evaluation: {lc['check']} exit {lc['exit']}" + (f": {lc['first_counterexamples'][0][:120]}" if lc.get('first_counterexamples') else '')
                print(f'| {s} | {first_sentence(notes)} | {first} | {now} |')


if __name__ == '__main__':
    main()
