#!/usr/bin/env python3
"""Run the pinned test suite of a pyikev2 tree (default /repo) and compare with
/root/.vp/BASELINE.json: every stable_pass test must pass.  Exit 0 iff so."""
import json, subprocess, sys, tempfile, os, xml.etree.ElementTree as ET
tree = sys.argv[1] if len(sys.argv) > 1 else '/repo'
base = json.load(open('/root/.vp/BASELINE.json'))
with tempfile.TemporaryDirectory(dir='/var/tmp') as d:
    x = os.path.join(d, 'j.xml')
    env = dict(os.environ); env.pop('PYIKEV2_VERIF', None)
    subprocess.run(['/venv/bin/python', '-m', 'pytest', '-q', '-p', 'no:cacheprovider', '--timeout=900',
                    '--continue-on-collection-errors', '--junitxml=' + x], cwd=tree, env=env,
                   stdout=subprocess.DEVNULL, stderr=subprocess.DEVNULL)
    ok = set()
    for tc in ET.parse(x).getroot().iter('testcase'):
        if not any(c.tag in ('failure', 'error', 'skipped') for c in tc):
            ok.add(f"{tc.get('classname')}::{tc.get('name')}")
missing = [t for t in base['stable_pass'] if t not in ok]
print(f'baseline: {len(base["stable_pass"]) - len(missing)}/{len(base["stable_pass"])} stable tests pass')
for t in missing: print('  FAIL', t)
sys.exit(1 if missing else 0)
