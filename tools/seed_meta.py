#!/usr/bin/env python3
"""(Re)evaluates every seeded change under /verif/seeded and writes its meta.json:
which property it breaks, what it needs in order to manifest (from the author's notes), what was run here and what came out.
usage: seed_meta.py [ID-N ...]   (default: all)   - development tool, not a registered command."""
import json
import os
import re
import subprocess
import sys

V = os.path.dirname(os.path.dirname(os.path.abspath(__file__)))
# seeds whose defect is the subject of another property's check (the check named here is the one that is run)
OVERRIDE_CHECK = {'C02-10': 'C11'}
# seeds that stopped being valid seeds when a genuine defect was repaired in /repo (kept for the record, with what happened)
OBSOLETE = {
    'C07-2': 'after the F3 repair (459ec04) 8 pinned tests fail with this change: it no longer satisfies "passes the existing tests"; the C07 check exits 1 on it as well',
    'C05-4': 'after the F3 repair a pinned test (test_invalid_message_id_on_response) fails with this change; the C05 check exits 1 on it as well',
    'C01-5': 'led to finding F16: the seed made ONLY the responder compute SKEYSEED with the old PRF (which is what RFC 7296 2.18 prescribes); the unchanged tree used the '
             'new PRF on both sides. After the F16 repair (fb61330, both sides RFC-conformant) the patch no longer applies. Before the repair the C01 check missed it '
             '(no suite changed the PRF on rekey); suite prf_change was added and fails on the pre-repair tree',
    'C06-3': 'the patch edits PayloadDELETE.parse, which the F20 repair (7388edc) rewrote: it no longer applies; last evaluation (before that repair) is kept below',
    'C13-3': 'the patch edits the try block of main_loop that the F19 repair (066eac6) split in two: it no longer applies; last evaluation (before that repair) is kept below',
    'C17-2': 'the patch edits the except clauses of main_loop that the F19 repair (066eac6) rewrote: it no longer applies; last evaluation (before that repair) is kept below',
    'C17-3': 'the patch edits the try block of main_loop that the F19 repair (066eac6) split in two: it no longer applies; last evaluation (before that repair) is kept below',
    'C17-4': 'after the F19 repair (066eac6: timers served in their own try block) the demo of this change passes with the patch applied: it can no longer manifest; '
             'last evaluation (before that repair) is kept below',
    'C13-2': 'the patch edits the COOKIE branch of process_ike_sa_init_response, which the F23 repair (437d908) rewrote: it no longer applies; last evaluation kept below',
    'C18-3': 'the patch edits the COOKIE branch of process_ike_sa_init_response, which the F23 repair (437d908) rewrote: it no longer applies; last evaluation kept below',
    'C18-9': 'written against the tree before the F23 repair (437d908), which rewrote the lines it edits (it is a faulty version of that very repair): it no longer applies. '
             'Evaluated on the pre-repair tree 89cd917 with the patch: C18 quick exit 1 (initiator harness, second COOKIE response: other)',
    'C15-5': 'the patch edits IkeSaController.process_acquire / _get_ike_sa_by_peer_addr, which the F24 repair (a346d24) rewrote: it no longer applies; last evaluation kept below',
    'C12-4': 'the patch edits the responder roll-back that the F25 repair (6539da6) rewrote: it no longer applies; last evaluation kept below',
    'C10-9': 'written against the tree before the F25 repair (6539da6), which rewrote the roll-back it edits: it no longer applies. Evaluated on the pre-repair tree a346d24 with '
             'the patch: C10 quick exit 1 (orphaned inbound SA after a refusal of the second NEWSA at the responder, flows initial / new_child / rekey_child)',
    'C10-1': 'after the F25 repair (6539da6: Xfrm.create_child_sa removes the first SA itself when the second one is refused) the missing roll-back at the initiator '
             'that this change introduces can no longer leave an orphan: its demo passes with the patch applied; last evaluation (before that repair) is kept below',
    'C20-3': 'the patch was rebased by hand onto the final tree (patch.orig.diff is the author\'s) and is still detected; its demo no longer reaches its scenario (it provokes '
             'an internal error through a kernel refusal at the responder, which since the F11/F25 repairs is answered NO_PROPOSAL_CHOSEN instead of closing the IKE_SA)',
    'C17-5': 'cannot manifest after the F15 repair (1d65f0d): CHILD_SA SPIs that are not 4 bytes long are refused before they reach the kernel layer, so the demo passes on the '
             'patched tree. Its author\'s closing remark led to finding F15',
}


def evaluate(seed):
    d = os.path.join(V, 'seeded', seed)
    pid = seed.split('-')[0]
    env = dict(os.environ)
    if seed in OVERRIDE_CHECK:
        env['CHECK_ID'] = OVERRIDE_CHECK[seed]
    out = subprocess.run([os.path.join(V, 'tools', 'seed_eval.sh'), seed], capture_output=True, timeout=4000, env=env).stdout.decode('utf-8', 'replace')
    m1 = re.search(r'demo clean exit=(\d+)\s+patched exit=(\d+)\s+tests: (.*)', out)
    m2 = re.search(r'check (\w+) (\w+) exit=(\d+) ; (\d+) VIOLATION', out)
    ce = re.findall(r'counterexample \[(.*?)\] (.*?): \{', out)
    notes = open(os.path.join(d, 'notes.md')).read().strip() if os.path.exists(os.path.join(d, 'notes.md')) else ''
    meta = {
        'seed': seed,
        'property': pid,
        'breaks': pid,
        'author': 'fresh sub-agent given only the property text and a scratch worktree',
        'needs_to_manifest': ' '.join(notes.split('\n')[:12])[:1500],
        'verified_here': {
            'demo_on_clean_tree_exit': int(m1.group(1)) if m1 else None,
            'demo_with_patch_exit': int(m1.group(2)) if m1 else None,
            'pinned_tests_with_patch': m1.group(3).strip() if m1 else None,
            'how': 'tools/seed_eval.sh: scratch worktree of /repo HEAD (removed afterwards); demo.py run before and after `git apply patch.diff`; '
                   'the baseline pytest command run with the patch',
        },
        'check_result': {
            'check': m2.group(1) if m2 else pid, 'tier': m2.group(2) if m2 else 'quick',
            'exit': int(m2.group(3)) if m2 else None, 'violation_lines': int(m2.group(4)) if m2 else None,
            'first_counterexamples': [f'[{a}] {b}' for a, b in ce[:3]],
            'how': f'PYIKEV2_REPO=<patched scratch worktree> run.py {OVERRIDE_CHECK.get(seed, pid)} --tier quick (evidence redirected, /repo untouched)',
        },
        'raw': out[-1500:],
    }
    meta['detected'] = bool(m2 and int(m2.group(3)) == 1 and int(m2.group(4)) > 0)
    if seed in OBSOLETE:
        meta['obsolete'] = OBSOLETE[seed]
    if 'PATCH DOES NOT APPLY' in out or (seed in OBSOLETE and not meta['detected']):
        meta['verified_here']['note'] = 'the patch no longer applies to / no longer manifests on the current (repaired) tree'
        # keep the last evaluation that could be made (from the history of this file)
        revs = subprocess.run(['git', '-C', V, 'log', '--format=%h', '--', f'seeded/{seed}/meta.json'], capture_output=True, text=True).stdout.split()
        for r in revs:
            try:
                old = json.loads(subprocess.run(['git', '-C', V, 'show', f'{r}:seeded/{seed}/meta.json'], capture_output=True, text=True).stdout)
            except Exception:
                continue
            if old.get('check_result', {}).get('exit') is not None and old.get('verified_here', {}).get('demo_with_patch_exit') not in (None, 0):
                meta['last_evaluation'] = {'verif_commit': r, 'verified_here': old['verified_here'], 'check_result': old['check_result'], 'detected': old.get('detected')}
                break
    json.dump(meta, open(os.path.join(d, 'meta.json'), 'w'), indent=1)
    return meta


def main():
    seeds = sys.argv[1:] or sorted(os.listdir(os.path.join(V, 'seeded')))
    for s in seeds:
        if not os.path.exists(os.path.join(V, 'seeded', s, 'patch.diff')):
            continue
        m = evaluate(s)
        v = m['verified_here']
        print(f"{s}: demo {v['demo_on_clean_tree_exit']}/{v['demo_with_patch_exit']} tests[{v['pinned_tests_with_patch']}] "
              f"check exit={m['check_result']['exit']} violations={m['check_result']['violation_lines']} detected={m['detected']}", flush=True)


if __name__ == '__main__':
    main()
