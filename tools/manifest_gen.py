#!/usr/bin/env python3
"""regenerates /verif/MANIFEST.json from tools/manifest_src.json (texts per property) - keeps the file valid and uniform"""
import json, os
V = os.path.dirname(os.path.dirname(os.path.abspath(__file__)))
src = json.load(open(os.path.join(V, 'tools', 'manifest_src.json')))
props = [json.loads(l)['id'] for l in open(os.path.join(V, 'properties.jsonl'))]
checks = []
for pid in props:
    if pid not in src['checks']:
        continue
    c = src['checks'][pid]
    checks.append({
        'property_id': pid,
        'quick_cmd': f'/venv/bin/python run.py {pid} --tier quick',
        'thorough_cmd': f'/venv/bin/python run.py {pid} --tier thorough',
        'evidence_file': f'/verif/evidence/{pid}.json',
        'replay_cmd_template': f'/venv/bin/python run.py {pid} --replay {{path}}',
        'engine': 'symx',
        'level_claimed': {'category': 'other', 'text': c['text'], 'design_ref': c.get('design_ref') or f'3 / {pid}'},
        'level_note': c['note'],
        'technique': c.get('technique') or 'bounded symbolic (concolic) execution of the real Python code objects with proxy values over z3 bit-vectors; every branch and assertion decided by z3',
    })
na = [{'property_id': pid, 'reason': src['na'][pid]} for pid in props if pid not in src['checks']]
engines = src['engines']
engines[0]['serves_properties'] = [c['property_id'] for c in checks]
m = {'version': 1, 'setup_cmd': './setup.sh', 'hooks': src['hooks'], 'engines': engines, 'checks': checks, 'not_applicable': na,
     'notes': src.get('notes') or ''}
json.dump(m, open(os.path.join(V, 'MANIFEST.json'), 'w'), indent=1)
print('checks:', [c['property_id'] for c in checks], 'n/a:', [x['property_id'] for x in na])
