"""C17 - no datagram, kernel event or send failure can stop or wedge the daemon.
The REAL IkeSaController.main_loop runs over scripted select()/socket objects (the script ends the loop with a sentinel that no
`except` of the loop can catch).  (A) containment: at an arbitrary position of the calls the loop makes into the protocol
code (dispatch_message, process_acquire, process_expire, parse_message, the three timer methods, recvfrom, sendto) an arbitrary
exception out of a list of 16 classes is raised - position and class are solver variables; (B) real hostile inputs: datagrams
of arbitrary bytes (lengths 0..32) from a configured or an arbitrary source address in every state of a concurrent
legitimate session, protocol-level oddities with arbitrary field values, kernel events (well-formed, truncated, unknown
types), a transmission failure at an arbitrary sendto.  Oracle: the sentinel is reached, within the step budget, and a
legitimate handshake of another peer served by the same loop afterwards still completes (with retransmissions making up for
a lost datagram)."""
import json
import struct as _struct

from . import common, world, c08
from .common import Instance, Check

MODS = None

EXC_CLASSES = None


def exc_classes():
    import socket
    m, cf, nl = MODS['message'], MODS['configuration'], MODS['netlink']
    return [m.InvalidSyntax, m.UnsupportedCriticalPayload, m.NoProposalChosen, m.AuthenticationFailed, m.PayloadNotFound,
            cf.ConfigurationNotFound, cf.ConfigurationError, nl.NetlinkError, KeyError, ValueError, TypeError, AttributeError, IndexError,
            _struct.error, OSError, socket.gaierror, UnicodeDecodeError, StopIteration, AssertionError]


def mk_exc(cls):
    if cls is UnicodeDecodeError:
        return UnicodeDecodeError('utf-8', b'\xff', 0, 1, 'injected')
    try:
        return cls('injected')
    except TypeError:
        return cls('injected', 0)


class Peer:
    """a legitimate initiator at IP1 that talks to the looped controller B through the loop's outbox"""

    def __init__(self, n):
        self.n = n

    def start(self, loop):
        req = self.n.acquire('A')
        return {'kind': 'udp', 'dst': world.IP2, 'src': str(world.IP1), 'data': req}

    def answer(self, loop):
        """deliver everything B sent so far to A; A's (last) reply becomes the next event"""
        out = None
        while loop.outbox:
            src, dst, data = loop.outbox.pop(0)
            if dst[0] != str(world.IP1):
                continue
            r = self.n.dispatch('A', data)
            if r is not None:
                out = r
        if out is None:
            # nothing to say: let A's own timers run (retransmission of a request whose answer was lost)
            for e in list(self.n.a.ike_sas):
                with self.n.A:
                    r = e.check_retransmission_timer()
                if r:
                    out = r
        if out is None:
            return None
        return {'kind': 'udp', 'dst': world.IP2, 'src': str(world.IP1), 'data': out}


def legit_events(peer, rounds=10):
    return [peer.start] + [peer.answer] * rounds


def established(n):
    S = MODS['ikesa'].IkeSa.State
    return (any(e.state == S.ESTABLISHED and e.child_sas for e in n.a.ike_sas)
            and any(e.state == S.ESTABLISHED and e.child_sas and e.peer_addr == world.IP1 for e in n.b.ike_sas))


class LoopHang(BaseException):
    pass


def run(n, events, label, send_fault=None, budget_ok=True):
    import signal
    lp = world.Loop(n.B)
    lp.send_fault = send_fault

    def on_alarm(*_):
        raise LoopHang()
    nested = signal.getsignal(signal.SIGALRM) not in (signal.SIG_DFL, signal.SIG_IGN, None)
    if not nested:
        old = signal.signal(signal.SIGALRM, on_alarm)
        signal.alarm(30)
    try:
        reached = lp.run(events)
    except LoopHang:
        return lp, f'{label}: the loop was busy for more than 30 s without coming back to wait for the next event (wedged)'
    except BaseException as ex:      # noqa
        from symx import core
        if isinstance(ex, core.EngineAbort):
            raise
        if type(ex).__name__ == 'Hang':
            raise
        return lp, f'{label}: main_loop terminated with {type(ex).__name__}: {ex}'
    finally:
        if not nested:
            signal.alarm(0)
            signal.signal(signal.SIGALRM, old)
    if not reached:
        return lp, f'{label}: main_loop returned'
    S = MODS['ikesa'].IkeSa.State
    stuck = [e for e in n.b.ike_sas if e.state == S.DELETED]
    if stuck:
        return lp, (f'{label}: {len(stuck)} IKE_SA(s) in state DELETED are still listed after the loop came back to wait (their clean-up fails on every '
                    f'iteration, which also skips the timers of every other IKE_SA)')
    return lp, None


def h_contain(site, pre):
    """an arbitrary exception at an arbitrary call of `site`; then a legitimate handshake"""
    from symx import core
    eng = core.engine()
    global EXC_CLASSES
    EXC_CLASSES = exc_classes()
    n = world.Net()
    if pre == 'established':
        n.establish()
    which = eng.sym_int('exception', 0, len(EXC_CLASSES) - 1)
    at = eng.sym_int('at_call', 0, 3)
    calls = [0]
    ctl = n.b
    ik = MODS['ikesa'].IkeSa
    x = MODS['xfrm'].Xfrm

    def boom():
        i = calls[0]
        calls[0] += 1
        if at == i:
            for j, cls in enumerate(EXC_CLASSES):
                if which == j:
                    raise mk_exc(cls)

    def wrap(obj, name):
        real = getattr(obj, name)

        def w(*a, **k):
            boom()
            return real(*a, **k)
        setattr(obj, name, w)
        return real
    restore = []
    send_fault = None
    if site in ('dispatch_message', 'process_acquire', 'process_expire'):
        wrap(ctl, site)
    elif site == 'parse_message':
        real = MODS['netlink'].NetlinkProtocol.__dict__['parse_message']
        x.parse_message = classmethod(lambda cls, data: (boom(), real.__func__(cls, data))[1])
        restore.append(lambda: delattr(x, 'parse_message'))
    elif site in ('check_retransmission_timer', 'check_dead_peer_detection_timer', 'check_rekey_ike_sa_timer', 'process_message', 'to_dict'):
        real = getattr(ik, site)

        def w(self, *a, **k):
            boom()
            return real(self, *a, **k)
        setattr(ik, site, w)
        restore.append(lambda: setattr(ik, site, real))
    elif site == 'sendto':
        def send_fault(i, data, dst):
            boom()
            return False
    peer = Peer(n)
    other = world.ip_address('192.168.0.1')
    a0 = n.a.ike_sas[0] if n.a.ike_sas else None
    events = []
    # traffic that exercises every branch of the loop body before and after the fault
    if pre == 'established':
        b0 = n.b.ike_sas[0]
        events += [{'kind': 'xfrm', 'data': world.expire_bytes(b0.child_sas[0].inbound_spi, False)}, peer.answer,
                   {'kind': 'xfrm', 'data': world.acquire_bytes(world.IP2, world.IP1, 2, sport=23, dport=7777)}, peer.answer, peer.answer,
                   {'kind': 'control'}, {'kind': 'tick'}]
    else:
        events += legit_events(peer, 4) + [{'kind': 'control'}, {'kind': 'tick'}]
    events += [{'kind': 'tick'}] * 2
    try:
        lp, bad = run(n, events, f'exception in {site}', send_fault=send_fault)
    finally:
        for r in restore:
            r()
    if bad:
        return {'class': ['contain', site], 'violation': bad}
    # afterwards the daemon still serves a legitimate peer: a fresh pair of controllers cannot be used (the loop under test is B's),
    # so a second initiator IKE_SA is started at A towards B
    n2_events = []
    if pre != 'established' and not established(n):
        # the fault hit the handshake itself: retransmissions must complete it
        n2_events = [peer.answer] * 14
        lp2, bad = run(n, n2_events, f'recovery after exception in {site}')
        if bad:
            return {'class': ['contain', site], 'violation': bad}
        if not established(n):
            return {'class': ['contain', site], 'violation': f'after one contained {site} failure the legitimate handshake never completed'}
    return ['contain', site, 'survived']


def h_datagram(nbytes, src_kind, pre):
    """an arbitrary datagram of `nbytes` bytes arrives while a legitimate session is in state `pre`"""
    from symx import core, shims
    eng = core.engine()
    n = world.Net()
    peer = Peer(n)
    events = []
    if pre == 'established':
        n.establish()
    elif pre == 'half_open':
        req = n.acquire('A')
        n.dispatch('B', req)
    data = eng.sym_bytes('datagram', nbytes) if nbytes else b''
    if src_kind == 'configured':
        src = str(world.IP1)
    else:
        src = '203.0.113.7'
    hostile = {'kind': 'udp', 'dst': world.IP2, 'src': src, 'data': data}
    table0 = len(n.b.ike_sas)
    lp, bad = run(n, [hostile, {'kind': 'tick'}], 'hostile datagram')
    if bad:
        return {'class': ['datagram'], 'violation': bad}
    S = MODS['ikesa'].IkeSa.State
    if any(e.state == S.INITIAL and not e.is_initiator for e in n.b.ike_sas):
        return {'class': ['datagram'], 'violation': 'the datagram left an unreachable responder IKE_SA in the table'}
    return ['datagram', 'survived', len(n.b.ike_sas) - table0]


def h_oddity(kind):
    """well-formed but unexpected messages with arbitrary field values"""
    from symx import core
    eng = core.engine()
    m = MODS['message']
    n = world.Net()
    a, b = n.establish()
    peer = Peer(n)
    if kind == 'unknown_exchange':
        world.ENV.now = a.start_dpd_at + 3600
        with n.A:
            d0 = a.check_dead_peer_detection_timer()
        exch = eng.sym_int('exch', 0, 255)
        data = world.restamp(d0, a.my_crypto, exchange=exch)
    elif kind == 'init_for_existing_spi':
        d0 = bytes(a.ike_sa_init_req_data)
        flags = eng.sym_int('flags', 0, 255)
        mid = eng.sym_int('mid', 0, 0xFFFFFFFF)
        data = world.restamp(d0, None, flags=flags, mid=mid)
    elif kind == 'init_sa_bytes':
        # a genuine IKE_SA_INIT request (new initiator SPI) whose first transform (type, id and attribute: 8 bytes) is arbitrary
        d0 = bytearray(a.ike_sa_init_req_data)
        d0[0:8] = b'NEWSPI!!'
        from symx import core as _c
        region = eng.sym_bytes('transform_bytes', 8)
        items = list(d0)
        off = 28 + 4 + 4 + 4 + d0[28 + 4 + 4 + 2] + 4          # header, SA generic header, proposal header, proposal fields, SPI, transform header
        items[off:off + 8] = _c.SymBytes.lift(region).items
        data = _c.SymBytes(items).lower()
    elif kind == 'binary_vendor':
        vid = eng.sym_bytes('vendor', 4)
        base = m.Message.parse(bytes(a.ike_sa_init_req_data))
        pl = [m.PayloadVENDOR(vid) if x.type == m.Payload.Type.VENDOR else x for x in base.payloads]
        msg = m.Message(spi_i=b'NEWSPI!!', spi_r=b'\0' * 8, major=2, minor=0, exchange_type=34, is_response=False, can_use_higher_version=False,
                        is_initiator=True, message_id=0, payloads=pl, encrypted_payloads=[])
        data = msg.to_bytes()
    elif kind == 'binary_identity':
        # authentic IKE_AUTH-like request inside the established SA with an arbitrary identity
        idd = eng.sym_bytes('id_data', 4)
        idt = eng.sym_int('id_type', 0, 255)
        msg = m.Message(spi_i=a.spi_i, spi_r=a.spi_r, major=2, minor=0, exchange_type=37, is_response=False, can_use_higher_version=False,
                        is_initiator=True, message_id=a.my_msg_id, payloads=[], encrypted_payloads=[m.PayloadIDi(1, idd)], crypto=a.my_crypto)
        msg.encrypted_payloads[0].id_type = idt
        data = msg.to_bytes()
    elif kind == 'textual_identity_shapes':
        # identities of the textual types whose bytes are long runs of one character class with one odd character at the end / in the middle:
        # rendering them for the log (done eagerly for every received message) must stay cheap (wall-clock alarm: the work is in C code)
        import signal
        shapes = [b'a' * 40 + b'!', b'a' * 64 + b'!', b'a.' * 30 + b'!', b'1' * 48 + b'@', b'a' * 30 + b'@' + b'b' * 40 + b'!', b'-' * 64, b'a-' * 32 + b'_', b'\x00' * 64,
                  b'a' * 200, (b'ab' * 16 + b'.') * 4 + b'$']
        c = eng.sym_int('shape', 0, len(shapes) - 1)
        sh = shapes[eng.concretize(c, 0, len(shapes) - 1) if not isinstance(c, int) else c]
        t = eng.sym_int('id_type', 2, 3)
        idt = eng.concretize(t, 2, 3) if not isinstance(t, int) else t
        msg = m.Message(spi_i=a.spi_i, spi_r=a.spi_r, major=2, minor=0, exchange_type=37, is_response=False, can_use_higher_version=False,
                        is_initiator=True, message_id=a.my_msg_id, payloads=[], encrypted_payloads=[m.PayloadIDi(idt, sh)], crypto=a.my_crypto)
        data = msg.to_bytes()

        class Hang(BaseException):
            pass

        def on_alarm(*_):
            raise Hang(f'an identity of type {idt} with data {sh[:12]!r}... ({len(sh)} bytes) kept the loop busy for more than 20 s: it never came back to wait')
        old = signal.signal(signal.SIGALRM, on_alarm)
        signal.alarm(20)
        try:
            lp, bad = run(n, [{'kind': 'udp', 'dst': world.IP2, 'src': str(world.IP1), 'data': data}, {'kind': 'tick'}], f'oddity {kind}')
        except Hang:
            bad = f'oddity {kind}: an identity of type {idt} with data {sh[:12]!r}... ({len(sh)} bytes) kept the loop busy for more than 20 s (it never came back to wait)'
        finally:
            signal.alarm(0)
            signal.signal(signal.SIGALRM, old)
        if bad:
            return {'class': ['oddity', kind], 'violation': bad}
        return ['oddity', kind, 'survived']
    elif kind in ('child_request_spi_size', 'child_response_spi_size'):
        # an authenticated peer names a CHILD_SA SPI that is not 4 bytes long (size: case split 0..8), in a request / in its response to OUR request
        c = eng.sym_int('spi_size', 0, 8)
        k = eng.concretize(c, 0, 8) if not isinstance(c, int) else c
        spi = bytes(range(1, k + 1))

        def respi(datagram, crypto_in, crypto_out):
            msg = m.Message.parse(bytes(datagram), crypto=crypto_in)
            for pl in msg.encrypted_payloads:
                if pl.type == m.Payload.Type.SA:
                    pl.proposals[0].spi = spi
            out = m.Message(msg.spi_i, msg.spi_r, 2, 0, msg.exchange_type, msg.is_response, False, msg.is_initiator, msg.message_id, [],
                            msg.encrypted_payloads, crypto=crypto_out)
            return bytes(out.to_bytes())
        if kind == 'child_request_spi_size':
            req = n.acquire('A', sport=9191)
            data = respi(req, a.my_crypto, a.my_crypto)
            events = [{'kind': 'udp', 'dst': world.IP2, 'src': str(world.IP1), 'data': data}]
        else:
            def answer(loop):
                req = [d for _, dst, d in loop.outbox if dst[0] == str(world.IP1)][-1]
                del loop.outbox[:]
                res = n.dispatch('A', req)
                return {'kind': 'udp', 'dst': world.IP2, 'src': str(world.IP1), 'data': respi(res, a.my_crypto, a.my_crypto)}
            events = [{'kind': 'xfrm', 'data': world.acquire_bytes(world.IP2, world.IP1, 2, sport=23, dport=7777)}, answer]
        lp, bad = run(n, events + [{'kind': 'tick'}, {'kind': 'tick'}, {'kind': 'control'}, peer.answer, peer.answer], f'oddity {kind} (SPI of {k} bytes)')
        if bad:
            return {'class': ['oddity', kind], 'violation': bad}
        bad = world.sad_invariant(n.b, n.B.kernel)
        if bad:
            return {'class': ['oddity', kind], 'violation': f'oddity {kind} (SPI of {k} bytes): ' + '; '.join(bad)}
        return ['oddity', kind, 'survived']
    else:
        raise ValueError(kind)
    hostile = {'kind': 'udp', 'dst': world.IP2, 'src': str(world.IP1), 'data': data}
    lp, bad = run(n, [hostile, {'kind': 'tick'}, {'kind': 'control'}], f'oddity {kind}')
    if bad:
        return {'class': ['oddity', kind], 'violation': bad}
    return ['oddity', kind, 'survived']


def h_kernel_event(kind, vary='cut'):
    """kernel events: well-formed for unknown objects, truncated at an arbitrary length, unknown netlink types"""
    from symx import core
    eng = core.engine()
    n = world.Net()
    a, b = n.establish()
    if kind == 'acquire':
        data = world.acquire_bytes(world.IP2, world.IP1, 2)
    elif kind == 'acquire_unknown_index':
        data = world.acquire_bytes(world.IP2, world.IP1, 77)
    elif kind == 'acquire_unknown_peer':
        data = world.acquire_bytes(world.IP2, world.ip_address('198.51.100.1'), 2)
    elif kind == 'expire_unknown':
        data = world.expire_bytes(b'\xde\xad\xbe\xef', True)
    else:
        data = world.expire_bytes(b.child_sas[0].inbound_spi, False)
    # the length / type are enumerated by a solver-driven case split; the bytes stay concrete (ctypes boundary)
    if vary == 'cut':
        cut = eng.sym_int('cut', 0, len(data))
        k = eng.concretize(cut, 0, len(data)) if not isinstance(cut, int) else cut
        ev = bytearray(data[:k])
    elif vary == 'flags':
        # nlmsg_flags: each single bit and a few combinations (NLM_F_MULTI = 2 announces a multipart message that never continues)
        choices = [1 << i for i in range(16)] + [0x3, 0x302, 0xFFFF]
        c = eng.sym_int('nl_flags_choice', 0, len(choices) - 1)
        fl = choices[eng.concretize(c, 0, len(choices) - 1) if not isinstance(c, int) else c]
        ev = bytearray(data)
        ev[6:8] = int(fl).to_bytes(2, 'little')
    else:
        ntype = eng.sym_int('nl_type', 0, 0x30)
        t = eng.concretize(ntype, 0, 0x30) if not isinstance(ntype, int) else ntype
        ev = bytearray(data)
        ev[4:6] = int(t).to_bytes(2, 'little')
    peer = Peer(n)
    lp, bad = run(n, [{'kind': 'xfrm', 'data': bytes(ev)}, peer.answer, {'kind': 'tick'}], f'kernel event {kind}')
    if bad:
        return {'class': ['kernel_event', kind], 'violation': bad}
    return ['kernel_event', kind, 'survived']


def h_kernel_event_busy(state, event):
    """the daemon's IKE_SA with the peer waits for the answer to a request of its own (every such state) when a kernel event for it arrives (EXPIRE of
    one of its CHILD_SAs, soft or hard; ACQUIRE for its peer); then the answer arrives: the loop comes back to wait, no DELETED IKE_SA stays listed,
    the SAD matches the table, and a new negotiation with the peer still works"""
    from symx import core
    eng = core.engine()
    ik = MODS['ikesa']
    S = ik.IkeSa.State
    n = world.Net()
    a, b = n.establish()
    # a second CHILD_SA so that rekey / delete of one leaves the other
    n.pump('B', n.acquire('A', sport=9100, dport=23))
    with n.B:
        if state == 'DPD_REQ_SENT':
            world.ENV.now = b.start_dpd_at + 3600
            req = b.check_dead_peer_detection_timer()
        elif state == 'NEW_CHILD_REQ_SENT':
            req = None
        elif state == 'REK_CHILD_REQ_SENT':
            req = b.process_expire(b.child_sas[0].inbound_spi, False)
        elif state == 'DEL_CHILD_REQ_SENT':
            req = b.process_expire(b.child_sas[0].inbound_spi, True)
        elif state == 'REK_IKE_SA_REQ_SENT':
            world.ENV.now = b.rekey_ike_sa_at + 10
            req = b.check_rekey_ike_sa_timer()
        else:
            world.ENV.now = b.delete_ike_sa_at + 3600
            req = b.check_rekey_ike_sa_timer()
    if state == 'NEW_CHILD_REQ_SENT':
        req = n.acquire('B', sport=23, dport=9200)
    if req is None or b.state.name != state:
        return ['n/a', b.state.name]
    res = n.dispatch('A', req)
    spi = b.child_sas[-1].inbound_spi
    ev = {'expire_soft': lambda: world.expire_bytes(spi, False), 'expire_hard': lambda: world.expire_bytes(spi, True),
          'acquire': lambda: world.acquire_bytes(world.IP2, world.IP1, 2, sport=23, dport=9300)}[event]()
    peer = Peer(n)
    events = [{'kind': 'xfrm', 'data': ev}]
    if res is not None:
        events.append({'kind': 'udp', 'dst': world.IP2, 'src': str(world.IP1), 'data': res})
    events += [peer.answer] * 6 + [{'kind': 'tick'}, {'kind': 'control'}]
    lp, bad = run(n, events, f'kernel {event} while {state}, then the answer')
    if bad:
        return {'class': ['kernel_event_busy', state, event], 'violation': bad}
    bad = world.sad_invariant(n.b, n.B.kernel)
    if bad:
        return {'class': ['kernel_event_busy', state, event], 'violation': f'kernel {event} while {state}: ' + '; '.join(bad)}
    return ['kernel_event_busy', state, event, 'survived']


def h_send_fault(exc_name):
    """a transmission failure at an arbitrary sendto of the responder during a legitimate handshake: the loop survives and the
    handshake completes through retransmissions"""
    from symx import core
    import socket
    eng = core.engine()
    n = world.Net()
    peer = Peer(n)
    f = eng.sym_int('failing_sendto', -1, 3)
    exc = {'OSError': OSError, 'gaierror': socket.gaierror, 'PermissionError': PermissionError}[exc_name]
    lp = world.Loop(n.B)
    lp.send_fault = lambda i, data, dst: bool(f == i)
    lp.send_exc = exc
    try:
        ok = lp.run(legit_events(peer, 16))
    except BaseException as ex:      # noqa
        if isinstance(ex, core.EngineAbort):
            raise
        return {'class': ['send_fault'], 'violation': f'a failing sendto ({exc_name}) terminated main_loop with {type(ex).__name__}'}
    if not established(n):
        return {'class': ['send_fault'], 'violation': 'after one lost datagram the legitimate handshake never completed'}
    return ['send_fault', 'completed']


def build_instances(tier):
    inst = []
    nat = common.native_of
    sites = ('dispatch_message', 'process_acquire', 'process_expire', 'parse_message', 'check_retransmission_timer',
             'check_dead_peer_detection_timer', 'check_rekey_ike_sa_timer', 'process_message', 'to_dict', 'sendto')
    for site in sites:
        for pre in ('fresh', 'established'):
            inst.append(Instance(f'contain {site} {pre}', h_contain, (site, pre), native=nat(h_contain)))
    sizes = {'quick': (0, 1, 27, 28), 'thorough': (0, 1, 27, 28, 29, 31, 32)}[tier]
    for nb in sizes:
        for src in ('configured', 'unknown'):
            for pre in ('established', 'half_open', 'fresh'):
                if tier == 'quick' and pre == 'fresh' and nb not in (0, 28):
                    continue
                inst.append(Instance(f'datagram n={nb} src={src} session={pre}', h_datagram, (nb, src, pre), native=nat(h_datagram),
                                     engine_kw={'max_ticks': 3000 + 80 * nb}))
    from . import c16
    for order in ('live_last', 'live_first', 'live_middle'):
        inst.append(Instance(f'two peers die together, table order {order}', c16.h_two_timeouts, (order,), native=nat(c16.h_two_timeouts), engine_kw={'max_ticks': 10 ** 7},
                             must_reach=[('ok', lambda o: o[0] == 'two_timeouts')]))
    for kind in ('unknown_exchange', 'init_for_existing_spi', 'binary_vendor', 'binary_identity', 'init_sa_bytes', 'child_request_spi_size', 'child_response_spi_size', 'textual_identity_shapes'):
        inst.append(Instance(f'oddity {kind}', h_oddity, (kind,), native=nat(h_oddity), engine_kw={'max_ticks': 20000, 'max_wall_s': 600}))
    for kind in (('acquire', 'expire_known') if tier == 'quick' else ('acquire', 'acquire_unknown_index', 'acquire_unknown_peer', 'expire_unknown', 'expire_known')):
        for vary in ('cut', 'type', 'flags'):
            inst.append(Instance(f'kernel event {kind} vary={vary}', h_kernel_event, (kind, vary), native=nat(h_kernel_event)))
    if tier == 'quick':
        for kind in ('acquire_unknown_index', 'acquire_unknown_peer', 'expire_unknown'):
            inst.append(Instance(f'kernel event {kind} vary=type', h_kernel_event, (kind, 'type'), native=nat(h_kernel_event)))
    for st in BUSY_STATES:
        for ev in ('expire_soft', 'expire_hard', 'acquire'):
            inst.append(Instance(f'kernel {ev} while {st}, then the answer', h_kernel_event_busy, (st, ev), native=nat(h_kernel_event_busy),
                                 must_reach=[('survived', lambda o: o[-1] == 'survived')]))
    for e in ('OSError', 'gaierror', 'PermissionError'):
        inst.append(Instance(f'send fault {e}', h_send_fault, (e,), native=nat(h_send_fault)))
    return inst


BUSY_STATES = ('DPD_REQ_SENT', 'NEW_CHILD_REQ_SENT', 'REK_CHILD_REQ_SENT', 'DEL_CHILD_REQ_SENT', 'REK_IKE_SA_REQ_SENT', 'DEL_IKE_SA_REQ_SENT')


def _load(shim):
    global MODS
    MODS = world.load(shim=shim)
    c08.MODS = MODS
    from . import c16
    c16.MODS = MODS
    return MODS


def replay_file(path):
    return common.generic_replay_file(path, lambda: build_instances('thorough') + build_instances('quick'), lambda: _load(False))


def main(tier, seed):
    _load(True)
    ic, ik, m = MODS['ikesacontroller'].IkeSaController, MODS['ikesa'].IkeSa, MODS['message']
    chk = Check('C17', tier, seed,
                functions=common.src_hash(ic.main_loop, ic.dispatch_message, ic.process_acquire, ic.process_expire, ik.process_message, ik.log_message,
                                          m.Message.parse, m.Message.to_dict, MODS['netlink'].NetlinkProtocol.parse_message),
                bounds={'containment': '19 exception classes x call position 0..3 at each of 10 call sites of the loop body, from a fresh and from an established '
                                       'daemon; the script exercises UDP, netlink ACQUIRE/EXPIRE, the status query and ticks',
                        'datagrams': 'arbitrary bytes of length 0, 1, 27, 28 (thorough also 29, 31, 32) from the configured peer and from an unconfigured source, with '
                                     'the legitimate session fresh / half-open / established',
                        'oddities': 'authentic message with any exchange-type byte; IKE_SA_INIT request for an existing SPI with any flags / Message ID; '
                                    'vendor ID of 4 arbitrary bytes; identity payload of any type with 4 arbitrary bytes inside an authentic message',
                        'kernel events': '5 events (quick: truncation for 2 of them), each truncated at every length or re-typed with every netlink type 0..0x30 (bytes '
                                         'concrete: ctypes boundary; the case split is driven by the solver)',
                        'send failure': 'one failing sendto (OSError, gaierror, PermissionError) at position 0..3 or none; 16 further loop iterations',
                        'outside': 'datagrams longer than 32 arbitrary bytes through the loop (C06 covers the parser up to its own bounds); real sockets; '
                                   'the blocking control connection; two simultaneous faults'},
                assumptions=['select() is scripted: one event per iteration, clock +1 s per iteration', 'the legitimate peer retransmits as the real code does'],
                stubs=['ikesacontroller.socket / select (scripted)', 'Xfrm.get_socket', 'kernel ghost', 'crypto.HMAC (UF)', 'struct', 'enum lookup', 'clock/randomness'])
    chk.run(build_instances(tier))
    return chk.finish(replay=lambda v: common.native_replay_subprocess('C17', v))
