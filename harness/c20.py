"""C20 - secrets appear in the log only in verbose (debug) mode.
The two-endpoint runs of C01/C02 are repeated with a capturing `logging` object in every /repo module: all secrets are symbolic
(PSKs as free bytes; SKEYSEED, SK_*, KEYMAT and Diffie-Hellman secrets as outputs of the uninterpreted HMAC/DH functions) and a
symbolic value formatted into text leaves a token that keeps its z3 term.  For every record of level INFO or above, on success
paths, refused negotiations, authentication failures and internal-error paths, and every token in it: non-interference query -
can the token's term take two different values while every PUBLIC variable (everything that travelled on the wire, nonces, SPIs,
DH public values, configuration) is held fixed?  unsat = the record does not depend on secret material."""
import json
import re

from . import common, world, c01, c02, c04, symcrypto
from .common import Instance, Check

MODS = None
RECORDS = []
WIRE = []
TOKEN_RE = re.compile('⟦(\\d+)⟧')


class CaptureLogging:
    DEBUG, INFO, WARNING, ERROR, CRITICAL = 10, 20, 30, 40, 50
    indent = None

    @staticmethod
    def log(level, msg, *a, **k):
        RECORDS.append((int(level), str(msg) % a if a else str(msg)))

    @classmethod
    def debug(cls, msg, *a, **k): cls.log(10, msg, *a)
    @classmethod
    def info(cls, msg, *a, **k): cls.log(20, msg, *a)
    @classmethod
    def warning(cls, msg, *a, **k): cls.log(30, msg, *a)
    @classmethod
    def error(cls, msg, *a, **k): cls.log(40, msg, *a)
    @classmethod
    def critical(cls, msg, *a, **k): cls.log(50, msg, *a)

    @staticmethod
    def disable(*a):
        pass


def install_wire_tap(mods):
    """every datagram produced by Message.to_bytes is public"""
    M = mods['message'].Message
    real = M.to_bytes

    def to_bytes(self):
        d = real(self)
        WIRE.append(d)
        return d
    M.to_bytes = to_bytes


def install_capture(mods):
    for name in ('ikesa', 'ikesacontroller', 'xfrm', 'message', 'netlink'):
        if hasattr(mods[name], 'logging'):
            mods[name].logging = CaptureLogging
    # the traceback of an internal error goes to stderr in the daemon: capture its text as an ERROR-level record
    import traceback as _tb

    class TB:
        """the traceback module as the daemon sees it: what print_exc would write to stderr is kept as an ERROR-level record, everything else is
        the real module (a tree that formats tracebacks itself - with or without the frames' local variables - logs through the captured logger)"""

        def print_exc(self, *a, **k):
            RECORDS.append((40, _tb.format_exc()))

        def print_exception(self, *a, **k):
            RECORDS.append((40, ''.join(_tb.format_exception(*a))))

        def __getattr__(self, name):
            return getattr(_tb, name)
    for mod in mods.values():
        if getattr(mod, 'traceback', None) is _tb or mod is mods['ikesa']:
            mod.traceback = TB()


def wire_ids(datagrams):
    from symx import core
    ids = set()
    for d in datagrams:
        for it in core.SymBytes.lift(d).items:
            if not isinstance(it, int):
                ids.add(it.get_id())
    return ids


def term_vars(t, acc):
    import z3
    stack = [t]
    seen = set()
    while stack:
        x = stack.pop()
        if x.get_id() in seen:
            continue
        seen.add(x.get_id())
        if z3.is_const(x) and x.decl().kind() == z3.Z3_OP_UNINTERPRETED:
            acc[x.get_id()] = x
        else:
            stack.extend(x.children())
    return acc


def judge(eng, secrets, label):
    """secrets: list of (name, bytes-like) ; -> violation text or None"""
    from symx import core
    import z3
    secret_vars = {}
    concrete_secrets = []
    for name, val in secrets:
        if val is None:
            continue
        sb = core.SymBytes.lift(val)
        if sb.is_concrete():
            if len(sb) >= 4:
                concrete_secrets.append((name, bytes(sb.items)))
            continue
        for it in sb.items:
            if not isinstance(it, int):
                term_vars(it, secret_vars)
    n_checked = 0
    for level, text in RECORDS:
        if level < 20:
            continue
        for name, raw in concrete_secrets:
            if raw.hex() in text or raw.decode('latin-1') in text:
                return f'{label}: a log record of level {level} contains {name}: {text[:120]!r}'
        for tid in set(int(x) for x in TOKEN_RE.findall(text)):
            term = core.TOKENS.get(tid)
            if term is None:
                continue
            vs = term_vars(term, {})
            hit = [v for i, v in vs.items() if i in secret_vars]
            if not hit:
                continue
            # non-interference query: two runs that agree on everything public but differ in secrets give different text?
            pairs = [(v, z3.BitVec(f'{v.decl().name()}~', v.size())) for v in secret_vars.values()]
            pc = z3.And(*eng.solver.assertions()) if eng.solver.assertions() else z3.BoolVal(True)
            s2 = z3.Solver()
            s2.set('timeout', 60000)
            s2.add(pc, z3.substitute(pc, *pairs), term != z3.substitute(term, *pairs))
            r = s2.check()
            n_checked += 1
            if str(r) == 'sat':
                return f'{label}: a log record of level {level} depends on secret key material: {text[:160]!r}'
            if str(r) == 'unknown':
                raise core.SolverUnknown('non-interference query')
    return None


def secrets_of(p, extra=()):
    out = list(extra)
    sas = []
    for x in (p.a, p.b):
        while x is not None and x not in sas:
            sas.append(x)
            x = x.new_ike_sa
    for i, sa in enumerate(sas):
        if sa.ike_sa_keyring is not None:
            for f, v in zip(sa.ike_sa_keyring._fields, sa.ike_sa_keyring):
                out.append((f'{f} of IKE_SA #{i}', v))
        for auth in (sa.configuration.my_auth, sa.configuration.peer_auth):
            out.append(('a pre-shared key', auth.psk))
    for k in (p.A.kernel, p.B.kernel):
        for rec in k.log:
            if rec['op'] == 'NEWSA':
                out.append(('a CHILD_SA encryption key', rec['sk_e']))
                out.append(('a CHILD_SA integrity key', rec['sk_a']))
    for dh in symcrypto.ModelDH.registry:
        out.append(('a Diffie-Hellman shared secret', dh.shared_secret))
    # every PRF / prf+ output that never travelled on the wire (SKEYSEED, key pads, KEYMAT blocks) is secret as well
    from symx import core
    eng = core.engine()
    public = wire_ids(WIRE)
    for name, args, res in getattr(eng, 'uf_log', []):
        if name in ('hmac', 'dh') and not any((not isinstance(i, int)) and i.get_id() in public for i in res.items):
            out.append((f'an unpublished {name} output (SKEYSEED / key pad / prf+ block)', res))
    return out


def h_success(suite, scenario):
    from symx import core
    eng = core.engine()
    del RECORDS[:]
    del WIRE[:]
    del c01.NONCES[:]
    p = c01.mk_pair(suite)
    psk_a, psk_b = eng.sym_bytes('psk_a', 8), eng.sym_bytes('psk_b', 8)
    c02.set_auth(p.a, 'my_auth', psk=psk_a); c02.set_auth(p.b, 'peer_auth', psk=psk_a)
    c02.set_auth(p.b, 'my_auth', psk=psk_b); c02.set_auth(p.a, 'peer_auth', psk=psk_b)
    checks = []
    c01.do_initial(p, eng, checks)
    sa_a, sa_b = p.a, p.b
    for step in scenario.split('+'):
        if step == 'init':
            continue
        kind, who = step.split('@')
        if kind == 'new':
            c01.do_new_child(p, eng, checks, who, sa_a, sa_b, suite == 'pfs')
        elif kind == 'rekey':
            c01.do_rekey_child(p, eng, checks, who, sa_a, sa_b, suite == 'pfs')
        elif kind == 'ike':
            bad, sa_a, sa_b = c01.do_rekey_ike(p, eng, checks, who, sa_a, sa_b)
    bad = judge(eng, secrets_of(p), f'{suite}/{scenario}')
    if bad:
        return {'class': ['log'], 'violation': bad}
    return ['log', 'success', sum(1 for l, _ in RECORDS if l >= 20)]


EXTRA_SECRETS = []
MX = MNL = None


def h_failure(kind):
    """failure paths: wrong PSK, wrong identity, no proposal, unacceptable selectors, kernel refusal (internal error), garbage inside an
    authentic message"""
    from symx import core
    eng = core.engine()
    m = MODS['message']
    del RECORDS[:]
    del WIRE[:]
    del c01.NONCES[:]
    del EXTRA_SECRETS[:]
    p = c01.mk_pair('default')
    if kind == 'kernel_refusal_netlink':
        # keys handed to the (real) kernel interface are secrets: record them at the Xfrm.create_sa boundary of the model module
        real_create = MX.Xfrm.__dict__['create_sa'].__func__

        def spy_create(cls, *a, **k):
            EXTRA_SECRETS.append(('a CHILD_SA encryption key', a[11] if len(a) > 11 else k.get('sk_e')))
            EXTRA_SECRETS.append(('a CHILD_SA integrity key', a[13] if len(a) > 13 else k.get('sk_a')))
            return real_create(cls, *a, **k)
        MX.Xfrm.create_sa = classmethod(spy_create)
    v = {k: eng.sym_bytes(k, 8) for k in ('a_my_psk', 'b_peer_psk', 'b_my_psk', 'a_peer_psk')}
    c02.set_auth(p.a, 'my_auth', psk=v['a_my_psk']); c02.set_auth(p.b, 'peer_auth', psk=v['b_peer_psk'])
    c02.set_auth(p.b, 'my_auth', psk=v['b_my_psk']); c02.set_auth(p.a, 'peer_auth', psk=v['a_peer_psk'])
    if kind == 'wrong_psk_initiator':
        eng.assume(core.sym_and(v['a_my_psk'] != v['b_peer_psk'], v['b_my_psk'] == v['a_peer_psk']))
    elif kind == 'wrong_psk_responder':
        eng.assume(core.sym_and(v['a_my_psk'] == v['b_peer_psk'], v['b_my_psk'] != v['a_peer_psk']))
    else:
        eng.assume(core.sym_and(v['a_my_psk'] == v['b_peer_psk'], v['b_my_psk'] == v['a_peer_psk']))
    if kind == 'no_proposal':
        for ikesa, enc in ((p.a, 'aes128'), (p.b, 'aes256')):
            cd = dict(p.confdict)
        p.confdict['alice']['protect'][0]['encr'] = ['aes128']
        p.confdict['bob']['protect'][0]['encr'] = ['aes256']
        cf = MODS['configuration'].Configuration([world.IP1, world.IP2], p.confdict)
        for sa, pair in ((p.a, (world.IP1, world.IP2)), (p.b, (world.IP2, world.IP1))):
            conf = cf.get_ike_configuration(*pair)
            sa.configuration = conf._replace(my_auth=sa.configuration.my_auth, peer_auth=sa.configuration.peer_auth)
    if kind == 'wrong_method':
        # the initiator authenticates with an RSA key while the responder only holds a PSK for it (and vice versa for the response)
        from symx import shims as _sh
        rsa_uf = _sh.UF('rsa_sign')
        c02.set_auth(p.a, 'my_auth', privkey=c02.ModelRsa(b'key-a', rsa_uf))
    if kind == 'kernel_refusal_netlink':
        # the real netlink layer (modelled ctypes) gets an error reply from the kernel for every XFRM_MSG_NEWSA
        from . import c14
        import types as _t

        class ErrSock(c14.Sock):
            def recv(self, n):
                import struct
                last = self.sent[-1]
                from symx import core as _c
                ty = _c.SymBytes.lift(last)[4]
                if isinstance(ty, int) and ty == 0x10:
                    return struct.pack('=IHHII', 36, 2, 0, 0, 0) + struct.pack('=i', -17) + bytes(16)
                return c14.Sock.recv(self, n)
        sock = ErrSock()
        MX.Xfrm._get_socket = classmethod(lambda cls, groups: sock)
        MNL.time = _t.SimpleNamespace(time=lambda: 1700000000.5)
        MODS['ikesa'].xfrm = MX
    if kind.startswith('internal_error_install'):
        # an unexpected (non-protocol) exception while the kernel SAs are installed: the frames below the handler hold the CHILD_SA keys
        class Broken(symcrypto.RecKernel):
            def create_sa(self, *a, **k):
                symcrypto.RecKernel.create_sa(self, *a, **k)
                raise TypeError('an integer is required (injected internal error)')
        if kind.endswith('_responder'):
            p.B.kernel = Broken()
        else:
            p.A.kernel = Broken()
    if kind == 'kernel_refusal':
        class Refusing(symcrypto.RecKernel):
            def create_sa(self, *a, **k):
                symcrypto.RecKernel.create_sa(self, *a, **k)
                raise MODS['xfrm'].NetlinkError('injected kernel refusal')
        p.B.kernel = Refusing()
        p.A.kernel = Refusing()
    # injectivity of the PRF: differing keys give differing AUTH values (otherwise a wrong PSK could be accepted by collision)
    from symx import shims
    shims.HMAC_UF.injective = kind.startswith('wrong_psk')
    try:
        m1 = p.init_req()
        m2 = p.send('B', m1)
        m3 = p.send('A', m2)
        if kind == 'peer_silent_after_keys':
            # the initiator has just derived all IKE keys; its IKE_AUTH request is never answered: retransmissions, then it gives up
            for _ in range(8):
                world.ENV.now = world.ENV.now + 30
                p.A.call(p.a.check_retransmission_timer)
            m3 = None
        m4 = p.send('B', m3) if m3 is not None else None
        r = p.send('A', m4) if m4 is not None else None
        if kind == 'peer_silent_established' and p.a.state.name == 'ESTABLISHED':
            # right after a CHILD_SA rekey (fresh keys in the recent history of the IKE_SA) the peer goes silent: probe, retransmissions, give-up
            q = p.A.call(p.a.process_expire, p.a.child_sas[0].inbound_spi, False)
            c01.pump(p.a, p.A, p.b, p.B, q)
            world.ENV.now = p.a.start_dpd_at + 3600
            p.A.call(p.a.check_dead_peer_detection_timer)
            for _ in range(8):
                world.ENV.now = world.ENV.now + 30
                p.A.call(p.a.check_retransmission_timer)
        if kind == 'ts_unacceptable' and p.a.state.name == 'ESTABLISHED':
            TS = m.TrafficSelector
            from ipaddress import ip_network
            q = p.A.call(p.a.process_acquire, TS.from_network(ip_network('10.9.9.0/24'), 1, TS.IpProtocol.UDP),
                         TS.from_network(ip_network('10.8.8.0/24'), 2, TS.IpProtocol.UDP), 1)
            c01.pump(p.a, p.A, p.b, p.B, q)
        if kind == 'garbage' and p.a.state.name == 'ESTABLISHED':
            # an authentic INFORMATIONAL request whose protected body is an arbitrary (malformed) payload
            junk = eng.sym_bytes('junk', 5)
            msg = m.Message(spi_i=p.a.spi_i, spi_r=p.a.spi_r, major=2, minor=0, exchange_type=36, is_response=False, can_use_higher_version=False,
                            is_initiator=True, message_id=p.a.my_msg_id, payloads=[], encrypted_payloads=[m.PayloadVENDOR(junk)], crypto=p.a.my_crypto)
            d = msg.to_bytes()
            try:
                p.send('B', d)
            except m.IkeSaError:
                pass
    finally:
        shims.HMAC_UF.injective = False
        MODS['ikesa'].xfrm = MODS['xfrm']
    bad = judge(eng, secrets_of(p) + EXTRA_SECRETS, kind)
    if bad:
        return {'class': ['log'], 'violation': bad}
    return ['log', kind, p.a.state.name, p.b.state.name, sum(1 for l, _ in RECORDS if l >= 20)]


CLI_TOKENS = ('-v', '--verbose', '--verb', '-ni', '--no-indent', '-q', '--quiet', '-qq', '-qqq', '-qqqq', '-d', '--debug', '-ni -ni')
CLI_VERBOSE = ('-v', '--verbose', '--verb')


def h_cli(k):
    """the daemon's entry script pyikev2.py with an arbitrary command line of k extra options (each arbitrary among CLI_TOKENS; bounded case
    split): unless a --verbose option is among them, the log level it configures is INFO or higher, i.e. the DEBUG records (the only ones that
    carry key material, see the other harnesses) are never written"""
    import logging as _logging
    import os
    import runpy
    import sys
    import tempfile
    from symx import core
    eng = core.engine()
    picks = []
    for i in range(k):
        c = eng.sym_int(f'option{i}', 0, len(CLI_TOKENS) - 1)
        picks.append(CLI_TOKENS[eng.concretize(c, 0, len(CLI_TOKENS) - 1) if not isinstance(c, int) else c])
    fd, path = tempfile.mkstemp(suffix='.yaml', dir='/var/tmp')
    os.write(fd, b'conn:\n  my_addr: 192.168.0.2\n  peer_addr: 192.168.0.1\n  my_auth: {id: a, psk: k}\n  peer_auth: {id: b, psk: k}\n  protect: [{ip_proto: tcp}]\n')
    os.close(fd)
    argv = ['pyikev2.py', '-c', path, '-i', '192.168.0.2'] + [t for tok in picks for t in tok.split()]
    configured, started = [], []
    ic = MODS['ikesacontroller']

    class StubController:
        def __init__(self, *a, **kw):
            pass

        def main_loop(self):
            started.append(True)

        def close(self):
            pass
    saved = (sys.argv, _logging.basicConfig, ic.IkeSaController, sys.stderr, sys.stdout, getattr(_logging, 'indent', None))
    _logging.basicConfig = lambda **kw: configured.append(kw.get('level', _logging.WARNING))
    ic.IkeSaController = StubController
    sys.argv = argv
    sys.stderr = sys.stdout = open(os.devnull, 'w')
    outcome = 'ran'
    try:
        runpy.run_path(os.path.join(common.REPO, 'pyikev2.py'), run_name='__main__')
    except SystemExit as ex:
        outcome = f'exit {ex.code}'
    except Exception as ex:      # noqa
        outcome = f'raised {type(ex).__name__}: {ex}'
    finally:
        sys.stderr.close()
        sys.argv, _logging.basicConfig, ic.IkeSaController, sys.stderr, sys.stdout = saved[:5]
        _logging.indent = saved[5]
        os.unlink(path)
    verbose = any(t in CLI_VERBOSE for t in picks)
    if outcome.startswith('raised'):
        return {'class': ['cli'], 'violation': f'pyikev2.py {" ".join(argv[5:])}: {outcome}'}
    if started:
        if len(configured) != 1:
            return {'class': ['cli'], 'violation': f'pyikev2.py {" ".join(argv[5:])}: the daemon started with logging configured {len(configured)} times'}
        if not verbose and configured[0] < _logging.INFO:
            return {'class': ['cli'], 'violation': f'pyikev2.py {" ".join(argv[5:]) or "(no option)"}: no --verbose option, yet the log level is {configured[0]} '
                                                   f'(below INFO = {_logging.INFO}): the DEBUG records with all key material are written'}
    return ['cli', 'started' if started else outcome, bool(verbose)]


CLI_PSKS = ('hunter2-secret', '0x1234zz5678', '0xdeadbeefcafe', '0Xnot-hex', 'base64:QUJDREVG', ' psk with spaces ', '1234567890', '@/etc/ipsec.secrets', '{psk}', '%s%s%n')
CLI_ERRORS = ('none', 'bad_my_addr', 'not_listening', 'unknown_alg', 'bad_lifetime', 'bad_protect', 'missing_peer_auth',
              # the file is not even YAML, and the line that breaks it is a line holding a pre-shared key (written unquoted / with a stray quote)
              'yaml_psk_unquoted_at', 'yaml_psk_colon', 'yaml_psk_open_quote', 'yaml_psk_tab')


def h_cli_config():
    """pyikev2.py started WITHOUT --verbose on a configuration file whose pre-shared keys are arbitrary members of CLI_PSKS and which contains an
    arbitrary one of CLI_ERRORS: whatever it writes (log records of any level, stdout, stderr) never contains a configured pre-shared key"""
    import io
    import logging as _logging
    import os
    import runpy
    import sys
    import tempfile
    import yaml
    from symx import core
    eng = core.engine()
    pick = lambda name, opts: opts[eng.concretize(eng.sym_int(name, 0, len(opts) - 1), 0, len(opts) - 1)] if not isinstance(eng, core.ReplayEngine) \
        else opts[eng.sym_int(name, 0, len(opts) - 1)]
    psk_a, psk_b, err = pick('my_psk', CLI_PSKS), pick('peer_psk', CLI_PSKS), pick('error', CLI_ERRORS)
    conn = {'my_addr': '192.168.0.2', 'peer_addr': '192.168.0.1', 'my_auth': {'id': 'a@example.org', 'psk': psk_a}, 'peer_auth': {'id': 'b@example.org', 'psk': psk_b},
            'encr': ['aes256'], 'protect': [{'ip_proto': 'tcp', 'lifetime': 60}]}
    if err == 'bad_my_addr':
        conn['my_addr'] = 'not an address !'
    elif err == 'not_listening':
        conn['my_addr'] = '192.168.0.77'
    elif err == 'unknown_alg':
        conn['encr'] = ['rot13']
    elif err == 'bad_lifetime':
        conn['protect'][0]['lifetime'] = 'soon'
    elif err == 'bad_protect':
        conn['protect'] = 'everything'
    elif err == 'missing_peer_auth':
        del conn['peer_auth']['id']
        conn['peer_auth']['pubkey'] = 'garbage'
    fd, path = tempfile.mkstemp(suffix='.yaml', dir='/var/tmp')
    doc = yaml.safe_dump({'conn': conn})
    if err.startswith('yaml_psk'):
        conn['my_auth']['psk'] = 'PSK_PLACEHOLDER_A'
        doc = yaml.safe_dump({'conn': conn})
        typed = {'yaml_psk_unquoted_at': '@' + psk_a, 'yaml_psk_colon': psk_a + ': &x *y [', 'yaml_psk_open_quote': '"' + psk_a, 'yaml_psk_tab': '\t' + psk_a + ' {'}[err]
        doc = doc.replace('PSK_PLACEHOLDER_A', typed)
    os.write(fd, doc.encode())
    os.close(fd)
    records, started = [], []
    ic = MODS['ikesacontroller']

    class StubController:
        def __init__(self, *a, **kw):
            pass

        def main_loop(self):
            started.append(True)

        def close(self):
            pass
    names = ('debug', 'info', 'warning', 'error', 'critical', 'exception')
    saved = (sys.argv, _logging.basicConfig, ic.IkeSaController, sys.stderr, sys.stdout, getattr(_logging, 'indent', None), {n: getattr(_logging, n) for n in names})
    _logging.basicConfig = lambda **kw: None
    for n in names:
        setattr(_logging, n, (lambda lvl: (lambda msg, *a, **k: records.append((lvl, str(msg) % a if a else str(msg)))))(n))
    ic.IkeSaController = StubController
    sys.argv = ['pyikev2.py', '-c', path, '-i', '192.168.0.2']
    out = io.StringIO()
    sys.stderr = sys.stdout = out
    try:
        runpy.run_path(os.path.join(common.REPO, 'pyikev2.py'), run_name='__main__')
    except SystemExit:
        pass
    except Exception as ex:      # noqa
        records.append(('traceback', f'{type(ex).__name__}: {ex}'))
    finally:
        sys.argv, _logging.basicConfig, ic.IkeSaController, sys.stderr, sys.stdout = saved[:5]
        _logging.indent = saved[5]
        for n, f in saved[6].items():
            setattr(_logging, n, f)
        os.unlink(path)
    text = out.getvalue() + '\n'.join(t for _, t in records)
    for who, psk in (('my_auth', psk_a), ('peer_auth', psk_b)):
        if psk in text or psk.strip() in text:
            lvl = next((l for l, t in records if psk in t), 'stdout/stderr')
            return {'class': ['cli_config'], 'violation': f'configuration error {err!r}: the pre-shared key of {who} ({psk!r}) appears in the output ({lvl}) of a daemon '
                                                          f'started without --verbose'}
    return ['cli_config', 'started' if started else 'refused']


def h_controller(kind):
    """controller level (its own log lines): IKE_SA_INIT requests the responder ignores or cannot parse (Message ID != 0, INITIATOR flag clear,
    truncated payload chain, unknown peer), an unknown SPI, and a normal exchange; the pre-shared keys of the connection (concrete configuration
    strings) appear in no record of level INFO or above"""
    from symx import core
    eng = core.engine()
    m = MODS['message']
    del RECORDS[:]
    del WIRE[:]
    c = world.Ctl()
    ep = c.new_initiator()
    tsi, tsr = c.acquire_tss()
    m1 = bytes(ep.call(ep.obj.process_acquire, tsi, tsr, 1))
    mid = eng.sym_int('mid', 0, 0xFFFFFFFF)
    flags = eng.sym_int('flags', 0, 255)
    if kind == 'ignored_init':
        eng.assume((flags & 0x20) == 0)
        d = world.restamp(m1, None, flags=flags, mid=mid)
    elif kind == 'truncated_init':
        cut = eng.sym_int('cut', 28, len(m1) - 1)
        d = m1[:eng.concretize(cut, 28, len(m1) - 1) if not isinstance(cut, int) else cut]
    elif kind == 'unknown_spi':
        d = world.restamp(m1, None, exchange=37, flags=flags, mid=mid)
    else:
        d = m1
    for src in (world.IP1, world.ip_address('203.0.113.5')):
        try:
            r = c.dispatch(d, peer_addr=src)
        except Exception:      # noqa - what the main loop would swallow
            r = None
        if kind == 'normal' and r is not None and src == world.IP1:
            x = ep.call(ep.obj.process_message, r)
            if x is not None:
                r2 = c.dispatch(x)
                if r2 is not None:
                    ep.call(ep.obj.process_message, r2)
    secrets = [('the pre-shared key of alice', b'testing2'), ('the pre-shared key of bob', b'testing')]
    for level, text in RECORDS:
        if level < 20:
            continue
        for name, raw in secrets:
            if raw.decode() in text or raw.hex() in text:
                return {'class': ['controller'], 'violation': f'{kind}: a controller log record of level {level} contains {name}: {text[:160]!r}'}
    return ['controller', kind, sum(1 for l, _ in RECORDS if l >= 20)]


def h_many_peers(n_peers):
    """a gateway process with many connections, each with its own pair of pre-shared keys: one complete initial exchange per connection (arbitrary
    subset order is irrelevant - all of them run); no record of level INFO or above contains any of the keys, raw or in hexadecimal (state that grows
    with the number of distinct credentials - caches, tables - is exercised beyond its small sizes)"""
    from symx import core
    from ipaddress import ip_address
    eng = core.engine()
    m, ik, cfm = MODS['message'], MODS['ikesa'], MODS['configuration']
    S = ik.IkeSa.State
    del RECORDS[:]
    del WIRE[:]
    world.ENV.reset()
    gw = world.IP2
    conf, secrets = {}, []
    for i in range(n_peers):
        peer = ip_address(f'192.168.1.{10 + i}')
        k_gw, k_peer = f'gw-secret-{i:02d}-Zq', f'peer-secret-{i:02d}-Xv'
        secrets += [(f'the pre-shared key of the gateway for peer {i}', k_gw.encode()), (f'the pre-shared key of peer {i}', k_peer.encode())]
        prot = {'index': 100 + i, 'ip_proto': 'tcp', 'mode': 'transport', 'lifetime': 50, 'ipsec_proto': 'esp', 'encr': ['aes256']}
        conf[f'gw{i}'] = {'my_addr': str(gw), 'peer_addr': str(peer), 'my_auth': {'id': f'gw@example.org', 'psk': k_gw}, 'peer_auth': {'id': f'peer{i}@example.org', 'psk': k_peer},
                          'dh': ['ecp256'], 'protect': [dict(prot)]}
        conf[f'peer{i}'] = {'my_addr': str(peer), 'peer_addr': str(gw), 'my_auth': {'id': f'peer{i}@example.org', 'psk': k_peer}, 'peer_auth': {'id': 'gw@example.org', 'psk': k_gw},
                            'dh': ['ecp256'], 'protect': [dict(prot, index=200 + i)]}
    addrs = [gw] + [ip_address(f'192.168.1.{10 + i}') for i in range(n_peers)]
    configuration = cfm.Configuration(addrs, conf)
    E = world.Endpoint('GW', None)
    with E:
        ctl = MODS['ikesacontroller'].IkeSaController(my_addrs=[gw], configuration=configuration)
    E.obj = ctl
    TS = m.TrafficSelector
    from ipaddress import ip_network
    done = 0
    for i in range(n_peers):
        peer = addrs[1 + i]
        a = ik.IkeSa(is_initiator=True, peer_spi=b'\0' * 8, configuration=configuration.get_ike_configuration(peer, gw), my_addr=peer, peer_addr=gw)
        A = world.Endpoint(f'P{i}', a)
        d = A.call(a.process_acquire, TS.from_network(ip_network(f'{peer}/32'), 0, TS.IpProtocol.TCP), TS.from_network(ip_network(f'{gw}/32'), 0, TS.IpProtocol.TCP), 200 + i)
        to_gw = True
        for _ in range(8):
            if d is None:
                break
            try:
                if to_gw:
                    with E:
                        d = ctl.dispatch_message(d, gw, peer)
                else:
                    d = A.call(a.process_message, d)
            except Exception:     # noqa - what the main loop would swallow
                d = None
            to_gw = not to_gw
        done += a.state == S.ESTABLISHED
    for level, text in RECORDS:
        if level < 20:
            continue
        for name, raw in secrets:
            if raw.decode() in text or raw.hex() in text:
                return {'class': ['many_peers'], 'violation': f'{n_peers} connections: a log record of level {level} contains {name}: {text[:160]!r}'}
    if done != n_peers:
        return {'class': ['many_peers'], 'violation': f'only {done} of {n_peers} peers with correct credentials could establish an IKE_SA'}
    return ['many_peers', n_peers, sum(1 for l, _ in RECORDS if l >= 20)]


def build_instances(tier):
    inst = []
    for kind in ('ignored_init', 'truncated_init', 'unknown_spi', 'normal'):
        inst.append(Instance(f'controller log: {kind}', h_controller, (kind,), engine_kw={'max_ticks': 10 ** 7}, must_reach=[('records', lambda o: o[0] == 'controller')]))
    for n in ((3, 12) if tier == 'quick' else (1, 2, 5, 9, 12, 17, 33)):
        inst.append(Instance(f'gateway with {n} connections', h_many_peers, (n,), native=common.native_of(h_many_peers), engine_kw={'max_ticks': 10 ** 7},
                             must_reach=[('records', lambda o: o[0] == 'many_peers')]))
    inst.append(Instance('configuration errors never print a pre-shared key', h_cli_config, (), native=common.native_of(h_cli_config), engine_kw={'max_ticks': 10 ** 7},
                         must_reach=[('started', lambda o: o == ['cli_config', 'started']), ('refused', lambda o: o == ['cli_config', 'refused'])]))
    for k in ((0, 1, 2) if tier == 'quick' else (0, 1, 2, 3)):
        inst.append(Instance(f'command line with {k} extra options', h_cli, (k,), native=common.native_of(h_cli), engine_kw={'max_ticks': 10 ** 7},
                             must_reach=[('started', lambda o: o[:2] == ['cli', 'started'])]))
    for suite, sc in (('default', 'init+new@A+rekey@B'), ('default', 'init+ike@A+new@B'), ('pfs', 'init+new@B+rekey@A'), ('ah_tunnel', 'init+rekey@A'),
                      ('ike_dh_retry', 'init+new@A'), ('child_dh_retry', 'init+new@A')) + \
            ((('subset', 'init+new@B'), ('default', 'init+ike@B+rekey@B+new@A')) if tier == 'thorough' else ()):
        inst.append(Instance(f'success {suite} {sc}', h_success, (suite, sc), engine_kw={'max_ticks': 10 ** 7},
                             must_reach=[('records', lambda o: o[:2] == ['log', 'success'] and o[2] > 5)]))
    for kind in ('wrong_psk_initiator', 'wrong_psk_responder', 'wrong_method', 'no_proposal', 'ts_unacceptable', 'kernel_refusal', 'kernel_refusal_netlink', 'garbage',
                 'internal_error_install_responder', 'internal_error_install_initiator', 'peer_silent_after_keys', 'peer_silent_established'):
        inst.append(Instance(f'failure {kind}', h_failure, (kind,), engine_kw={'max_ticks': 10 ** 7},
                             must_reach=[('records', lambda o: o[0] == 'log' and o[-1] > 3)]))
    return inst


def _load(shim):
    global MODS
    MODS = world.load(shim=shim)
    symcrypto.install(MODS)
    c01.MODS = MODS
    c02.MODS = MODS
    c04.MODS = MODS
    c01.install_nonce_recorder(MODS['message'])
    install_capture(MODS)
    install_wire_tap(MODS)
    global MX, MNL
    if shim:
        from symx import ctmodel
        MNL, MX = ctmodel.load_against_model(common.REPO)
        MX.logging = MNL.logging = CaptureLogging
        MX.random = MODS['xfrm'].random
        MNL.os = __import__('types').SimpleNamespace(getpid=lambda: 1, strerror=lambda e: 'File exists')
    else:
        import importlib, sys
        sys.modules.pop('xfrm', None)
        MX, MNL = importlib.import_module('xfrm'), MODS['netlink']
        MX.logging = CaptureLogging
    return MODS


def replay_file(path):
    return common.generic_replay_file(path, lambda: build_instances('thorough') + build_instances('quick'), lambda: _load(False))


def main(tier, seed):
    _load(True)
    ik = MODS['ikesa'].IkeSa
    chk = Check('C20', tier, seed,
                functions=common.src_hash(ik.log_msg, ik.log_message, ik.generate_ike_sa_key_material, ik.generate_child_sa_key_material,
                                          ik._process_request, ik._process_response, ik._process_ike_sa_negotiation_request,
                                          ik.process_ike_sa_negotiation_response, ik._process_create_child_sa_negotiation_req,
                                          ik._process_create_child_sa_negotiation_res, MODS['ikesacontroller'].IkeSaController.dispatch_message),
                bounds={'histories': '6 (thorough 8) success scenarios of the C01 harness (initial, CREATE_CHILD_SA new/rekey from either side, IKE_SA rekey, PFS, AH, '
                                     'INVALID_KE retries) and 6 failure paths: wrong PSK on either side (AUTHENTICATION_FAILED), NO_PROPOSAL_CHOSEN, TS_UNACCEPTABLE, '
                                     'an unsupported AUTH method, a kernel refusal (internal-error path with traceback) at the Python level and through the real netlink layer (modelled '
                                     'ctypes, NLMSG_ERROR reply), an authentic message with an arbitrary malformed payload',
                        'secrets': 'all PSKs (8 symbolic bytes each), every component of every IKE keyring, every CHILD_SA key handed to the kernel, every DH shared '
                                   'secret - all symbolic; a record is judged by a non-interference query over them',
                        'outside': 'text produced inside library exceptions of cryptography/OpenSSL; log records of pyikev2.py (start-up) and of the real netlink layer; '
                                   'the verbosity switch itself (pyikev2.py:51: DEBUG iff --verbose) is read, not executed'},
                assumptions=['records below INFO are not emitted at the default level (logging.basicConfig(level=INFO) in pyikev2.py)',
                             'a formatted symbolic value leaves a token that keeps its term (hex(), str(), format() of the proxies)'],
                stubs=['capturing logging object in ikesa/ikesacontroller/xfrm/message/netlink', 'traceback.print_exc captured as an ERROR record',
                       'symbolic os.urandom, DH model, HMAC/AES UF', 'kernel recorder'])
    chk.run(build_instances(tier))
    return chk.finish(replay=lambda v: common.native_replay_subprocess('C20', v))
