"""C05 - wire encoding matches RFC 7296 section 3 and round-trips.
(1) every field symbolic: Message.to_bytes of one payload of each class equals an independent section-3 encoder and parses
back to the same content; (2) every byte symbolic: on every buffer the parser accepts, serialise-after-parse is idempotent."""
import json

from . import common
from .common import Instance, Check
from . import c06

MODS = None


def _be(v, n):
    from symx import core
    return v.to_bytes(n, 'big') if isinstance(v, (int, core.SymInt)) else v


def _ref_message(spi_i, spi_r, first, major, minor, exch, flags, mid, chain):
    """independent encoder: chain = [(type, body bytes)]"""
    from symx import core
    out = core.SymBytes([])
    for i, (t, body) in enumerate(chain):
        nxt = chain[i + 1][0] if i + 1 < len(chain) else 0
        out = out + _be(nxt, 1) + b'\0' + (len(body) + 4).to_bytes(2, 'big') + body
    total = 28 + len(out)
    ver = major * 16 + minor
    return core.SymBytes([]) + spi_i + spi_r + _be(first, 1) + _be(ver, 1) + _be(exch, 1) + _be(flags, 1) + _be(mid, 4) + \
        total.to_bytes(4, 'big') + out


def h_encode(kind):
    from symx import core
    eng = core.engine()
    m = MODS['message']
    S, I = eng.sym_bytes, eng.sym_int
    spi_i, spi_r = S('spi_i', 8), S('spi_r', 8)
    major, minor = I('major', 0, 15), I('minor', 0, 15)
    mid = I('mid', 0, 0xFFFFFFFF)
    resp, hv, init = eng.sym_bool('resp'), eng.sym_bool('hv'), eng.sym_bool('init')
    exch = I('exch', 34, 37)
    if kind == 'KE':
        g, d = I('group', 0, 65535), S('ke', 5)
        p = m.PayloadKE(g, d); body = _be(g, 2) + b'\0\0' + d; t = 34
        same = lambda q: core.sym_and(q.dh_group == g, q.ke_data == d)
    elif kind == 'NOTIFY':
        pr, nt, spi, d = I('proto', 0, 3), I('ntype', 0, 65535), S('spi', 4), S('data', 3)
        p = m.PayloadNOTIFY(pr, nt, spi, d); body = _be(pr, 1) + b'\x04' + _be(nt, 2) + spi + d; t = 41
        same = lambda q: core.sym_and(q.protocol_id == pr, q.notification_type == nt, q.spi == spi, q.notification_data == d)
    elif kind == 'NOTIFY0':
        pr, nt, d = I('proto', 0, 3), I('ntype', 16384, 16395), S('data', 2)
        p = m.PayloadNOTIFY(pr, nt, b'', d); body = _be(pr, 1) + b'\x00' + _be(nt, 2) + d; t = 41
        same = lambda q: core.sym_and(q.protocol_id == pr, q.notification_type == nt, q.spi == b'', q.notification_data == d)
    elif kind == 'DELETE':
        pr, s1, s2 = I('proto', 0, 3), S('spi1', 4), S('spi2', 4)
        p = m.PayloadDELETE(pr, [s1, s2]); body = _be(pr, 1) + b'\x04\x00\x02' + s1 + s2; t = 42
        same = lambda q: core.sym_and(q.protocol_id == pr, len(q.spis) == 2 and q.spis[0] == s1, len(q.spis) == 2 and q.spis[1] == s2)
    elif kind == 'NONCE':
        d = S('nonce', 16)
        p = m.PayloadNONCE(d); body = d; t = 40
        same = lambda q: q.nonce == d
    elif kind == 'ID':
        it, d = I('idtype', 0, 255), S('id', 4)
        p = m.PayloadIDi(it, d); body = _be(it, 1) + b'\0\0\0' + d; t = 35
        same = lambda q: core.sym_and(q.id_type == it, q.id_data == d)
    elif kind == 'AUTH':
        me, d = I('method', 0, 255), S('auth', 3)
        p = m.PayloadAUTH(me, d); body = _be(me, 1) + b'\0\0\0' + d; t = 39
        same = lambda q: core.sym_and(q.method == me, q.auth_data == d)
    elif kind == 'VENDOR':
        d = S('vid', 3)
        p = m.PayloadVENDOR(d); body = d; t = 43
        same = lambda q: q.vendor_id == d
    elif kind == 'TS':
        from symx import shims
        import ipaddress
        pr, sp, ep = I('proto', 0, 255), I('sp', 0, 65535), I('ep', 0, 65535)
        sa, ea = I('sa', 0, 0xFFFFFFFF), I('ea', 0, 0xFFFFFFFF)
        ts = m.TrafficSelector(7, pr, sp, ep, shims._mk_addr(ipaddress.IPv4Address, sa), shims._mk_addr(ipaddress.IPv4Address, ea))
        p = m.PayloadTSi([ts]); t = 44
        body = b'\x01\0\0\0' + b'\x07' + _be(pr, 1) + b'\x00\x10' + _be(sp, 2) + _be(ep, 2) + _be(sa, 4) + _be(ea, 4)
        same = lambda q: core.sym_and(len(q.traffic_selectors) == 1, q.traffic_selectors[0] == ts)
    elif kind == 'SA':
        T = m.Transform
        pn, pid, spi = I('num', 0, 255), I('pid', 0, 3), S('spi', 4)
        t1 = T(T.Type.ENCR, T.EncrId.ENCR_AES_CBC, I('keylen', 0, 65535))
        t2 = T(T.Type.DH, I('dh', 14, 21))
        p = m.PayloadSA([m.Proposal(pn, pid, spi, [t1, t2])]); t = 33
        tr1 = b'\x03\x00\x00\x0c' + b'\x01\x00\x00\x0c' + b'\x80\x0e' + _be(t1.keylen, 2)
        tr2 = b'\x00\x00\x00\x08' + b'\x04\x00' + _be(t2.id, 2)
        prop = _be(pn, 1) + _be(pid, 1) + b'\x04\x02' + spi + tr1 + tr2
        body = b'\x00\x00' + (len(prop) + 4).to_bytes(2, 'big') + prop
        same = lambda q: core.sym_and(len(q.proposals) == 1, q.proposals[0].num == pn, q.proposals[0].protocol_id == pid,
                                      q.proposals[0].spi == spi, len(q.proposals[0].transforms) == 2,
                                      q.proposals[0].transforms[0].keylen == t1.keylen, q.proposals[0].transforms[0].id == 12,
                                      q.proposals[0].transforms[1].type == 4, q.proposals[0].transforms[1].id == t2.id)
    elif kind == 'SA3':
        # three proposals of which the first and the last are EQUAL as proposals (same protocol and transforms, other SPI), the middle one with a
        # transform repeated before its last position: 'more' markers must depend on the position only (2,2,0 / 3,..,0)
        T = m.Transform
        s1, s3 = S('spi1', 4), S('spi3', 4)
        kl = I('keylen', 1, 65535)
        mk = lambda: [T(T.Type.ENCR, T.EncrId.ENCR_AES_CBC, kl), T(T.Type.INTEG, T.IntegId.AUTH_HMAC_SHA2_256_128)]
        esn = T(T.Type.ESN, T.EsnId.NO_ESN)
        p1, p3 = m.Proposal(1, 3, s1, mk()), m.Proposal(3, 3, s3, mk())
        p2 = m.Proposal(2, 2, b'', [esn, T(T.Type.INTEG, T.IntegId.AUTH_HMAC_SHA1_96), T(T.Type.ESN, T.EsnId.NO_ESN)])
        p = m.PayloadSA([p1, p2, p3]); t = 33
        tr_e = lambda more: bytes([more]) + b'\x00\x00\x0c' + b'\x01\x00\x00\x0c' + b'\x80\x0e' + _be(kl, 2)
        tr_i = lambda more, i: bytes([more]) + b'\x00\x00\x08' + b'\x03\x00' + i.to_bytes(2, 'big')
        tr_n = lambda more: bytes([more]) + b'\x00\x00\x08' + b'\x05\x00\x00\x00'
        b1 = b'\x01\x03\x04\x02' + s1 + tr_e(3) + tr_i(0, 12)
        b2 = b'\x02\x02\x00\x03' + tr_n(3) + tr_i(3, 2) + tr_n(0)
        b3 = b'\x03\x03\x04\x02' + s3 + tr_e(3) + tr_i(0, 12)
        body = core.SymBytes([])
        for more, b in ((2, b1), (2, b2), (0, b3)):
            body = body + bytes([more, 0]) + (len(b) + 4).to_bytes(2, 'big') + b
        same = lambda q: core.sym_and(len(q.proposals) == 3, q.proposals[0].spi == s1, q.proposals[2].spi == s3, len(q.proposals[1].transforms) == 3,
                                      q.proposals[0].transforms[0].keylen == kl, q.proposals[2].num == 3, q.proposals[1].protocol_id == 2)
    elif kind == 'TS6':
        from symx import shims
        import ipaddress
        pr, sp, ep = I('proto', 0, 255), I('sp', 0, 65535), I('ep', 0, 65535)
        sa, ea = I('sa', 0, (1 << 128) - 1, width=136), I('ea', 0, (1 << 128) - 1, width=136)
        ts6 = m.TrafficSelector(8, pr, sp, ep, shims._mk_addr(ipaddress.IPv6Address, sa), shims._mk_addr(ipaddress.IPv6Address, ea))
        ts4 = m.TrafficSelector(7, 0, 0, 65535, ipaddress.ip_address('10.0.0.0'), ipaddress.ip_address('10.0.0.255'))
        p = m.PayloadTSr([ts6, ts4]); t = 45
        body = b'\x02\0\0\0' + b'\x08' + _be(pr, 1) + b'\x00\x28' + _be(sp, 2) + _be(ep, 2) + _be(sa, 16) + _be(ea, 16) + \
            b'\x07\x00\x00\x10\x00\x00\xff\xff' + bytes([10, 0, 0, 0, 10, 0, 0, 255])
        same = lambda q: core.sym_and(len(q.traffic_selectors) == 2, q.traffic_selectors[0] == ts6, q.traffic_selectors[1] == ts4)
    elif kind.startswith('DELETEx'):
        # long lists: every element is encoded, decoded and shown in the dump (a cap, a window, a de-duplication would lose some)
        n = int(kind[7:])
        pr = I('proto', 0, 3)
        spis = [S(f'spi{i}', 4) for i in range(n)]
        p = m.PayloadDELETE(pr, list(spis)); t = 42
        body = _be(pr, 1) + b'\x04' + n.to_bytes(2, 'big')
        for x in spis:
            body = body + x
        same = lambda q: core.sym_and(q.protocol_id == pr, len(q.spis) == n, *[q.spis[i] == spis[i] for i in range(min(n, len(q.spis)))])
    elif kind.startswith('TSx'):
        import ipaddress
        n = int(kind[3:])
        ports = [I(f'port{i}', 0, 65535) for i in range(n)]
        tss = [m.TrafficSelector(7, 6, ports[i], ports[i], ipaddress.ip_address('10.0.0.0'), ipaddress.ip_address('10.0.0.255')) for i in range(n)]
        p = m.PayloadTSi(list(tss)); t = 44
        body = bytes([n, 0, 0, 0])
        for i in range(n):
            body = body + b'\x07\x06\x00\x10' + _be(ports[i], 2) + _be(ports[i], 2) + bytes([10, 0, 0, 0, 10, 0, 0, 255])
        same = lambda q: core.sym_and(len(q.traffic_selectors) == n, *[q.traffic_selectors[i] == tss[i] for i in range(min(n, len(q.traffic_selectors)))])
    elif kind == 'DELETE3':
        pr, s1, s2, s3 = I('proto', 0, 3), S('spi1', 4), S('spi2', 4), S('spi3', 4)
        p = m.PayloadDELETE(pr, [s1, s2, s3]); body = _be(pr, 1) + b'\x04\x00\x03' + s1 + s2 + s3; t = 42
        same = lambda q: core.sym_and(q.protocol_id == pr, len(q.spis) == 3 and q.spis[0] == s1, len(q.spis) == 3 and q.spis[2] == s3)
    msg = m.Message(spi_i, spi_r, major, minor, exch, resp, hv, init, mid, [p], [])
    data = msg.to_bytes()
    flags = core.sym_ite_int(resp, 0x20, 0) + core.sym_ite_int(hv, 0x10, 0) + core.sym_ite_int(init, 0x08, 0)
    ref = _ref_message(spi_i, spi_r, t, major, minor, exch, flags, mid, [(t, body)])
    ok = eng.prove(len(data) == len(ref) and data == ref, f'{kind}: to_bytes differs from the RFC 7296 section 3 layout')
    back = m.Message.parse(data)
    ok &= eng.prove(core.sym_and(back.spi_i == spi_i, back.spi_r == spi_r, back.major == major, back.minor == minor,
                                 back.exchange_type == exch, back.message_id == mid, back.is_response == resp,
                                 back.can_use_higher_version == hv, back.is_initiator == init, len(back.payloads) == 1),
                    f'{kind}: header does not round-trip')
    if len(back.payloads) == 1:
        ok &= eng.prove(back.payloads[0].type == t and same(back.payloads[0]), f'{kind}: payload content does not round-trip')
    bad = dump_shows_everything(eng, back, kind)
    if bad:
        return {'class': ['encoded', kind], 'violation': bad}
    return ['encoded', kind, bool(ok)]


LAST_DUMP = []


def dump_shows_everything(eng, msg, kind):
    """the structured dump that goes to the log (Message.to_dict): it names the payload and SHOWS every decoded field - every input variable that
    is still free on this path (not fixed by a branch) occurs in the term of some value printed in the dump"""
    import re
    import z3
    from symx import core
    if isinstance(eng, core.ReplayEngine):
        # native form of the oracle (see replay_file): the dump text is kept; two runs that differ in one field must give different text
        try:
            LAST_DUMP.append(repr(msg.to_dict()))
        except Exception as ex:      # noqa
            return f'{kind}: to_dict() raised {type(ex).__name__}: {ex}'
        return None
    try:
        text = repr(msg.to_dict())
    except Exception as ex:      # noqa
        return f'{kind}: to_dict() raised {type(ex).__name__}: {ex}'
    if msg.payloads and msg.payloads[0].type.name not in text:
        return f'{kind}: the dump does not name the payload {msg.payloads[0].type.name}'
    shown = {}
    for tid in set(int(x) for x in re.findall('\u27e6(\\d+)\u27e7', text)):
        term = core.TOKENS.get(tid)
        if term is not None:
            stack, seen = [term], set()
            while stack:
                x = stack.pop()
                if x.get_id() in seen:
                    continue
                seen.add(x.get_id())
                if z3.is_const(x) and x.decl().kind() == z3.Z3_OP_UNINTERPRETED:
                    shown[x.decl().name()] = True
                else:
                    stack.extend(x.children())
    missing = []
    for name, t in eng.inputs.items():
        if name in ('resp', 'hv', 'init', 'major', 'minor', 'exch', 'ntype', 'idtype', 'method', 'proto', 'pid', 'dh', 'num'):
            continue        # rendered through enum names / booleans (decided by branches or by the enum model)
        terms = t if isinstance(t, list) else [t]
        for x in terms:
            if z3.is_bv_value(x) or z3.is_true(x) or z3.is_false(x) or x.decl().name() in shown:
                continue
            if eng.unique_value(core._mk_int(x)) is not None:
                continue    # fixed on this path: printed as a constant
            missing.append(x.decl().name())
    if missing:
        return f'{kind}: the structured dump does not show the decoded field(s) {sorted(set(n.split("[")[0] for n in missing))[:6]}'
    return None


def _ref_chain(eng, d, n):
    """reference walk of the payload chain of an n-byte datagram (the path condition of an accepting path fixes type and length fields)"""
    from symx import core
    off = 28
    if n < 28:
        return 'shorter than the header'
    t = d[16]
    for _ in range(n):
        if bool(t == 0):
            break
        if off + 4 > n:
            return f'generic payload header at {off} runs past the end'
        nxt = d[off]
        length = (d[off + 2] << 8) | d[off + 3]
        if bool(length < 4):
            return f'payload length below 4 at {off}'
        if bool(length > n - off):
            return f'payload at {off} runs past the end'
        L = eng.concretize(length, 4, n - off) if not isinstance(length, int) else length
        if bool(t == 46):
            nxt = 0       # the Encrypted payload is the last one; its Next Payload names the first inner payload
        off += L
        t = nxt
    return 'exact' if off == n else f'chain ends at {off} of {n}'


def h_idem(n, first_type):
    from symx import core
    import z3
    eng = core.engine()
    m = MODS['message']
    d = eng.sym_bytes('d', n)
    if n > 16 and first_type is not None:
        b = d.items[16]
        if first_type == 'other':
            known = [int(k) for k in m.Message.type_2_payload] + [0]
            eng.assume(core.SymBool(z3.And(*[b != k for k in known])))
        else:
            eng.assume(core.SymBool(b == first_type))
    try:
        msg = m.Message.parse(d)
    except m.IkeSaError as ex:
        # datagrams whose chain does not end exactly at the end of the data must be among the rejected ones
        return ['rejected']
    # independent walk of the generic payload chain (RFC 7296 3.2): it must end exactly at the end of the datagram
    verdict = _ref_chain(eng, d, n)
    if verdict != 'exact':
        return {'class': ['accepted'], 'violation': f'a datagram was accepted although its payload chain does not end exactly at the end of the data ({verdict})'}
    try:
        b2 = msg.to_bytes()
        m2 = m.Message.parse(b2)
        b3 = m2.to_bytes()
    except Exception as ex:
        return {'class': ['accepted'], 'violation': f'accepted buffer cannot be re-serialised/re-parsed: {type(ex).__name__}: {ex}'}
    ok = eng.prove(len(b3) == len(b2) and b3 == b2, 'serialise-after-parse is not idempotent')
    ok &= eng.prove(core.sym_and(b2[0:16] == d[0:16], b2[18] == d[18], b2[20:24] == d[20:24], b2[17] == d[17],
                                 b2[19] == (d[19] & 0x38)), 'header fields changed by parse+serialise')
    return ['accepted', len(msg.payloads), bool(ok)]


def h_critical(first):
    """one generic payload of type `first` (a known type, or every type without a class) with an ARBITRARY C|RESERVED octet: the seven reserved
    bits are ignored on receipt (RFC 7296 3.2), an unknown payload is skipped unless bit 7 is set, a known one carries critical == bit 7"""
    from symx import core
    import z3
    eng = core.engine()
    m = MODS['message']
    hdr = eng.sym_bytes('spis', 16) + eng.sym_bytes('first_payload', 1) + b'\x20\x25\x08' + eng.sym_bytes('mid', 4) + (40).to_bytes(4, 'big')
    octet = eng.sym_int('c_reserved', 0, 255)
    body = eng.sym_bytes('body', 8)
    d = core.SymBytes.lift(hdr) + b'\0' + core.SymBytes([core.int_to_byte(octet)]) + b'\0\x0c' + body
    t = d.items[16]
    known = [int(k) for k in m.Message.type_2_payload]
    if first == 'other':
        eng.assume(core.SymBool(z3.And(*[t != k for k in known + [0]])))
    else:
        eng.assume(core.SymBool(t == first))
    crit = (octet & 0x80) != 0
    try:
        msg = m.Message.parse(d)
    except m.UnsupportedCriticalPayload:
        if first != 'other':
            return {'class': ['critical'], 'violation': f'payload of the known type {first} rejected as an unsupported critical payload'}
        eng.prove(crit, 'an unknown payload whose Critical bit (bit 7) is CLEAR was rejected as critical: reserved bits were not ignored')
        return ['critical', 'rejected-critical']
    except m.IkeSaError:
        return ['critical', 'rejected']
    if first == 'other':
        eng.prove(core.sym_not(crit), 'an unknown payload with the Critical bit set was accepted')
        if msg.payloads:
            return {'class': ['critical'], 'violation': 'an unknown payload produced a payload object'}
        return ['critical', 'skipped']
    if len(msg.payloads) != 1:
        return {'class': ['critical'], 'violation': f'{len(msg.payloads)} payload objects for one payload'}
    c = msg.payloads[0].critical
    eng.prove(crit if bool(c) else core.sym_not(crit), 'the critical attribute of a parsed payload is not bit 7 of the C|RESERVED octet')
    b2 = msg.to_bytes()
    # senders MUST clear the Critical bit of every payload type RFC 7296 defines (3.2): the re-serialised octet is not required to echo it
    eng.prove((b2[29] & 0x7f) == 0, 're-serialised C|RESERVED octet has reserved bits set')
    return ['critical', 'parsed']


def h_clear_then_sk(n_clear, with_inner):
    """clear payloads FOLLOWED by an Encrypted payload (RFC 7296 3.14: SK is the last payload): serialise, parse with and without the keys"""
    from symx import core
    eng = core.engine()
    m, c = MODS['message'], MODS['crypto']
    T = m.Transform
    crypto = c.Crypto(c.Cipher(T(T.Type.ENCR, T.EncrId.ENCR_AES_CBC, 256)), eng.sym_bytes('sk_e', 32), c.Integrity(T(T.Type.INTEG, T.IntegId.AUTH_HMAC_SHA2_256_128)),
                      eng.sym_bytes('sk_a', 32), c.Prf(T(T.Type.PRF, T.PrfId.PRF_HMAC_SHA2_256)), b'p' * 32)
    clear = [m.PayloadVENDOR(eng.sym_bytes(f'vendor{i}', 4)) for i in range(n_clear)]
    inner = [m.PayloadNONCE(eng.sym_bytes('nonce', 16))] if with_inner else []
    msg = m.Message(eng.sym_bytes('spi_i', 8), eng.sym_bytes('spi_r', 8), 2, 0, m.Message.Exchange.INFORMATIONAL, False, False, True,
                    eng.sym_int('mid', 0, 0xFFFFFFFF), list(clear), list(inner), crypto=crypto, iv=eng.sym_bytes('iv', 16))
    try:
        data = msg.to_bytes()
        if len(msg.payloads) != n_clear:
            return {'class': ['clear+sk'], 'violation': 'to_bytes() changed the list of clear payloads of the message object'}
        want_first = 43 if n_clear else 46
        if not bool(data[16] == want_first):
            return {'class': ['clear+sk'], 'violation': f'header Next Payload is {data[16]}, the first payload has type {want_first}'}
        back = m.Message.parse(data, crypto=crypto)
        blind = m.Message.parse(data)
    except Exception as ex:     # noqa
        return {'class': ['clear+sk'], 'violation': f'a message with {n_clear} clear payload(s) before the Encrypted payload cannot be serialised/parsed: '
                                                    f'{type(ex).__name__}: {ex}'}
    P = eng.prove
    # with the keys the Encrypted payload is consumed, without them it stays as the last payload object
    if len(back.payloads) != n_clear or len(back.encrypted_payloads) != len(inner) or len(blind.payloads) != n_clear + 1:
        return {'class': ['clear+sk'], 'violation': f'round trip changed the number of payloads ({len(back.payloads)} clear, {len(back.encrypted_payloads)} inner; '
                                                    f'{len(blind.payloads)} without keys)'}
    for i in range(n_clear):
        P(core.SymBytes.lift(back.payloads[i].vendor_id) == clear[i].vendor_id, 'round trip changed a clear payload')
    if not bool(blind.payloads[-1].type == 46) or not back.is_protected:
        return {'class': ['clear+sk'], 'violation': 'the last payload is not taken for the Encrypted payload'}
    if inner:
        P(core.SymBytes.lift(back.encrypted_payloads[0].nonce) == inner[0].nonce, 'round trip changed the encrypted payload')
    return ['clear+sk', n_clear, with_inner]


def h_unknown(position):
    """a payload of a type the library has no class for, with an ARBITRARY C|RESERVED octet, NOT in first position: after a clear payload, as the first
    payload inside a correctly protected Encrypted payload, or after another payload in there.  Critical bit set: the message is rejected AS an
    unsupported critical payload (so that the peer is told UNSUPPORTED_CRITICAL_PAYLOAD) and the exception can be rendered; clear: it is skipped"""
    from symx import core
    import z3
    eng = core.engine()
    m, c = MODS['message'], MODS['crypto']
    T = m.Transform
    t = eng.sym_int('unknown_type', 1, 255)
    known = [int(k) for k in m.Message.type_2_payload]
    eng.assume(core.sym_and(*[t != k for k in known]))
    octet = eng.sym_int('c_reserved', 0, 255)
    body = eng.sym_bytes('body', 4)
    B = lambda v: core.SymBytes([core.int_to_byte(v)]) if not isinstance(v, int) else bytes([v])
    unknown = b'\0' + B(octet) + b'\0\x08' + body               # generic header (next = NONE) + 4 octets
    nonce = eng.sym_bytes('nonce', 16)
    nonce_pl = lambda nxt: B(nxt) + b'\0\0\x14' + nonce
    spis, mid = eng.sym_bytes('spis', 16), eng.sym_bytes('mid', 4)
    crypto = None
    L = core.SymBytes.lift
    if position == 'clear_second':
        chain = L(nonce_pl(t)) + unknown
        d = L(spis) + b'\x28\x20\x22\x08' + mid + (28 + len(chain)).to_bytes(4, 'big') + chain
        want_nonce = True
    else:
        crypto = c.Crypto(c.Cipher(T(T.Type.ENCR, T.EncrId.ENCR_AES_CBC, 256)), eng.sym_bytes('sk_e', 32), c.Integrity(T(T.Type.INTEG, T.IntegId.AUTH_HMAC_SHA2_256_128)),
                          eng.sym_bytes('sk_a', 32), c.Prf(T(T.Type.PRF, T.PrfId.PRF_HMAC_SHA2_256)), b'p' * 32)
        if position == 'inner_first':
            first_inner, chain, want_nonce = t, L(unknown), False
        else:
            first_inner, chain, want_nonce = 40, L(nonce_pl(t)) + unknown, True
        pad = (-(len(chain) + 1)) % 16
        plain = chain + bytes(pad) + bytes([pad])
        iv = eng.sym_bytes('iv', 16)
        plain = plain.lower() if isinstance(plain, core.SymBytes) else plain
        ct = crypto.cipher.encrypt(crypto.sk_e, iv, plain)
        hs = crypto.integrity.hash_size
        sk_len = 4 + 16 + len(ct) + hs
        d = L(spis) + b'\x2e\x20\x25\x08' + mid + (28 + sk_len).to_bytes(4, 'big') + B(first_inner) + b'\0' + sk_len.to_bytes(2, 'big') + iv + ct
        d = d + crypto.integrity.compute(crypto.sk_a, d.lower() if isinstance(d, core.SymBytes) else d)
    crit = (octet & 0x80) != 0
    d = d.lower() if isinstance(d, core.SymBytes) else d
    try:
        msg = m.Message.parse(d, crypto=crypto)
    except m.UnsupportedCriticalPayload as ex:
        eng.prove(crit, f'{position}: an unknown payload whose Critical bit is CLEAR was rejected as critical')
        try:
            text = f'{ex}'
            note = m.PayloadNOTIFY.from_exception(ex)
        except Exception as ex2:     # noqa
            return {'class': ['unknown', position], 'violation': f'{position}: the rejection of an unknown critical payload cannot be rendered / turned into a '
                                                                 f'notification: {type(ex2).__name__}: {ex2}'}
        if int(note.notification_type) != int(m.PayloadNOTIFY.Type.UNSUPPORTED_CRITICAL_PAYLOAD):
            return {'class': ['unknown', position], 'violation': f'{position}: notification {int(note.notification_type)} instead of UNSUPPORTED_CRITICAL_PAYLOAD'}
        return ['unknown', position, 'rejected-critical']
    except m.IkeSaError as ex:
        if bool(crit):
            return {'class': ['unknown', position], 'violation': f'{position}: an unknown payload with the Critical bit set was rejected, but not AS an unsupported '
                                                                 f'critical payload ({type(ex).__name__}): the peer is not told UNSUPPORTED_CRITICAL_PAYLOAD'}
        return {'class': ['unknown', position], 'violation': f'{position}: a message with an unknown NON-critical payload was rejected: {type(ex).__name__}: {ex}'}
    except Exception as ex:     # noqa
        return {'class': ['unknown', position], 'violation': f'{position}: {type(ex).__name__} escaped from Message.parse: {ex}'}
    eng.prove(core.sym_not(crit), f'{position}: an unknown payload with the Critical bit set was accepted')
    got = msg.encrypted_payloads if crypto is not None else msg.payloads
    if len(got) != (1 if want_nonce else 0):
        return {'class': ['unknown', position], 'violation': f'{position}: {len(got)} payload objects (the unknown payload must be skipped, the others kept)'}
    if want_nonce:
        eng.prove(L(got[0].nonce) == nonce, f'{position}: the payload before the skipped one was altered')
    return ['unknown', position, 'skipped']


def h_nonce_len(where):
    """the Nonce payload at the limits of its size (RFC 7296 3.9: 16 to 256 octets, inclusive): a datagram written by the independent encoder
    with a nonce of EVERY length 0..300 (the length is a solver-driven case split, the octets are solver variables); every length the RFC allows
    parses, yields the same octets and serialises back to the same datagram, and the payload class accepts exactly the lengths the parser does"""
    from symx import core
    eng = core.engine()
    m = MODS['message']
    n = eng.sym_int('nonce_len', 0, 300)
    k = eng.concretize(n, 0, 300) if not isinstance(n, int) else n
    octets = eng.sym_bytes('nonce', 300)[:k]
    body = core.SymBytes.lift(b'\0\0') + core.SymBytes.lift(_be(4 + k, 2)) + octets
    hdr = eng.sym_bytes('spis', 16) + bytes([40]) + b'\x20' + bytes([34 if where == 'init' else 37]) + b'\x08' + eng.sym_bytes('mid', 4) + _be(28 + 4 + k, 4)
    d = core.SymBytes.lift(hdr) + body
    legal = 16 <= k <= 256
    try:
        msg = m.Message.parse(d)
    except m.IkeSaError as ex:
        if legal:
            return {'class': ['nonce_len'], 'violation': f'a datagram with a Nonce payload of {k} octets (RFC 7296 3.9 allows 16..256) is rejected: {type(ex).__name__}: {ex}'}
        parsed = False
    else:
        parsed = True
        if len(msg.payloads) != 1 or msg.payloads[0].type != m.Payload.Type.NONCE:
            return {'class': ['nonce_len'], 'violation': 'the Nonce payload was not decoded as one'}
        got = msg.payloads[0].nonce
        eng.prove(core.SymBytes.lift(got) == octets, f'the decoded nonce of {k} octets is not the nonce on the wire')
        b2 = msg.to_bytes()
        eng.prove(core.SymBytes.lift(b2) == d, f'serialise-after-parse changes a datagram with a Nonce payload of {k} octets')
    try:
        m.PayloadNONCE(bytes(k))
        built = True
    except m.IkeSaError:
        built = False
    if built != parsed:
        return {'class': ['nonce_len'], 'violation': f'a nonce of {k} octets is ' + ('accepted by the payload class but rejected by the parser' if built else
                                                                                     'accepted by the parser but cannot be expressed with the payload class')}
    return ['nonce_len', 'accepted' if parsed else 'rejected']


def build_instances(tier):
    inst = []
    for ft in sorted(int(k) for k in MODS['message'].Message.type_2_payload if int(k) != 46) + ['other']:
        inst.append(Instance(f'critical/reserved octet first={ft}', h_critical, (ft,)))
    for pos in ('clear_second', 'inner_first', 'inner_second'):
        inst.append(Instance(f'unknown payload {pos}', h_unknown, (pos,), native=common.native_of(h_unknown),
                             must_reach=[('skipped', lambda o: o[-1] == 'skipped'), ('rejected', lambda o: o[-1] == 'rejected-critical')]))
    for n_clear in (0, 1, 2):
        for wi in (True, False):
            inst.append(Instance(f'clear payloads then SK n={n_clear} inner={wi}', h_clear_then_sk, (n_clear, wi),
                                 must_reach=[('round trip', lambda o: o[0] == 'clear+sk')]))
    for k in ('KE', 'NOTIFY', 'NOTIFY0', 'DELETE', 'DELETE3', 'NONCE', 'ID', 'AUTH', 'VENDOR', 'TS', 'TS6', 'SA', 'SA3', 'DELETEx17', 'DELETEx70', 'TSx20') + \
            (() if tier == 'quick' else ('DELETEx33', 'DELETEx255', 'TSx64')):
        inst.append(Instance(f'encode {k}', h_encode, (k,), must_reach=[('encoded', lambda o: o[0] == 'encoded')]))
    for where in ('init', 'informational'):
        inst.append(Instance(f'Nonce payload of every length 0..300 ({where})', h_nonce_len, (where,), engine_kw={'max_ticks': 10 ** 7},
                             must_reach=[('accepted', lambda o: o == ['nonce_len', 'accepted']), ('rejected', lambda o: o == ['nonce_len', 'rejected'])]))
    known = sorted(int(k) for k in MODS['message'].Message.type_2_payload)
    for n in {'quick': (28, 31), 'thorough': (28, 29, 30, 31)}[tier]:
        inst.append(Instance(f'idempotence n={n}', h_idem, (n, None)))
    for n in (32,):
        for ft in known + [0, 'other']:
            inst.append(Instance(f'idempotence n={n} first={ft}', h_idem, (n, ft), engine_kw={'max_ticks': 4000}))
    return inst


def _load_native():
    global MODS
    MODS = common.load_repo(shim=False)


def replay_file(path):
    """concrete re-run of the same harness function (reference encoder / chain walker included) against the unshimmed modules"""
    v = json.load(open(path))
    if 'structured dump does not show' in v.get('label', ''):
        # native form: flip every bit of the named field(s); if the dump text does not change, the field is not shown
        import re
        _load_native()
        inst = [i for i in build_instances('thorough') if i.name == v['instance']][0]
        fields = re.findall(r"'([A-Za-z0-9_.]+?)(?:!\d+)?'", v['label'].split('field(s)')[1])
        del LAST_DUMP[:]
        common.rerun_concrete(inst.fn, v['inputs'], inst.args)
        base = LAST_DUMP[-1] if LAST_DUMP else None
        for f in fields:
            name = f if f in v['inputs'] else max((k for k in v['inputs'] if f.startswith(k)), key=len, default=None)
            if name is None or base is None:
                continue
            alt = dict(v['inputs'])
            val = alt[name]
            alt[name] = ''.join('%02x' % (b ^ 0xFF) for b in bytes.fromhex(val)) if isinstance(val, str) else (val ^ 0xFF)
            del LAST_DUMP[:]
            common.rerun_concrete(inst.fn, alt, inst.args)
            if LAST_DUMP and LAST_DUMP[-1] == base:
                print(f'native: changing {name} does not change the dump')
                return 1
        return 0
    return common.generic_replay_file(path, lambda: build_instances('thorough') + build_instances('quick'), _load_native)


def main(tier, seed):
    global MODS
    MODS = common.load_repo()
    c06.MODS = MODS
    m = MODS['message']
    chk = Check('C05', tier, seed,
                functions=common.src_hash(m.Message.to_bytes, m.Message.parse, m.Message._payloads_to_bytes, m.Message._parse_payloads,
                                          m.PayloadKE, m.PayloadNOTIFY, m.PayloadDELETE, m.PayloadID, m.PayloadAUTH, m.PayloadTS,
                                          m.TrafficSelector.to_bytes, m.TrafficSelector.parse, m.Proposal.to_bytes, m.Proposal.parse,
                                          m.Transform.to_bytes, m.Transform.parse, m.PayloadSA.to_bytes, m.PayloadSA.parse),
                bounds={'encoder': 'one message with one payload of each class (KE, NOTIFY with/without SPI, DELETE with 2 SPIs, NONCE, ID, '
                                   'AUTH, VENDOR, TS IPv4, SA with one proposal of two transforms), every header field and every payload '
                                   'field symbolic (data fields of the fixed small lengths in the harness)',
                        'idempotence': 'every byte string of length 28, 31, 32 (thorough: also 29, 30)',
                        'outside': 'payload combinations/longer chains (structure enumerated by the parser harness C06 only for '
                                   'termination/exceptions), IPv6 selectors, payloads inside SK (C07), the structured dump to_dict (string '
                                   'rendering of symbolic data is not modelled)'},
                assumptions=['struct/bytes/enum models as in C06 (validated per path there)'],
                stubs=['message.pack/pack_into/unpack_from', 'enum.EnumType.__call__', 'SymDict lookups', 'message.ip_address'])
    chk.run(build_instances(tier))
    return chk.finish(replay=lambda v: common.native_replay_subprocess('C05', v))
