"""C05 - wire encoding matches RFC 7296 section 3 and round-trips.
(1) every field symbolic: Message.to_bytes of one payload of each class equals an independent section-3 encoder and parses
back to the same content; (2) every byte symbolic: on every buffer the parser accepts, serialise-after-parse is idempotent."""
import json

from . import common
from .common import Instance, Check
from . import c06

MODS = None


def _be(v, n):
    from symx import core
    return v.to_bytes(n, 'big') if isinstance(v, (int, core.SymInt)) else v


def _ref_message(spi_i, spi_r, first, major, minor, exch, flags, mid, chain):
    """independent encoder: chain = [(type, body bytes)]"""
    from symx import core
    out = core.SymBytes([])
    for i, (t, body) in enumerate(chain):
        nxt = chain[i + 1][0] if i + 1 < len(chain) else 0
        out = out + _be(nxt, 1) + b'\0' + (len(body) + 4).to_bytes(2, 'big') + body
    total = 28 + len(out)
    ver = major * 16 + minor
    return core.SymBytes([]) + spi_i + spi_r + _be(first, 1) + _be(ver, 1) + _be(exch, 1) + _be(flags, 1) + _be(mid, 4) + \
        total.to_bytes(4, 'big') + out


def h_encode(kind):
    from symx import core
    eng = core.engine()
    m = MODS['message']
    S, I = eng.sym_bytes, eng.sym_int
    spi_i, spi_r = S('spi_i', 8), S('spi_r', 8)
    major, minor = I('major', 0, 15), I('minor', 0, 15)
    mid = I('mid', 0, 0xFFFFFFFF)
    resp, hv, init = eng.sym_bool('resp'), eng.sym_bool('hv'), eng.sym_bool('init')
    exch = I('exch', 34, 37)
    if kind == 'KE':
        g, d = I('group', 0, 65535), S('ke', 5)
        p = m.PayloadKE(g, d); body = _be(g, 2) + b'\0\0' + d; t = 34
        same = lambda q: core.sym_and(q.dh_group == g, q.ke_data == d)
    elif kind == 'NOTIFY':
        pr, nt, spi, d = I('proto', 0, 3), I('ntype', 0, 65535), S('spi', 4), S('data', 3)
        p = m.PayloadNOTIFY(pr, nt, spi, d); body = _be(pr, 1) + b'\x04' + _be(nt, 2) + spi + d; t = 41
        same = lambda q: core.sym_and(q.protocol_id == pr, q.notification_type == nt, q.spi == spi, q.notification_data == d)
    elif kind == 'NOTIFY0':
        pr, nt, d = I('proto', 0, 3), I('ntype', 16384, 16395), S('data', 2)
        p = m.PayloadNOTIFY(pr, nt, b'', d); body = _be(pr, 1) + b'\x00' + _be(nt, 2) + d; t = 41
        same = lambda q: core.sym_and(q.protocol_id == pr, q.notification_type == nt, q.spi == b'', q.notification_data == d)
    elif kind == 'DELETE':
        pr, s1, s2 = I('proto', 0, 3), S('spi1', 4), S('spi2', 4)
        p = m.PayloadDELETE(pr, [s1, s2]); body = _be(pr, 1) + b'\x04\x00\x02' + s1 + s2; t = 42
        same = lambda q: core.sym_and(q.protocol_id == pr, len(q.spis) == 2 and q.spis[0] == s1, len(q.spis) == 2 and q.spis[1] == s2)
    elif kind == 'NONCE':
        d = S('nonce', 16)
        p = m.PayloadNONCE(d); body = d; t = 40
        same = lambda q: q.nonce == d
    elif kind == 'ID':
        it, d = I('idtype', 0, 255), S('id', 4)
        p = m.PayloadIDi(it, d); body = _be(it, 1) + b'\0\0\0' + d; t = 35
        same = lambda q: core.sym_and(q.id_type == it, q.id_data == d)
    elif kind == 'AUTH':
        me, d = I('method', 0, 255), S('auth', 3)
        p = m.PayloadAUTH(me, d); body = _be(me, 1) + b'\0\0\0' + d; t = 39
        same = lambda q: core.sym_and(q.method == me, q.auth_data == d)
    elif kind == 'VENDOR':
        d = S('vid', 3)
        p = m.PayloadVENDOR(d); body = d; t = 43
        same = lambda q: q.vendor_id == d
    elif kind == 'TS':
        from symx import shims
        import ipaddress
        pr, sp, ep = I('proto', 0, 255), I('sp', 0, 65535), I('ep', 0, 65535)
        sa, ea = I('sa', 0, 0xFFFFFFFF), I('ea', 0, 0xFFFFFFFF)
        ts = m.TrafficSelector(7, pr, sp, ep, shims._mk_addr(ipaddress.IPv4Address, sa), shims._mk_addr(ipaddress.IPv4Address, ea))
        p = m.PayloadTSi([ts]); t = 44
        body = b'\x01\0\0\0' + b'\x07' + _be(pr, 1) + b'\x00\x10' + _be(sp, 2) + _be(ep, 2) + _be(sa, 4) + _be(ea, 4)
        same = lambda q: core.sym_and(len(q.traffic_selectors) == 1, q.traffic_selectors[0] == ts)
    elif kind == 'SA':
        T = m.Transform
        pn, pid, spi = I('num', 0, 255), I('pid', 0, 3), S('spi', 4)
        t1 = T(T.Type.ENCR, T.EncrId.ENCR_AES_CBC, I('keylen', 1, 65535))
        t2 = T(T.Type.DH, I('dh', 14, 21))
        p = m.PayloadSA([m.Proposal(pn, pid, spi, [t1, t2])]); t = 33
        tr1 = b'\x03\x00\x00\x0c' + b'\x01\x00\x00\x0c' + b'\x80\x0e' + _be(t1.keylen, 2)
        tr2 = b'\x00\x00\x00\x08' + b'\x04\x00' + _be(t2.id, 2)
        prop = _be(pn, 1) + _be(pid, 1) + b'\x04\x02' + spi + tr1 + tr2
        body = b'\x00\x00' + (len(prop) + 4).to_bytes(2, 'big') + prop
        same = lambda q: core.sym_and(len(q.proposals) == 1, q.proposals[0].num == pn, q.proposals[0].protocol_id == pid,
                                      q.proposals[0].spi == spi, len(q.proposals[0].transforms) == 2,
                                      q.proposals[0].transforms[0].keylen == t1.keylen, q.proposals[0].transforms[0].id == 12,
                                      q.proposals[0].transforms[1].type == 4, q.proposals[0].transforms[1].id == t2.id)
    msg = m.Message(spi_i, spi_r, major, minor, exch, resp, hv, init, mid, [p], [])
    data = msg.to_bytes()
    flags = core.sym_ite_int(resp, 0x20, 0) + core.sym_ite_int(hv, 0x10, 0) + core.sym_ite_int(init, 0x08, 0)
    ref = _ref_message(spi_i, spi_r, t, major, minor, exch, flags, mid, [(t, body)])
    ok = eng.prove(len(data) == len(ref) and data == ref, f'{kind}: to_bytes differs from the RFC 7296 section 3 layout')
    back = m.Message.parse(data)
    ok &= eng.prove(core.sym_and(back.spi_i == spi_i, back.spi_r == spi_r, back.major == major, back.minor == minor,
                                 back.exchange_type == exch, back.message_id == mid, back.is_response == resp,
                                 back.can_use_higher_version == hv, back.is_initiator == init, len(back.payloads) == 1),
                    f'{kind}: header does not round-trip')
    if len(back.payloads) == 1:
        ok &= eng.prove(back.payloads[0].type == t and same(back.payloads[0]), f'{kind}: payload content does not round-trip')
    return ['encoded', kind, bool(ok)]


def h_idem(n, first_type):
    from symx import core
    import z3
    eng = core.engine()
    m = MODS['message']
    d = eng.sym_bytes('d', n)
    if n > 16 and first_type is not None:
        b = d.items[16]
        if first_type == 'other':
            known = [int(k) for k in m.Message.type_2_payload] + [0]
            eng.assume(core.SymBool(z3.And(*[b != k for k in known])))
        else:
            eng.assume(core.SymBool(b == first_type))
    try:
        msg = m.Message.parse(d)
    except m.IkeSaError as ex:
        # datagrams whose chain does not end exactly at the end of the data must be among the rejected ones
        return ['rejected']
    try:
        b2 = msg.to_bytes()
        m2 = m.Message.parse(b2)
        b3 = m2.to_bytes()
    except Exception as ex:
        return {'class': ['accepted'], 'violation': f'accepted buffer cannot be re-serialised/re-parsed: {type(ex).__name__}: {ex}'}
    ok = eng.prove(len(b3) == len(b2) and b3 == b2, 'serialise-after-parse is not idempotent')
    ok &= eng.prove(core.sym_and(b2[0:16] == d[0:16], b2[18] == d[18], b2[20:24] == d[20:24], b2[17] == d[17],
                                 b2[19] == (d[19] & 0x38)), 'header fields changed by parse+serialise')
    return ['accepted', len(msg.payloads), bool(ok)]


def build_instances(tier):
    inst = []
    for k in ('KE', 'NOTIFY', 'NOTIFY0', 'DELETE', 'NONCE', 'ID', 'AUTH', 'VENDOR', 'TS', 'SA'):
        inst.append(Instance(f'encode {k}', h_encode, (k,), must_reach=[('encoded', lambda o: o[0] == 'encoded')]))
    known = sorted(int(k) for k in MODS['message'].Message.type_2_payload)
    for n in {'quick': (28, 31), 'thorough': (28, 29, 30, 31)}[tier]:
        inst.append(Instance(f'idempotence n={n}', h_idem, (n, None)))
    for n in (32,):
        for ft in known + [0, 'other']:
            inst.append(Instance(f'idempotence n={n} first={ft}', h_idem, (n, ft), engine_kw={'max_ticks': 4000}))
    return inst


def replay_file(path):
    global MODS
    MODS = common.load_repo(shim=False)
    m = MODS['message']
    v = json.load(open(path))
    name, inp = v['instance'], v['inputs']
    if name.startswith('idempotence'):
        d = bytes.fromhex(inp['d'])
        try:
            msg = m.Message.parse(d)
        except m.IkeSaError:
            return 0
        try:
            b2 = bytes(msg.to_bytes()); b3 = bytes(m.Message.parse(b2).to_bytes())
        except Exception as ex:
            print('native:', type(ex).__name__, ex); return 1
        print('native: b2 == b3:', b2 == b3)
        hdr_ok = b2[0:16] == d[0:16] and b2[17:19] == d[17:19] and b2[20:24] == d[20:24] and b2[19] == d[19] & 0x38
        return 0 if (b2 == b3 and hdr_ok) else 1
    # encoder differential on the concrete witness (independent encoder below is written against RFC 7296 figures)
    import struct
    kind = name.split()[1]
    g = lambda k, d=0: inp.get(k, d)
    hx = lambda k: bytes.fromhex(inp[k])
    if kind == 'KE':
        p = m.PayloadKE(g('group'), hx('ke')); t = 34; body = struct.pack('>HH', g('group'), 0) + hx('ke')
    elif kind in ('NOTIFY', 'NOTIFY0'):
        spi = hx('spi') if kind == 'NOTIFY' else b''
        p = m.PayloadNOTIFY(g('proto'), g('ntype'), spi, hx('data')); t = 41
        body = struct.pack('>BBH', g('proto'), len(spi), g('ntype')) + spi + hx('data')
    elif kind == 'DELETE':
        p = m.PayloadDELETE(g('proto'), [hx('spi1'), hx('spi2')]); t = 42; body = struct.pack('>BBH', g('proto'), 4, 2) + hx('spi1') + hx('spi2')
    elif kind == 'NONCE':
        p = m.PayloadNONCE(hx('nonce')); t = 40; body = hx('nonce')
    elif kind == 'ID':
        p = m.PayloadIDi(g('idtype'), hx('id')); t = 35; body = bytes([g('idtype'), 0, 0, 0]) + hx('id')
    elif kind == 'AUTH':
        p = m.PayloadAUTH(g('method'), hx('auth')); t = 39; body = bytes([g('method'), 0, 0, 0]) + hx('auth')
    elif kind == 'VENDOR':
        p = m.PayloadVENDOR(hx('vid')); t = 43; body = hx('vid')
    elif kind == 'TS':
        import ipaddress
        ts = m.TrafficSelector(7, g('proto'), g('sp'), g('ep'), ipaddress.IPv4Address(g('sa')), ipaddress.IPv4Address(g('ea')))
        p = m.PayloadTSi([ts]); t = 44
        body = bytes([1, 0, 0, 0, 7, g('proto'), 0, 16]) + struct.pack('>HHLL', g('sp'), g('ep'), g('sa'), g('ea'))
    else:
        T = m.Transform
        p = m.PayloadSA([m.Proposal(g('num'), g('pid'), hx('spi'), [T(1, 12, g('keylen')), T(4, g('dh'))])]); t = 33
        prop = bytes([g('num'), g('pid'), 4, 2]) + hx('spi') + bytes([3, 0, 0, 12, 1, 0, 0, 12, 0x80, 14]) + struct.pack('>H', g('keylen')) + \
            bytes([0, 0, 0, 8, 4, 0]) + struct.pack('>H', g('dh'))
        body = bytes([0, 0]) + struct.pack('>H', len(prop) + 4) + prop
    msg = m.Message(hx('spi_i'), hx('spi_r'), g('major'), g('minor'), g('exch'), g('resp'), g('hv'), g('init'), g('mid'), [p], [])
    data = bytes(msg.to_bytes())
    flags = (0x20 if g('resp') else 0) | (0x10 if g('hv') else 0) | (0x08 if g('init') else 0)
    ref = hx('spi_i') + hx('spi_r') + bytes([t, g('major') << 4 | g('minor'), g('exch'), flags]) + struct.pack('>LL', g('mid'), 32 + len(body)) + \
        bytes([0, 0]) + struct.pack('>H', len(body) + 4) + body
    print('native: to_bytes == reference:', data == ref)
    if data != ref:
        return 1
    back = m.Message.parse(data)
    return 0 if bytes(back.to_bytes()) == data and back.message_id == g('mid') else 1


def main(tier, seed):
    global MODS
    MODS = common.load_repo()
    c06.MODS = MODS
    m = MODS['message']
    chk = Check('C05', tier, seed,
                functions=common.src_hash(m.Message.to_bytes, m.Message.parse, m.Message._payloads_to_bytes, m.Message._parse_payloads,
                                          m.PayloadKE, m.PayloadNOTIFY, m.PayloadDELETE, m.PayloadID, m.PayloadAUTH, m.PayloadTS,
                                          m.TrafficSelector.to_bytes, m.TrafficSelector.parse, m.Proposal.to_bytes, m.Proposal.parse,
                                          m.Transform.to_bytes, m.Transform.parse, m.PayloadSA.to_bytes, m.PayloadSA.parse),
                bounds={'encoder': 'one message with one payload of each class (KE, NOTIFY with/without SPI, DELETE with 2 SPIs, NONCE, ID, '
                                   'AUTH, VENDOR, TS IPv4, SA with one proposal of two transforms), every header field and every payload '
                                   'field symbolic (data fields of the fixed small lengths in the harness)',
                        'idempotence': 'every byte string of length 28, 31, 32 (thorough: also 29, 30)',
                        'outside': 'payload combinations/longer chains (structure enumerated by the parser harness C06 only for '
                                   'termination/exceptions), IPv6 selectors, payloads inside SK (C07), the structured dump to_dict (string '
                                   'rendering of symbolic data is not modelled)'},
                assumptions=['struct/bytes/enum models as in C06 (validated per path there)'],
                stubs=['message.pack/pack_into/unpack_from', 'enum.EnumType.__call__', 'SymDict lookups', 'message.ip_address'])
    chk.run(build_instances(tier))
    return chk.finish(replay=lambda v: common.native_replay_subprocess('C05', v))
