"""Shared driver for the per-property harnesses: fresh import of /repo, instance pool, verdicts,
native replay in a separate process, known findings, evidence."""
import hashlib
import inspect
import json
import logging
import multiprocessing as mp
import os
import subprocess
import sys
import time
import traceback

VERIF = os.path.dirname(os.path.dirname(os.path.abspath(__file__)))
REPO = os.environ.get('PYIKEV2_REPO', '/repo')
if REPO not in sys.path:
    sys.path.insert(0, REPO)
if VERIF not in sys.path:
    sys.path.insert(0, VERIF)

EXIT_OK, EXIT_VIOLATION, EXIT_INCONCLUSIVE = 0, 1, 2


import ast as _ast_mod      # noqa: E402
import importlib.machinery  # noqa: E402
import importlib.util       # noqa: E402
_REPO_MODULES = {f[:-3] for f in os.listdir(REPO) if f.endswith('.py')} if os.path.isdir(REPO) else set()


class _JoinRewriter(_ast_mod.NodeTransformer):
    """`<x>.join(<seq>)` -> `__symx_join__(<x>, <seq>)`: bytes.join is C code and cannot see engine bytes; the helper falls through to the real
    method unless a symbolic operand is involved (semantics unchanged on concrete values; line numbers unchanged)"""

    def visit_Call(self, node):
        import ast
        self.generic_visit(node)
        if isinstance(node.func, ast.Attribute) and node.func.attr == 'join' and len(node.args) == 1 and not node.keywords:
            new = ast.Call(func=ast.Name(id='__symx_join__', ctx=ast.Load()), args=[node.func.value, node.args[0]], keywords=[])
            return ast.copy_location(new, node)
        return node


def _symx_join(sep, seq):
    from symx import core
    if isinstance(sep, (bytes, bytearray, core.SymBytes)):
        items = list(seq)
        if isinstance(sep, core.SymBytes) or any(isinstance(x, core.SymBytes) for x in items):
            out = core.SymBytes([])
            for i, x in enumerate(items):
                if i:
                    out = out + sep
                out = out + x
            return out
        return sep.join(items)
    return sep.join(seq)


class _RepoFinder:
    """meta path finder for the modules of the tree under analysis (symbolic runs only): the source is compiled after _JoinRewriter"""

    @staticmethod
    def find_spec(name, path=None, target=None):
        if '.' in name or name not in _REPO_MODULES:
            return None
        f = os.path.join(REPO, name + '.py')
        if not os.path.isfile(f):
            return None

        class Loader(importlib.machinery.SourceFileLoader):
            def source_to_code(self, data, path, *, _optimize=-1):
                import ast
                try:
                    tree = ast.parse(data, filename=path)
                    tree = ast.fix_missing_locations(_JoinRewriter().visit(tree))
                    return compile(tree, path, 'exec', dont_inherit=True, optimize=_optimize)
                except SyntaxError:
                    raise
                except Exception:      # pragma: no cover - any problem of the rewriter: the plain source
                    return super().source_to_code(data, path, _optimize=_optimize)
        return importlib.util.spec_from_file_location(name, f, loader=Loader(name, f))


def load_repo(shim=True):
    """import the modules of /repo's current working tree (never cached: no .pyc is written)"""
    sys.dont_write_bytecode = True
    logging.disable(logging.CRITICAL)
    logging.indent = None
    if shim and not any(x is _RepoFinder for x in sys.meta_path):
        import builtins
        builtins.__symx_join__ = _symx_join
        sys.meta_path.insert(0, _RepoFinder)
    import message, crypto      # noqa
    mods = {'message': message, 'crypto': crypto}
    try:
        import xfrm, ikesa, configuration, ikesacontroller, netlink      # noqa
        mods.update(xfrm=xfrm, ikesa=ikesa, configuration=configuration, ikesacontroller=ikesacontroller, netlink=netlink)
    except Exception:
        traceback.print_exc()
        raise
    if shim:
        from symx import shims
        shims.install(mods)
    return mods


def src_hash(*objs):
    out = {}
    for o in objs:
        try:
            s = inspect.getsource(o)
            name = getattr(o, '__qualname__', getattr(o, '__name__', str(o)))
            out[f'{o.__module__}.{name}'] = hashlib.sha256(s.encode()).hexdigest()[:16]
        except Exception as e:      # pragma: no cover
            out[str(o)] = f'unavailable: {e}'
    return out


class Instance:
    """one harness instance = one symbolic exploration (run in a worker process)"""

    def __init__(self, name, fn, args=(), engine_kw=None, native=None, must_reach=(), pin=()):
        self.name, self.fn, self.args = name, fn, args
        self.pin = tuple(pin)           # inputs that feed uninterpreted functions: pinned when a counterexample is refined
        self.engine_kw = engine_kw or {}
        self.native = native            # native(inputs, *args) -> outcome, for per-path cross validation
        self.must_reach = must_reach    # outcome classes (predicate names) that must be reached: vacuity guard


def _outcome_key(o):
    try:
        return json.dumps(o, default=str)
    except Exception:
        return str(o)


def _run_instance(inst):
    from symx import core
    t0 = time.time()
    w = sys.modules.get('harness.world')
    if w is not None:
        w.reset_between_instances()
    eng = core.Engine(**inst.engine_kw)
    for k, v in getattr(inst, 'engine_attrs', {}).items():
        setattr(eng, k, v)
    summary = {'name': inst.name, 'outcomes': {}, 'violations': [], 'aborted': {}, 'samples': [], 'xval': 0,
               'xval_mismatch': [], 'error': None}
    try:
        results = eng.explore(lambda: inst.fn(*inst.args))
    except core.EngineAbort as e:
        summary['error'] = f'{type(e).__name__}: {e}'
        results = list(getattr(eng, 'partial_results', []))
    except Exception as e:
        summary['error'] = 'engine exception: ' + ''.join(traceback.format_exception_only(type(e), e)).strip() + \
                           ' @ ' + ' <- '.join(f'{f.name}:{f.lineno}' for f in traceback.extract_tb(e.__traceback__)[-4:])
        results = []
    for r in results:
        if r.aborted:
            k = f'{r.aborted[0]}: {r.aborted[1]}'
            summary['aborted'][k] = summary['aborted'].get(k, 0) + 1
            if r.aborted[0] == 'budget':
                summary['violations'].append({'label': 'step-budget', 'inputs': r.model_inputs, 'detail': r.aborted[1]})
            continue
        o = r.outcome
        viol = None
        if isinstance(o, dict):
            viol = o.get('violation')
            okey = _outcome_key(o.get('class'))
        else:
            okey = _outcome_key(o)
        summary['outcomes'][okey] = summary['outcomes'].get(okey, 0) + 1
        if viol:
            summary['violations'].append({'label': viol, 'inputs': r.model_inputs, 'detail': okey})
        for label, inputs in r.failed:
            summary['violations'].append({'label': label, 'inputs': inputs, 'detail': okey})
        if inst.native is not None and r.model_inputs and not viol:
            try:
                nat = inst.native(r.model_inputs, *inst.args)
                summary['xval'] += 1
                cls = o.get('class') if isinstance(o, dict) else o
                if isinstance(nat, list) and nat[:1] == ['concrete re-run failed'] and len(nat) > 1 and nat[1]:
                    # the concrete re-run of this path (the solver's model as inputs, the REAL code behind the stand-ins: real Diffie-Hellman classes,
                    # real HMAC / AES) violates the oracle although the symbolic run did not: the stand-in hides the behaviour (e.g. state kept
                    # inside a real DH object).  It is a failing run of the real code: it goes through the same triage (native replay in a
                    # fresh process) as a solver counterexample and is reported as a violation, not as 'inconclusive'
                    lab = nat[1][0] if isinstance(nat[1], (list, tuple)) else nat[1]
                    summary['violations'].append({'label': str(lab), 'inputs': r.model_inputs, 'detail': okey,
                                                  'found_by': 'concrete re-run of the path model with the real classes'})
                elif _outcome_key(nat) != _outcome_key(cls):
                    summary['xval_mismatch'].append({'inputs': r.model_inputs, 'symbolic': okey, 'native': _outcome_key(nat)})
            except Exception as e:
                summary['xval_mismatch'].append({'inputs': r.model_inputs, 'symbolic': okey,
                                                 'native': f'raised {type(e).__name__}: {e}'})
        if len(summary['samples']) < 3 and r.model_inputs:
            summary['samples'].append({'instance': inst.name, 'decisions': len(r.decisions), 'witness': r.model_inputs,
                                       'outcome': okey})
    if inst.pin and summary['violations']:
        summary['violations'] = _refine(inst, summary['violations'])
    summary['stats'] = eng.stats.as_dict()
    summary['wall_s'] = round(time.time() - t0, 2)
    return summary


def _refine(inst, violations):
    """A counterexample whose model contains values of uninterpreted functions (HMAC/AES outputs) cannot be replayed natively.
    Pin the inputs that feed those functions to the model's values - the functions are then evaluated for real - and solve
    again for the remaining inputs.  The refined counterexample (if any) replaces the original."""
    from symx import core
    out, seen = [], set()
    for v in violations:
        if v['label'] in seen:
            continue
        seen.add(v['label'])
        pinned = {k: v['inputs'][k] for k in inst.pin if k in v['inputs']}
        eng = core.Engine(**dict(inst.engine_kw, pinned=pinned, max_paths=2000))
        try:
            results = eng.explore(lambda: inst.fn(*inst.args))
        except (core.EngineAbort, Exception):      # noqa
            results = []
        found = None
        for r in results:
            if r.aborted:
                continue
            o = r.outcome
            if isinstance(o, dict) and o.get('violation') == v['label']:
                found = dict(v, inputs=r.model_inputs, refined=True)
            for label, inputs in r.failed:
                if label == v['label']:
                    found = dict(v, inputs=inputs, refined=True)
            if found:
                break
        out.append(found or v)
    return out


_INSTANCES = []


def _worker(i):
    try:
        return _run_instance(_INSTANCES[i])
    except BaseException as e:      # noqa
        return {'name': _INSTANCES[i].name, 'error': f'worker crashed: {type(e).__name__}: {e}\n' + traceback.format_exc(),
                'outcomes': {}, 'violations': [], 'aborted': {}, 'samples': [], 'xval': 0, 'xval_mismatch': [],
                'stats': {}, 'wall_s': 0}


def run_instances(instances, procs=16):
    global _INSTANCES
    _INSTANCES = instances
    if len(instances) == 1 or procs == 1:
        return [_worker(i) for i in range(len(instances))]
    ctx = mp.get_context('fork')
    with ctx.Pool(min(procs, len(instances))) as pool:
        return pool.map(_worker, range(len(instances)), chunksize=1)


# ----------------------------------------------------------------------------- findings
def load_known_findings():
    p = os.path.join(VERIF, 'known_findings.json')
    if not os.path.exists(p):
        return {'known': [], 'fixed': []}
    return json.load(open(p))


class Check:
    def __init__(self, pid, tier, seed, functions=(), bounds=None, assumptions=(), stubs=()):
        self.pid, self.tier, self.seed = pid, tier, seed
        self.t0 = time.time()
        self.functions = functions
        self.bounds = bounds or {}
        self.assumptions = list(assumptions)
        self.stubs = list(stubs)
        self.summaries = []
        self.extra = {}

    def run(self, instances):
        only = os.environ.get('VERIF_ONLY')
        if only:
            import re
            instances = [i for i in instances if only in i.name or re.search(only, i.name)]
        s = run_instances(instances, procs=int(os.environ.get('VERIF_PROCS', '16'))) if instances else []
        self.summaries.extend(s)
        self.instances = getattr(self, 'instances', []) + list(instances)
        return s

    def finish(self, classify=None, replay=None):
        """classify(violation dict) -> known-finding id or None; replay(violation) -> True if it reproduces natively.
        Returns exit code (and prints the protocol lines)."""
        kf = load_known_findings()
        known_ids = {k['id']: k for k in kf.get('known', []) if k.get('property') == self.pid}
        tot = {}
        inconclusive = []
        violations = []
        for s, inst in zip(self.summaries, self.instances):
            for k, v in s.get('stats', {}).items():
                tot[k] = tot.get(k, 0) + v
            if s.get('error'):
                inconclusive.append(f"{s['name']}: {s['error']}")
            for k, n in s['aborted'].items():
                if k.startswith('cut:') or k.startswith('budget:'):
                    continue
                inconclusive.append(f"{s['name']}: {n} path(s) {k}")
            if s['xval_mismatch']:
                inconclusive.append(f"{s['name']}: {len(s['xval_mismatch'])} path(s) whose native replay differs: "
                                    f"{s['xval_mismatch'][0]}")
            for pred_name, pred in inst.must_reach:
                def _safe(pred, o):
                    try:
                        return bool(pred(o))
                    except Exception:
                        return False
                if not any(_safe(pred, json.loads(k)) for k in s['outcomes']):
                    if not s.get('error'):
                        inconclusive.append(f"{s['name']}: vacuity guard: no path reached '{pred_name}'")
            for v in s['violations']:
                v = dict(v, instance=s['name'])
                violations.append(v)
        # triage the violations: replay natively, then match known findings
        new, known_hit, not_repro = [], {}, []
        seen, cand = set(), []
        for v in violations:
            sig = (v['label'], v['instance'])
            if sig in seen:
                continue
            seen.add(sig)
            cand.append(v)
        # at most 48 distinct (instance, assertion) counterexamples are replayed (16 at a time) and reported; a tree that fails in more places
        # than that is reported by those 48
        cand = cand[:48]
        if replay and cand:
            from concurrent.futures import ThreadPoolExecutor
            with ThreadPoolExecutor(max_workers=min(16, len(cand))) as ex:
                oks = list(ex.map(replay, cand))
        else:
            oks = [True] * len(cand)
        for v, ok in zip(cand, oks):
            if not ok:
                not_repro.append(v)
                continue
            fid = classify(v) if classify else None
            if fid is not None and fid in known_ids:
                known_hit.setdefault(fid, v)
            else:
                new.append(v)
        for v in not_repro[:3]:
            inconclusive.append(f"counterexample did not reproduce natively (engine/stub error): {v['label']} "
                                f"{json.dumps(v['inputs'])[:200]}")
        paths = tot.get('paths', 0)
        sym_paths = tot.get('sym_paths', 0)
        samples = [x for s in self.summaries for x in s['samples']][:6]
        outcomes = {}
        for s in self.summaries:
            for k, n in s['outcomes'].items():
                outcomes[k] = outcomes.get(k, 0) + n
        cuts = {}
        for s in self.summaries:
            for k, n in s['aborted'].items():
                if k.startswith('cut:'):
                    cuts[k] = cuts.get(k, 0) + n
        replay_paths = []
        out_root = VERIF if not os.environ.get('VERIF_NOEVIDENCE') else '/var/tmp/verif-scratch'
        os.makedirs(os.path.join(out_root, 'replays'), exist_ok=True)
        for v in new:
            h = hashlib.sha256(json.dumps(v, sort_keys=True, default=str).encode()).hexdigest()[:12]
            p = os.path.join(out_root, 'replays', f'{self.pid}-{h}.json')
            json.dump({'property': self.pid, **v}, open(p, 'w'), indent=1, default=str)
            replay_paths.append(p)
        ev = {
            'property_id': self.pid, 'tier': self.tier, 'seed': self.seed, 'level': 'other',
            'coverage': {
                'explanation': 'bounded symbolic execution (symx concolic engine over z3) of the real code objects '
                               'imported from /repo at the start of this run; every branch on a symbolic value and '
                               'every assertion is decided by z3; verdict holds for every value inside the bounds below',
                'evaluations': max(paths, 1),
                'distinct_nontrivial': max(sym_paths, 0),
                'rule': 'evaluations = explored paths (each a distinct satisfiable path condition covering a set of '
                        'inputs); non-trivial = path condition contains at least one decision on a symbolic value',
                'samples': samples or [{'note': 'no symbolic path'}],
                'functions_encoded': self.functions,
                'bounds': self.bounds,
                'instances': len(self.summaries),
                'paths': paths,
                'solver_queries': tot.get('queries', 0),
                'assertions_discharged_unsat': tot.get('proved', 0),
                'assertions_sat': tot.get('failed', 0),
                'solver_unknown': tot.get('unknown', 0),
                'solver_s': round(tot.get('solver_s', 0), 2),
                'paths_cross_validated_natively': sum(s['xval'] for s in self.summaries),
                'outcome_classes': outcomes,
                'paths_cut_outside_bounds': cuts,
                'stubs': self.stubs,
                'inconclusive': inconclusive[:20],
                'known_findings_hit': sorted(known_hit),
                'per_instance': [{'name': s['name'], 'paths': s.get('stats', {}).get('paths'),
                                  'wall_s': s.get('wall_s')} for s in self.summaries][:64],
                **self.extra,
            },
            'assumptions': self.assumptions,
            'wall_s': round(time.time() - self.t0, 2),
            'violations': len(new),
        }
        os.makedirs(os.path.join(out_root, 'evidence'), exist_ok=True)
        json.dump(ev, open(os.path.join(out_root, 'evidence', f'{self.pid}.json'), 'w'), indent=1, default=str)
        for fid, v in sorted(known_hit.items()):
            print(f"KNOWN-FINDING: property={self.pid} {fid}: {known_ids[fid]['what']}")
        print(f"{self.pid} {self.tier}: instances={len(self.summaries)} paths={paths} queries={tot.get('queries', 0)} "
              f"discharged={tot.get('proved', 0)} solver_s={round(tot.get('solver_s', 0), 1)} "
              f"wall_s={round(time.time() - self.t0, 1)}")
        if new:
            for v, p in zip(new, replay_paths):
                print(f"  counterexample [{v['instance']}] {v['label']}: {json.dumps(v['inputs'], default=str)[:300]}")
                print(f'VIOLATION property={self.pid} replay={p}')
            return EXIT_VIOLATION
        if inconclusive:
            for i in inconclusive[:10]:
                print('INCONCLUSIVE:', i)
            return EXIT_INCONCLUSIVE
        return EXIT_OK


def native_replay_subprocess(pid, violation, timeout=60):
    """re-run the counterexample against the unshimmed code in a fresh interpreter; True = reproduces"""
    import tempfile
    with tempfile.NamedTemporaryFile('w', suffix='.json', dir='/var/tmp', delete=False) as f:
        json.dump({'property': pid, **violation}, f, default=str)
        path = f.name
    try:
        for attempt in (1, 4):
            # a replay that does not end is a reproduction of a non-termination counterexample - but only if it still does not end with four
            # times the allowance (a loaded machine must not turn a slow replay into a violation)
            try:
                r = subprocess.run([sys.executable, os.path.join(VERIF, 'run.py'), pid, '--replay', path],
                                   capture_output=True, text=True, timeout=timeout * attempt)
                if r.returncode != 1 and os.environ.get('VERIF_REPLAY_DEBUG'):
                    print(f'[replay exit {r.returncode}] ' + (r.stdout + r.stderr)[-1500:], file=sys.stderr)
                return r.returncode == 1
            except subprocess.TimeoutExpired:
                continue
        return True
    finally:
        os.unlink(path)


# ----------------------------------------------------------------------------- concrete re-runs of a harness function
def rerun_concrete(fn, inputs, args=()):
    """run the harness function on concrete inputs (no proxies are created) -> (outcome class, failed labels)"""
    from symx import core
    eng = core.ReplayEngine(inputs)
    out, failed = eng.run(lambda: fn(*args))
    viol = None
    if isinstance(out, dict):
        viol = out.get('violation')
        out = out.get('class')
    return out, failed + ([viol] if viol else [])


def native_of(fn):
    """Instance.native for harnesses whose outcome class does not depend on uninterpreted-function values"""
    def native(inputs, *args):
        from symx import core
        try:
            out, failed = rerun_concrete(fn, inputs, args)
        except core.AssumptionFailed as e:
            return ['concrete re-run: inputs of this path violate an assumption of the harness', str(e)]
        if failed:
            return ['concrete re-run failed', failed]
        return out
    return native


def generic_replay_file(path, build_all, loader):
    """native replay of a counterexample of a world harness: unshimmed modules, concrete inputs, same oracle.
    exit status 1 = the violation reproduces, 0 = it does not."""
    from symx import core
    v = json.load(open(path))
    loader()
    for inst in build_all():
        if inst.name == v['instance']:
            try:
                out, failed = rerun_concrete(inst.fn, v['inputs'], inst.args)
            except core.AssumptionFailed as e:
                print('replay: inputs violate an assumption of the harness:', e)
                return 0
            print('replay outcome:', out, 'failed:', failed)
            return 1 if failed else 0
    print('replay: unknown instance', v['instance'])
    return 2
