"""C09 - colliding exchanges leave both peers consistent: no crash, no deadlock.
(a) LOCAL, one step (solver-decided values): from every state of both roles an authentic request/response whose interesting
    fields are arbitrary (SPI named by DELETE / REKEY_SA, protocol byte, notification type of a response) is delivered to the
    real IkeSa.  No exception escapes; a REQUEST never moves an endpoint out of a request-outstanding state (except to DELETED
    by an IKE_SA delete) and never into one; collisions are answered as RFC 7296 2.25 prescribes (TEMPORARY_FAILURE for
    CHILD_SA requests while the IKE_SA is being rekeyed/deleted, for rekeying a CHILD_SA that is being deleted, for an IKE_SA
    rekey while anything is outstanding; CHILD_SA_NOT_FOUND for an unknown SPI) and then create nothing.
(b) GLOBAL, bounded: two real controllers driven through REAL main_loop iterations; a schedule of k steps, each an arbitrary
    choice among the local triggers (acquire, soft/hard expire, IKE_SA rekey, IKE_SA delete, DPD) at either endpoint and
    deliver / duplicate / drop of the oldest in-flight datagram in either direction; then a lossless drain with virtual-time
    retransmissions.  At quiescence: no exception escaped, no IKE_SA waits for a response, both endpoints hold the same
    established IKE_SAs and the same CHILD_SAs.  Each schedule is one concrete run; the solver drives the case split
    (exhaustive bounded exploration, not a symbolic generalisation)."""
import json

from . import common, world, c08, c11
from .common import Instance, Check

MODS = None

TRIGGERS = ('acquire', 'expire_soft', 'expire_hard', 'rekey_ike', 'delete_ike', 'dpd')
OPS = [(t, w) for w in ('A', 'B') for t in TRIGGERS] + [('deliver', 'A'), ('deliver', 'B'), ('duplicate', 'A'), ('duplicate', 'B'),
                                                        ('drop', 'A'), ('drop', 'B')]


class Sim:
    """two controllers; every event goes through one iteration of the real main_loop of the receiving endpoint"""

    def __init__(self):
        self.n = world.Net(dpd=36000, ike_lifetime=360000, lifetime=3600)
        self.n.establish()
        self.queue = {'A': [], 'B': []}          # datagrams in flight TO that endpoint
        self.errors = []
        self.first_child = {'A': bytes(self.n.a.ike_sas[0].child_sas[0].inbound_spi), 'B': bytes(self.n.b.ike_sas[0].child_sas[0].inbound_spi)}
        self.acq = 0

    def other(self, w):
        return 'B' if w == 'A' else 'A'

    def iterate(self, who, event, tick_s=0):
        lp = world.Loop(self.n.ep(who), tick_s=tick_s)
        from symx import core
        try:
            ok = lp.run([event])
        except BaseException as ex:      # noqa
            if isinstance(ex, core.EngineAbort):
                raise
            self.errors.append(f'{who}: main_loop terminated with {type(ex).__name__}: {ex}')
            return
        for src, dst, data in lp.outbox:
            self.queue[self.other(who)].append(bytes(data))

    def trigger(self, t, who):
        n = self.n
        ctl = n.ep(who).obj
        me, peer = n.addr(who), n.addr(self.other(who))
        now = world.ENV.now
        if t == 'acquire':
            self.acq += 1
            sport, dport = (9000 + self.acq, 23) if who == 'A' else (23, 9000 + self.acq)
            self.iterate(who, {'kind': 'xfrm', 'data': world.acquire_bytes(me, peer, 1 if who == 'A' else 2, sport=sport, dport=dport)})
        elif t in ('expire_soft', 'expire_hard'):
            self.iterate(who, {'kind': 'xfrm', 'data': world.expire_bytes(self.first_child[who], t == 'expire_hard')})
        else:
            for e in ctl.ike_sas:
                if t == 'rekey_ike':
                    e.rekey_ike_sa_at = now - 1
                elif t == 'delete_ike':
                    e.delete_ike_sa_at = now - 1
                elif t == 'dpd':
                    e.start_dpd_at = now - 1
            self.iterate(who, {'kind': 'tick'})
            # a timer that could not fire (IKE_SA busy) stays due, exactly as in the daemon

    def net_op(self, op, to):
        q = self.queue[to]
        if not q:
            return
        if op == 'drop':
            q.pop(0)
            return
        data = q[0] if op == 'duplicate' else q.pop(0)
        self.iterate(to, {'kind': 'udp', 'dst': self.n.addr(to), 'src': str(self.n.addr(self.other(to))), 'data': data})

    def busy(self):
        S = MODS['ikesa'].IkeSa.State
        waiting = (S.INIT_REQ_SENT, S.AUTH_REQ_SENT, S.NEW_CHILD_REQ_SENT, S.REK_CHILD_REQ_SENT, S.REK_IKE_SA_REQ_SENT, S.DEL_CHILD_REQ_SENT,
                   S.DEL_IKE_SA_REQ_SENT, S.DEL_AFTER_REKEY_IKE_SA_REQ_SENT, S.DPD_REQ_SENT)
        return [f'{w}:{e.state.name}' for w in ('A', 'B') for e in self.n.ep(w).obj.ike_sas if e.state in waiting]

    def drain(self, max_rounds=120):
        """lossless delivery + the daemons' own timers (1 s per round) until nothing is in flight and nobody waits"""
        for rnd in range(max_rounds):
            progressed = False
            for to in ('A', 'B'):
                while self.queue[to]:
                    self.net_op('deliver', to)
                    progressed = True
            if self.errors:
                return rnd
            if not self.queue['A'] and not self.queue['B'] and not self.busy() and not progressed:
                return rnd
            for w in ('A', 'B'):
                self.iterate(w, {'kind': 'tick'}, tick_s=1 if w == 'A' else 0)
        return max_rounds

    def consistent(self):
        S = MODS['ikesa'].IkeSa.State
        bad = list(self.errors)
        b = self.busy()
        if b:
            bad.append(f'at quiescence an IKE_SA still waits for a response: {b}')
        if self.queue['A'] or self.queue['B']:
            bad.append('datagrams still in flight after the drain')
        view = {}
        for w in ('A', 'B'):
            ctl = self.n.ep(w).obj
            est = {}
            for e in ctl.ike_sas:
                if e.state == S.ESTABLISHED:
                    kids = sorted((bytes(c.inbound_spi), bytes(c.outbound_spi)) if w == 'A' else (bytes(c.outbound_spi), bytes(c.inbound_spi))
                                  for c in e.child_sas)
                    est[(bytes(e.spi_i), bytes(e.spi_r))] = kids
                elif e.state not in (S.REKEYED,):
                    pass
            view[w] = est
            # a responder IKE_SA that answered (a copy of) an IKE_SA_INIT request and never saw IKE_AUTH waits for a REQUEST, not for a response: the
            # controller opens one per copy of the request and keeps it (observations O4/O5 of DESIGN.md) - not a clause of this property
            leftovers = [e.state.name for e in ctl.ike_sas if e.state not in (S.ESTABLISHED,) and not (e.state == S.INIT_RES_SENT and not e.is_initiator)]
            if leftovers and not b:
                bad.append(f'{w} still lists IKE_SAs that are neither established nor waiting: {leftovers}')
            bad += [f'{w}: {x}' for x in world.sad_invariant(ctl, self.n.ep(w).kernel)]
        if set(view['A']) != set(view['B']):
            bad.append(f"the endpoints hold different established IKE_SAs: A={[k[0].hex() + '/' + k[1].hex() for k in view['A']]} "
                       f"B={[k[0].hex() + '/' + k[1].hex() for k in view['B']]}")
        else:
            for k in view['A']:
                if view['A'][k] != view['B'][k]:
                    bad.append(f"the endpoints hold different CHILD_SAs for IKE_SA {k[0].hex()}: A={[(i.hex(), o.hex()) for i, o in view['A'][k]]} "
                               f"B={[(i.hex(), o.hex()) for i, o in view['B'][k]]}")
        return bad


def h_schedule(k, ops_subset, prefix=()):
    from symx import core
    eng = core.engine()
    sim = Sim()
    ops = [OPS[i] for i in ops_subset]
    trace = []
    for t, w in prefix:
        (sim.trigger if t in TRIGGERS else sim.net_op)(t, w)
        trace.append(f'{t}@{w}')
    for i in range(k):
        c = eng.sym_int(f'op{i}', 0, len(ops) - 1)
        j = eng.concretize(c, 0, len(ops) - 1) if not isinstance(c, int) else c
        t, w = ops[j]
        trace.append(f'{t}@{w}')
        if t in TRIGGERS:
            sim.trigger(t, w)
        else:
            sim.net_op(t, w)
        if sim.errors:
            return {'class': ['schedule'], 'violation': f'{" ".join(trace)}: ' + '; '.join(sim.errors)}
    rounds = sim.drain()
    bad = sim.consistent()
    if bad:
        return {'class': ['schedule'], 'violation': f'after [{" ".join(trace)}] + drain ({rounds} rounds): ' + '; '.join(bad[:3])}
    S = MODS['ikesa'].IkeSa.State
    return ['schedule', len(sim.n.a.ike_sas), len(sim.n.b.ike_sas)]


def h_loss(trigger, who, mode, second=None):
    """one exchange flow (optionally crossing with a second trigger at the other endpoint) in which the i-th datagram put in
    flight - i arbitrary - is lost (or delivered twice); then the lossless drain"""
    from symx import core
    eng = core.engine()
    sim = Sim()
    idx = eng.sym_int('datagram_index', 0, 7)
    sim.trigger(trigger, who)
    if second:
        sim.trigger(second, sim.other(who))
    count = 0
    for rnd in range(40):
        moved = False
        for to in ('B', 'A') if who == 'A' else ('A', 'B'):
            if sim.queue[to]:
                moved = True
                hit = (idx == count)
                count += 1
                if hit:
                    if mode == 'drop':
                        sim.net_op('drop', to)
                    else:
                        sim.net_op('duplicate', to)
                        sim.net_op('deliver', to)
                else:
                    sim.net_op('deliver', to)
        if sim.errors:
            return {'class': ['loss'], 'violation': f'{trigger}@{who} {mode} of datagram {count - 1}: ' + '; '.join(sim.errors)}
        if not moved:
            break
    rounds = sim.drain()
    bad = sim.consistent()
    if bad:
        return {'class': ['loss'], 'violation': f'{trigger}@{who}' + (f' x {second}' if second else '') + f' with one datagram {mode}ped, after the drain ({rounds} rounds): '
                + '; '.join(bad[:3])}
    return ['loss', count]


def h_late(t1, who, t2):
    """X starts an exchange, Y answers it and THEN starts one of its own: the answer and Y's request are both in flight to X and arrive
    in order / swapped / with the first or the second lost / with the first duplicated (arbitrary choice); then the lossless drain"""
    from symx import core
    eng = core.engine()
    sim = Sim()
    X, Y = who, sim.other(who)
    sim.trigger(t1, X)
    while sim.queue[Y]:
        sim.net_op('deliver', Y)
    sim.trigger(t2, Y)
    c = eng.sym_int('arrival', 0, 4)
    j = eng.concretize(c, 0, 4) if not isinstance(c, int) else c
    q = sim.queue[X]
    what = ('in order', 'swapped', 'first lost', 'second lost', 'first duplicated')[j]
    if j == 1 and len(q) >= 2:
        q[0], q[1] = q[1], q[0]
    elif j == 2 and q:
        q.pop(0)
    elif j == 3 and len(q) >= 2:
        q.pop(1)
    elif j == 4 and q:
        q.insert(1, q[0])
    if sim.errors:
        return {'class': ['late'], 'violation': f'{t1}@{X}, answered, {t2}@{Y}: ' + '; '.join(sim.errors)}
    rounds = sim.drain()
    bad = sim.consistent()
    if bad:
        return {'class': ['late'], 'violation': f'{t1}@{X} answered by {Y}, then {t2}@{Y}; arrival at {X}: {what}; after the drain ({rounds} rounds): ' + '; '.join(bad[:3])}
    return ['late', j]


def h_queued(who, state):
    """a kernel ACQUIRE arrives while the endpoint waits for the response to a request of its own (every such state): nothing is raised, nothing is
    sent; once the outstanding exchange is over the ACQUIRE is negotiated - both ends hold a CHILD_SA for that traffic"""
    from symx import core
    from ipaddress import ip_network
    eng = core.engine()
    S = MODS['ikesa'].IkeSa.State
    TS = MODS['message'].TrafficSelector
    p = world.Pair()
    out = p.to_state(who, state)
    me, E, peer, PE = (p.a, p.A, p.b, p.B) if who == 'A' else (p.b, p.B, p.a, p.A)
    port = 9555
    mine, theirs = ('192.168.0.1/32', '192.168.0.2/32') if who == 'A' else ('192.168.0.2/32', '192.168.0.1/32')
    tsi = TS.from_network(ip_network(mine), port if who == 'A' else 23, TS.IpProtocol.TCP)
    tsr = TS.from_network(ip_network(theirs), 23 if who == 'A' else port, TS.IpProtocol.TCP)
    try:
        r = E.call(me.process_acquire, tsi, tsr, 1 if who == 'A' else 2)
    except Exception as ex:      # noqa
        return {'class': ['queued'], 'violation': f'{who} in {state}: an ACQUIRE raised {type(ex).__name__}: {ex}'}
    if state in ('REK_IKE_SA_REQ_SENT', 'DEL_AFTER_REKEY_IKE_SA_REQ_SENT'):
        # an IKE_SA that is being replaced: whether the ACQUIRE waits, is handed to the successor or is lost is not judged (observation in DESIGN.md)
        return ['queued', 'rekeyed']
    if r is not None:
        return {'class': ['queued'], 'violation': f'{who} in {state}: a second request was sent while one is outstanding'}
    d, to, other = out, (peer, PE), (me, E)
    for _ in range(16):
        if d is None:
            break
        d = to[1].call(to[0].process_message, d)
        to, other = other, to
    live_me = me.new_ike_sa if me.state in (S.REKEYED, S.DELETED) and me.new_ike_sa is not None else me
    live_peer = peer.new_ike_sa if peer.state in (S.REKEYED, S.DELETED) and peer.new_ike_sa is not None else peer
    if state in ('DEL_IKE_SA_REQ_SENT',):
        return ['queued', 'ike_sa deleted']
    want = {'NEW_CHILD_REQ_SENT': 3, 'REK_CHILD_REQ_SENT': 2, 'DEL_CHILD_REQ_SENT': 1, 'DPD_REQ_SENT': 2}.get(state)
    has = lambda sa: want is None or len(sa.child_sas) == want
    if state in ('REK_IKE_SA_REQ_SENT', 'DEL_AFTER_REKEY_IKE_SA_REQ_SENT'):
        # an IKE_SA that is replaced never becomes idle again (recorded as an observation in DESIGN.md): not judged here
        return ['queued', 'rekeyed']
    if live_me.state != S.ESTABLISHED or live_peer.state != S.ESTABLISHED:
        return {'class': ['queued'], 'violation': f'{who} in {state} + ACQUIRE: after everything was delivered the IKE_SAs are {live_me.state.name} / {live_peer.state.name}'}
    if not has(live_me) or not has(live_peer):
        return {'class': ['queued'], 'violation': f'{who} in {state}: after the outstanding exchange and the queued ACQUIRE the endpoints hold {len(live_me.child_sas)} / '
                                                  f'{len(live_peer.child_sas)} CHILD_SAs, expected {want} on both (the ACQUIRE was lost or negotiated twice)'}
    return ['queued', 'negotiated']


# ----------------------------------------------------------------------------- (a) local one-step rules
WAITING = ('INIT_REQ_SENT', 'AUTH_REQ_SENT', 'NEW_CHILD_REQ_SENT', 'REK_CHILD_REQ_SENT', 'REK_IKE_SA_REQ_SENT', 'DEL_CHILD_REQ_SENT',
           'DEL_IKE_SA_REQ_SENT', 'DEL_AFTER_REKEY_IKE_SA_REQ_SENT', 'DPD_REQ_SENT')


def h_local(who, state, kind):
    """authentic request of the peer (kind) with arbitrary SPI / protocol / notification fields, delivered as an object"""
    from symx import core
    eng = core.engine()
    m = MODS['message']
    S = MODS['ikesa'].IkeSa.State
    NT = m.PayloadNOTIFY.Type
    c08.MODS = MODS
    p = world.Pair()
    p.outstanding = p.to_state(who, state)
    me, E, peer = (p.a, p.A, p.b) if who == 'A' else (p.b, p.B, p.a)
    got = c08.peer_datagram(p, who, kind)
    if got is None:
        return ['n/a']
    d0, crypto = got
    msg = m.Message.parse(bytes(d0), crypto=me.peer_crypto)
    if not msg.is_protected:
        return ['n/a']
    # arbitrary values in the fields that name objects
    spi = eng.sym_bytes('spi', 4)
    for x in msg.encrypted_payloads:
        if x.type == m.Payload.Type.DELETE and x.protocol_id != m.Proposal.Protocol.IKE:
            x.spis = [spi]
        if x.type == m.Payload.Type.NOTIFY and x.notification_type == NT.REKEY_SA:
            x.spi = spi
    state0 = me.state
    n_child0 = len(me.child_sas)
    klog0 = len(E.kernel.log)
    try:
        ret = c11.deliver_object(me, E, msg)
    except Exception as ex:      # noqa
        return {'class': ['local', 'raised'], 'violation': f'an authentic {kind} request made process_message raise {type(ex).__name__}: {ex}'}
    if msg.is_request:
        if state0.name in WAITING and me.state not in (state0, S.DELETED):
            return {'class': ['local'], 'violation': f'a request of the peer moved the endpoint from {state0.name} (own request outstanding) to {me.state.name}'}
        if state0.name not in WAITING and me.state.name in WAITING:
            return {'class': ['local'], 'violation': f'processing a request put the endpoint into {me.state.name}'}
        if ret is None:
            return {'class': ['local'], 'violation': 'an authentic in-window request got no response'}
        rep = m.Message.parse(ret if not isinstance(ret, bytearray) else bytes(ret), crypto=me.my_crypto)
        notes = [x.notification_type for x in rep.get_payloads(m.Payload.Type.NOTIFY, True)]
        created = len(me.child_sas) - n_child0
        if kind in ('new_child', 'rekey_child'):
            if state0 in (S.REK_IKE_SA_REQ_SENT, S.DEL_IKE_SA_REQ_SENT):
                if NT.TEMPORARY_FAILURE not in notes or created > 0:
                    return {'class': ['local'], 'violation': f'CHILD_SA request while the IKE_SA is in {state0.name} was not answered TEMPORARY_FAILURE'}
            if NT.TEMPORARY_FAILURE in notes or NT.CHILD_SA_NOT_FOUND in notes or NT.NO_PROPOSAL_CHOSEN in notes or NT.TS_UNACCEPTABLE in notes:
                if created > 0 or any(x['op'] == 'NEWSA' for x in E.kernel.log[klog0:]):
                    return {'class': ['local'], 'violation': 'a refused CHILD_SA request created a CHILD_SA'}
        if kind == 'rekey_child':
            known = core.sym_or(*[core.sym_or(spi == c.inbound_spi, spi == c.outbound_spi) for c in me.child_sas[:n_child0]]) if n_child0 else False
            if NT.CHILD_SA_NOT_FOUND in notes:
                eng.prove(core.sym_not(known), 'CHILD_SA_NOT_FOUND although the SPI names a CHILD_SA of this IKE_SA')
            elif created > 0:
                eng.prove(known, 'a CHILD_SA was rekeyed although the REKEY_SA notification names no CHILD_SA of this IKE_SA')
        if kind == 'rekey_ike':
            if state0 != S.ESTABLISHED:
                if me.state == S.REKEYED or NT.TEMPORARY_FAILURE not in notes:
                    return {'class': ['local'], 'violation': f'IKE_SA rekey request while in {state0.name} was not answered TEMPORARY_FAILURE'}
        return ['local', kind, state0.name, me.state.name, sorted(int(x) for x in notes)]
    return ['local', 'response', state0.name, me.state.name]


def build_instances(tier):
    inst = []
    nat = common.native_of
    all_ops = list(range(len(OPS)))
    trig_only = list(range(12))
    if tier == 'quick':
        inst.append(Instance('schedule k=2 all 18 ops', h_schedule, (2, all_ops), native=nat(h_schedule), engine_kw={'max_ticks': 10 ** 7}))
        # depth 3 = one fixed first trigger + 2 arbitrary steps, sharded by the first trigger
        for j in range(12):
            inst.append(Instance(f'schedule {OPS[j][0]}@{OPS[j][1]} then k=2', h_schedule, (2, all_ops, (OPS[j],)), native=nat(h_schedule),
                                 engine_kw={'max_ticks': 10 ** 7}))
    else:
        for j in range(len(OPS)):
            inst.append(Instance(f'schedule {OPS[j][0]}@{OPS[j][1]} then k=3', h_schedule, (3, all_ops, (OPS[j],)), native=nat(h_schedule),
                                 engine_kw={'max_ticks': 10 ** 7, 'max_wall_s': 3000}))
    for t in TRIGGERS:
        for w in ('A', 'B'):
            for mode in ('drop', 'dup'):
                inst.append(Instance(f'flow {t}@{w} one datagram {mode}', h_loss, (t, w, mode), native=nat(h_loss), engine_kw={'max_ticks': 10 ** 7}))
    for t, t2 in (('rekey_ike', 'rekey_ike'), ('expire_soft', 'expire_soft'), ('expire_soft', 'expire_hard'), ('rekey_ike', 'expire_soft'),
                  ('delete_ike', 'rekey_ike'), ('acquire', 'rekey_ike'), ('dpd', 'rekey_ike'), ('expire_hard', 'expire_hard')):
        for mode in (('drop',) if tier == 'quick' else ('drop', 'dup')):
            inst.append(Instance(f'crossing {t}@A x {t2}@B one datagram {mode}', h_loss, (t, 'A', mode, t2), native=nat(h_loss),
                                 engine_kw={'max_ticks': 10 ** 7}))
    for who, states in (('A', world.ALL_STATES_A), ('B', world.ALL_STATES_B)):
        for st in states:
            if st.endswith('REQ_SENT') and st not in ('INIT_REQ_SENT', 'AUTH_REQ_SENT'):
                inst.append(Instance(f'ACQUIRE at {who} while in {st}', h_queued, (who, st), native=nat(h_queued)))
    for t1 in TRIGGERS:
        for t2 in TRIGGERS:
            for w in (('A',) if tier == 'quick' and (t1 in ('dpd', 'acquire') or t2 in ('dpd',)) else ('A', 'B')):
                inst.append(Instance(f'answered {t1}@{w} then {t2} at the peer, arrival order arbitrary', h_late, (t1, w, t2), native=nat(h_late),
                                     engine_kw={'max_ticks': 10 ** 7}))
    for who, states in (('A', world.ALL_STATES_A), ('B', world.ALL_STATES_B)):
        for st in states:
            if st in ('INIT_REQ_SENT', 'AUTH_REQ_SENT', 'INIT_RES_SENT', 'REKEYED', 'DEL_AFTER_REKEY_IKE_SA_REQ_SENT'):
                continue
            for kind in ('del_child', 'rekey_child', 'new_child', 'rekey_ike', 'del_ike', 'dpd'):
                inst.append(Instance(f'local {who} {st} <- {kind}', h_local, (who, st, kind), native=nat(h_local)))
    return inst


def _load(shim):
    global MODS
    MODS = world.load(shim=shim)
    c08.MODS = MODS
    c11.MODS = MODS
    return MODS


def replay_file(path):
    return common.generic_replay_file(path, lambda: build_instances('thorough') + build_instances('quick'), lambda: _load(False))


def main(tier, seed):
    _load(True)
    ik, ic = MODS['ikesa'].IkeSa, MODS['ikesacontroller'].IkeSaController
    chk = Check('C09', tier, seed,
                functions=common.src_hash(ik.process_message, ik._process_request, ik._process_response, ik._process_create_child_sa_negotiation_req,
                                          ik.process_create_child_sa_request, ik.process_create_child_sa_response, ik.process_informational_request,
                                          ik.process_informational_response, ik.process_acquire, ik.process_expire, ik._check_in_states,
                                          ic.main_loop, ic.dispatch_message, ic.process_acquire, ic.process_expire),
                bounds={'global': 'from an established IKE_SA with one CHILD_SA: every schedule of depth 3 (quick; thorough: depth 4) over 18 operations (6 triggers '
                                  'x 2 endpoints, deliver / duplicate / drop of the oldest in-flight datagram per direction), then a lossless drain of at most 120 '
                                  'rounds with the daemons\' own timers (1 s per round); every step is one iteration of the real main_loop',
                        'loss/duplication': 'each of the 12 single-trigger flows and 8 crossing pairs with ONE datagram (index arbitrary 0..7) lost or delivered twice',
                        'local': '14 non-handshake states of both roles x 6 request kinds of the peer; SPI named by DELETE / REKEY_SA arbitrary (32 bit)',
                        'outside': 'deeper schedules and the seeded random walks of the property text (sampling is outside this technique); reordering beyond '
                                   'oldest-first delivery per direction (interleaving of the two directions is covered); collisions during the initial exchange'},
                assumptions=['DPD interval and lifetimes are large so that only the forced triggers fire', 'expire triggers name the CHILD_SA created by the initial exchange'],
                stubs=['ikesacontroller.socket/select (scripted, one event per real main_loop iteration)', 'kernel ghost', 'clock/randomness',
                       'Message.parse returns the prepared object (local harness)'])
    chk.run(build_instances(tier))
    return chk.finish(replay=lambda v: common.native_replay_subprocess('C09', v))
