"""C04 - key material is derived exactly as RFC 7296 2.13-2.18 prescribes.
HMAC is an uninterpreted function: the real prf+/SKEYSEED/SK_*/KEYMAT code and an independent transcription of the RFC
are run on the same symbolic nonces, SPIs, secrets; the results must be equal as terms for every value."""
import hashlib
import json
import types

from . import common
from .common import Instance, Check

MODS = None
PRFS = {2: (hashlib.sha1, 20), 5: (hashlib.sha256, 32), 7: (hashlib.sha512, 64)}
INTEG = {2: 20, 12: 32, 14: 64}


def ref_prf(h, key, data):
    from symx import shims
    return shims.SymHMAC(key, data, digestmod=h).digest()


def ref_prfplus(h, key, seed, size):
    """RFC 7296 2.13: T1 = prf(K, S | 0x01), Tn = prf(K, Tn-1 | S | n)"""
    out, t, n = b'', b'', 1
    while len(out) < size:
        t = ref_prf(h, key, t + seed + bytes([n]))
        out = out + t
        n += 1
    return out[:size]


def h_prfplus(prf_id, klen, slen, size):
    from symx import core
    eng = core.engine()
    m, c = MODS['message'], MODS['crypto']
    prf = c.Prf(m.Transform(m.Transform.Type.PRF, prf_id))
    key, seed = eng.sym_bytes('key', klen), eng.sym_bytes('seed', slen)
    got = prf.prfplus(key, seed, size)
    want = ref_prfplus(PRFS[prf_id][0], key, seed, size)
    ok = eng.prove(len(got) == size and got == want, 'prf+ differs from RFC 7296 2.13')
    ok &= eng.prove(prf.key_size == PRFS[prf_id][1] and prf.hash_size == PRFS[prf_id][1], 'PRF key/hash size')
    return ['prfplus', bool(ok)]


def h_ike_keys(prf_id, integ_id, keylen, rekey, is_initiator, nlen, nlen_r=None):
    from symx import core
    eng = core.engine()
    m, c, ik = MODS['message'], MODS['crypto'], MODS['ikesa']
    T = m.Transform
    prop = m.Proposal(1, 1, b'', [T(1, 12, keylen), T(3, integ_id), T(2, prf_id), T(4, 14)])
    ni, nr = eng.sym_bytes('ni', nlen), eng.sym_bytes('nr', nlen + 1 if nlen_r is None else nlen_r)
    spi_i, spi_r, secret = eng.sym_bytes('spi_i', 8), eng.sym_bytes('spi_r', 8), eng.sym_bytes('g_ir', 12)
    h, pk = PRFS[prf_id]
    old = eng.sym_bytes('old_sk_d', pk) if rekey else None
    fake = types.SimpleNamespace(is_initiator=is_initiator, log_debug=lambda *a: None, my_crypto=None, peer_crypto=None)
    kr = ik.IkeSa.generate_ike_sa_key_material(fake, prop, ni, nr, spi_i, spi_r, secret, old)
    seed = ref_prf(h, old, secret + ni + nr) if rekey else ref_prf(h, ni + nr, secret)
    ikl, ekl = INTEG[integ_id], keylen // 8
    km = ref_prfplus(h, seed, ni + nr + spi_i + spi_r, 3 * pk + 2 * ikl + 2 * ekl)
    o = 0
    want = []
    for n in (pk, ikl, ikl, ekl, ekl, pk, pk):
        want.append(km[o:o + n]); o += n
    names = ('sk_d', 'sk_ai', 'sk_ar', 'sk_ei', 'sk_er', 'sk_pi', 'sk_pr')
    ok = True
    for nme, w in zip(names, want):
        g = getattr(kr, nme)
        ok &= eng.prove(len(g) == len(w) and g == w, f'{nme} differs from RFC 7296 2.14' + (' / 2.18 (rekey)' if rekey else ''))
    mine = (want[3], want[1], want[5]) if is_initiator else (want[4], want[2], want[6])
    theirs = (want[4], want[2], want[6]) if is_initiator else (want[3], want[1], want[5])
    for cr, exp, who in ((fake.my_crypto, mine, 'my'), (fake.peer_crypto, theirs, 'peer')):
        ok &= eng.prove(core.sym_and(cr.sk_e == exp[0], cr.sk_a == exp[1], cr.sk_p == exp[2]), f'{who}_crypto has the keys of the wrong direction')
    ok &= eng.prove(fake.my_crypto.cipher.key_size == ekl and fake.my_crypto.integrity.key_size == ikl, 'key sizes')
    return ['ike_keys', bool(ok)]


def h_child_keys(prf_id, integ_id, keylen, proto, with_dh):
    from symx import core
    eng = core.engine()
    m, c, ik = MODS['message'], MODS['crypto'], MODS['ikesa']
    T = m.Transform
    trs = [T(3, integ_id), T(5, 0)] + ([T(1, 12, keylen)] if proto == 3 else [])
    prop = m.Proposal(1, proto, b'\1\2\3\4', trs)
    h, pk = PRFS[prf_id]
    prf = c.Prf(T(2, prf_id))
    sk_d = eng.sym_bytes('sk_d', pk)
    ni, nr = eng.sym_bytes('ni', 16), eng.sym_bytes('nr', 17)
    keyseed = ((eng.sym_bytes('g_ir', 9) + ni + nr) if with_dh else (ni + nr))
    # the IKE_SA's own suite differs from the CHILD_SA's (another integrity algorithm and key length): sizes must come from the CHILD proposal
    ike_integ = c.Integrity(T(3, 14 if integ_id != 14 else 2))
    ike_cipher = c.Cipher(T(1, 12, 128 if keylen == 256 else 256))
    fake = types.SimpleNamespace(my_crypto=c.Crypto(ike_cipher, b'e' * ike_cipher.key_size, ike_integ, b'a' * ike_integ.key_size, prf, b'p' * pk),
                                 peer_crypto=c.Crypto(ike_cipher, b'E' * ike_cipher.key_size, ike_integ, b'A' * ike_integ.key_size, prf, b'P' * pk),
                                 log_debug=lambda *a: None, is_initiator=True, ike_sa_keyring=None, chosen_proposal=None, configuration=None)
    kr = ik.IkeSa.generate_child_sa_key_material(fake, prop, keyseed, sk_d)
    ikl, ekl = INTEG[integ_id], (keylen // 8 if proto == 3 else 0)
    km = ref_prfplus(h, sk_d, keyseed, 2 * ikl + 2 * ekl)
    # RFC 7296 2.17: all keys for initiator->responder first; within one SA encryption key before integrity key
    w_ei, w_ai, w_er, w_ar = km[0:ekl], km[ekl:ekl + ikl], km[ekl + ikl:2 * ekl + ikl], km[2 * ekl + ikl:]
    ok = True
    for g, w, nme in ((kr.sk_ei, w_ei, 'sk_ei'), (kr.sk_ai, w_ai, 'sk_ai'), (kr.sk_er, w_er, 'sk_er'), (kr.sk_ar, w_ar, 'sk_ar')):
        ok &= eng.prove(len(g) == len(w) and g == w, f'CHILD_SA {nme} differs from RFC 7296 2.17')
    return ['child_keys', bool(ok)]


def build_instances(tier):
    inst = []
    sizes = {'quick': (0, 1, 19, 20, 21, 32, 33, 64, 65, 100, 224), 'thorough': tuple(range(0, 330, 1))}[tier]
    for prf_id in PRFS:
        for size in sizes:
            inst.append(Instance(f'prfplus prf={prf_id} size={size}', h_prfplus, (prf_id, 16 if size % 2 else 33, 24, size)))
        # key lengths around the block size of the hash (RFC 2104: keys LONGER than one block are hashed first)
        for klen in ((63, 64, 65, 127, 128, 129) if tier == 'quick' else tuple(range(60, 70)) + tuple(range(124, 134)) + (1, 200, 256)):
            inst.append(Instance(f'prfplus prf={prf_id} size=40 keylen={klen}', h_prfplus, (prf_id, klen, 24, 40)))
        # SKEYSEED = prf(Ni | Nr, g^ir): nonce pairs whose concatenation is exactly one block / one byte more / less
        for (a, b) in ((32, 32), (31, 32), (33, 32), (64, 64), (64, 65), (16, 48), (256, 256)):
            if tier == 'quick' and (a, b) in ((31, 32), (64, 65), (16, 48)):
                continue
            inst.append(Instance(f'ike keys prf={prf_id} integ=12 keylen=256 rekey=False initiator=True nonces={a}+{b}', h_ike_keys,
                                 (prf_id, 12, 256, False, True, a, b)))
    for prf_id in PRFS:
        for integ_id in INTEG:
            for keylen in (128, 256):
                for rekey in (False, True):
                    for init in (False, True):
                        if tier == 'quick' and (prf_id, integ_id, keylen) not in ((2, 2, 128), (5, 12, 256), (7, 14, 256), (5, 2, 128)):
                            continue
                        inst.append(Instance(f'ike keys prf={prf_id} integ={integ_id} keylen={keylen} rekey={rekey} initiator={init}',
                                             h_ike_keys, (prf_id, integ_id, keylen, rekey, init, 16 if tier == 'quick' else 32)))
                for proto in (2, 3):
                    for dh in (False, True):
                        if tier == 'quick' and (prf_id, integ_id) not in ((2, 2), (5, 12), (7, 14), (5, 14)):
                            continue
                        inst.append(Instance(f'child keys prf={prf_id} integ={integ_id} keylen={keylen} proto={proto} dh={dh}',
                                             h_child_keys, (prf_id, integ_id, keylen, proto, dh)))
    return inst


def replay_file(path):
    """native differential with the real HMAC on the concrete witness"""
    global MODS
    MODS = common.load_repo(shim=False)
    import hmac
    m, c, ik = MODS['message'], MODS['crypto'], MODS['ikesa']
    v = json.load(open(path))
    name, inp = v['instance'], v['inputs']
    T = m.Transform
    kv = dict(x.split('=') for x in name.split() if '=' in x)
    kv.setdefault('keylen', '256')
    h, pk = PRFS[int(kv['prf'])]
    hx = lambda k: bytes.fromhex(inp[k])

    def P(k, d): return hmac.new(k, d, h).digest()

    def PP(k, s, n):
        out, t, i = b'', b'', 1
        while len(out) < n:
            t = P(k, t + s + bytes([i])); out += t; i += 1
        return out[:n]
    if name.startswith('prfplus'):
        got = c.Prf(T(2, int(kv['prf']))).prfplus(hx('key'), hx('seed'), int(kv['size']))
        return 0 if got == PP(hx('key'), hx('seed'), int(kv['size'])) else 1
    if name.startswith('ike keys'):
        keylen, integ_id = int(kv['keylen']), int(kv['integ'])
        prop = m.Proposal(1, 1, b'', [T(1, 12, keylen), T(3, integ_id), T(2, int(kv['prf'])), T(4, 14)])
        init, rekey = kv['initiator'] == 'True', kv['rekey'] == 'True'
        fake = types.SimpleNamespace(is_initiator=init, log_debug=lambda *a: None, my_crypto=None, peer_crypto=None)
        old = hx('old_sk_d') if rekey else None
        kr = ik.IkeSa.generate_ike_sa_key_material(fake, prop, hx('ni'), hx('nr'), hx('spi_i'), hx('spi_r'), hx('g_ir'), old)
        seed = P(old, hx('g_ir') + hx('ni') + hx('nr')) if rekey else P(hx('ni') + hx('nr'), hx('g_ir'))
        ikl, ekl = INTEG[integ_id], keylen // 8
        km = PP(seed, hx('ni') + hx('nr') + hx('spi_i') + hx('spi_r'), 3 * pk + 2 * ikl + 2 * ekl)
        o, want = 0, []
        for n in (pk, ikl, ikl, ekl, ekl, pk, pk):
            want.append(km[o:o + n]); o += n
        ok = tuple(kr) == tuple(want)
        mine = (want[3], want[1], want[5]) if init else (want[4], want[2], want[6])
        ok = ok and (fake.my_crypto.sk_e, fake.my_crypto.sk_a, fake.my_crypto.sk_p) == mine
        return 0 if ok else 1
    keylen, integ_id, proto = int(kv['keylen']), int(kv['integ']), int(kv['proto'])
    trs = [T(3, integ_id), T(5, 0)] + ([T(1, 12, keylen)] if proto == 3 else [])
    prop = m.Proposal(1, proto, b'\1\2\3\4', trs)
    keyseed = (hx('g_ir') if kv['dh'] == 'True' else b'') + hx('ni') + hx('nr')
    prf = c.Prf(T(2, int(kv['prf'])))
    ike_integ = c.Integrity(T(3, 14 if integ_id != 14 else 2))
    ike_cipher = c.Cipher(T(1, 12, 128 if keylen == 256 else 256))
    fake = types.SimpleNamespace(my_crypto=c.Crypto(ike_cipher, b'e' * ike_cipher.key_size, ike_integ, b'a' * ike_integ.key_size, prf, b'p' * pk),
                                 peer_crypto=c.Crypto(ike_cipher, b'E' * ike_cipher.key_size, ike_integ, b'A' * ike_integ.key_size, prf, b'P' * pk),
                                 log_debug=lambda *a: None, is_initiator=True, ike_sa_keyring=None, chosen_proposal=None, configuration=None)
    kr = ik.IkeSa.generate_child_sa_key_material(fake, prop, keyseed, hx('sk_d'))
    ikl, ekl = INTEG[integ_id], (keylen // 8 if proto == 3 else 0)
    km = PP(hx('sk_d'), keyseed, 2 * ikl + 2 * ekl)
    want = (km[0:ekl], km[ekl:ekl + ikl], km[ekl + ikl:2 * ekl + ikl], km[2 * ekl + ikl:])
    return 0 if (kr.sk_ei, kr.sk_ai, kr.sk_er, kr.sk_ar) == want else 1


def main(tier, seed):
    global MODS
    MODS = common.load_repo()
    from symx import shims
    shims.install_hash_level(MODS)
    c, ik = MODS['crypto'], MODS['ikesa']
    chk = Check('C04', tier, seed,
                functions=common.src_hash(c.Prf.prf, c.Prf.prfplus, ik.IkeSa.generate_ike_sa_key_material,
                                          ik.IkeSa.generate_child_sa_key_material, c.Integrity, c.Cipher.key_size),
                bounds={'prf+': 'all keys (16/33 bytes) and seeds (24 bytes), output sizes quick: 11 boundary sizes, thorough: 0..329, 3 PRFs',
                        'IKE keys': 'all nonces (16+17 bytes; thorough 32+33), SPIs, 12-byte shared secret (leading zero octets included), '
                                    'initial and rekey (old SK_d), both roles; quick: 4 suites, thorough: 3 PRF x 3 INTEG x 2 key lengths',
                        'CHILD keys': 'ESP and AH, with and without a fresh DH secret',
                        'outside': 'HMAC/AES arithmetic, DH group primes and the fixed-width encoding of DH public values / shared secrets '
                                   '(C code in cryptography/OpenSSL, not encodable); which nonces/secret the handshake passes in (C01)'},
                assumptions=['the HASH function (SHA-1/SHA-256/SHA-512) is an uninterpreted function with functional consistency; HMAC is its RFC 2104 '
                             'construction, on the reference side transcribed in symx/shims.hmac_rfc2104, so code that builds HMAC itself from hashlib is comparable',
                             'the reference transcribes RFC 7296 2.13, 2.14, 2.17, 2.18 independently of the code under test'],
                stubs=['crypto.HMAC (UF)', 'ikesa.unpack', 'SymDict digest tables'])
    chk.run(build_instances(tier))
    return chk.finish(replay=lambda v: common.native_replay_subprocess('C04', v))
