"""C04 - key material is derived exactly as RFC 7296 2.13-2.18 prescribes.
HMAC is an uninterpreted function: the real prf+/SKEYSEED/SK_*/KEYMAT code and an independent transcription of the RFC
are run on the same symbolic nonces, SPIs, secrets; the results must be equal as terms for every value."""
import hashlib
import json
import types

from . import common
from .common import Instance, Check

MODS = None
PRFS = {2: (hashlib.sha1, 20), 5: (hashlib.sha256, 32), 7: (hashlib.sha512, 64)}
INTEG = {2: 20, 12: 32, 14: 64}


def ref_prf(h, key, data):
    from symx import shims
    return shims.SymHMAC(key, data, digestmod=h).digest()


def ref_prfplus(h, key, seed, size):
    """RFC 7296 2.13: T1 = prf(K, S | 0x01), Tn = prf(K, Tn-1 | S | n)"""
    out, t, n = b'', b'', 1
    while len(out) < size:
        t = ref_prf(h, key, t + seed + bytes([n]))
        out = out + t
        n += 1
    return out[:size]


def h_prfplus(prf_id, klen, slen, size):
    from symx import core
    eng = core.engine()
    m, c = MODS['message'], MODS['crypto']
    prf = c.Prf(m.Transform(m.Transform.Type.PRF, prf_id))
    key, seed = eng.sym_bytes('key', klen), eng.sym_bytes('seed', slen)
    got = prf.prfplus(key, seed, size)
    want = ref_prfplus(PRFS[prf_id][0], key, seed, size)
    ok = eng.prove(len(got) == size and got == want, 'prf+ differs from RFC 7296 2.13')
    ok &= eng.prove(prf.key_size == PRFS[prf_id][1] and prf.hash_size == PRFS[prf_id][1], 'PRF key/hash size')
    return ['prfplus', bool(ok)]


def h_ike_keys(prf_id, integ_id, keylen, rekey, is_initiator, nlen, nlen_r=None):
    from symx import core
    eng = core.engine()
    m, c, ik = MODS['message'], MODS['crypto'], MODS['ikesa']
    T = m.Transform
    prop = m.Proposal(1, 1, b'', [T(1, 12, keylen), T(3, integ_id), T(2, prf_id), T(4, 14)])
    ni, nr = eng.sym_bytes('ni', nlen), eng.sym_bytes('nr', nlen + 1 if nlen_r is None else nlen_r)
    spi_i, spi_r, secret = eng.sym_bytes('spi_i', 8), eng.sym_bytes('spi_r', 8), eng.sym_bytes('g_ir', 12)
    h, pk = PRFS[prf_id]
    old = eng.sym_bytes('old_sk_d', pk) if rekey else None
    fake = types.SimpleNamespace(is_initiator=is_initiator, log_debug=lambda *a: None, my_crypto=None, peer_crypto=None)
    kr = ik.IkeSa.generate_ike_sa_key_material(fake, prop, ni, nr, spi_i, spi_r, secret, old)
    seed = ref_prf(h, old, secret + ni + nr) if rekey else ref_prf(h, ni + nr, secret)
    ikl, ekl = INTEG[integ_id], keylen // 8
    km = ref_prfplus(h, seed, ni + nr + spi_i + spi_r, 3 * pk + 2 * ikl + 2 * ekl)
    o = 0
    want = []
    for n in (pk, ikl, ikl, ekl, ekl, pk, pk):
        want.append(km[o:o + n]); o += n
    names = ('sk_d', 'sk_ai', 'sk_ar', 'sk_ei', 'sk_er', 'sk_pi', 'sk_pr')
    ok = True
    for nme, w in zip(names, want):
        g = getattr(kr, nme)
        ok &= eng.prove(len(g) == len(w) and g == w, f'{nme} differs from RFC 7296 2.14' + (' / 2.18 (rekey)' if rekey else ''))
    mine = (want[3], want[1], want[5]) if is_initiator else (want[4], want[2], want[6])
    theirs = (want[4], want[2], want[6]) if is_initiator else (want[3], want[1], want[5])
    for cr, exp, who in ((fake.my_crypto, mine, 'my'), (fake.peer_crypto, theirs, 'peer')):
        ok &= eng.prove(core.sym_and(cr.sk_e == exp[0], cr.sk_a == exp[1], cr.sk_p == exp[2]), f'{who}_crypto has the keys of the wrong direction')
    ok &= eng.prove(fake.my_crypto.cipher.key_size == ekl and fake.my_crypto.integrity.key_size == ikl, 'key sizes')
    return ['ike_keys', bool(ok)]


def h_child_keys(prf_id, integ_id, keylen, proto, with_dh):
    from symx import core
    eng = core.engine()
    m, c, ik = MODS['message'], MODS['crypto'], MODS['ikesa']
    T = m.Transform
    trs = [T(3, integ_id), T(5, 0)] + ([T(1, 12, keylen)] if proto == 3 else [])
    prop = m.Proposal(1, proto, b'\1\2\3\4', trs)
    h, pk = PRFS[prf_id]
    prf = c.Prf(T(2, prf_id))
    sk_d = eng.sym_bytes('sk_d', pk)
    ni, nr = eng.sym_bytes('ni', 16), eng.sym_bytes('nr', 17)
    keyseed = ((eng.sym_bytes('g_ir', 9) + ni + nr) if with_dh else (ni + nr))
    # the IKE_SA's own suite differs from the CHILD_SA's (another integrity algorithm and key length): sizes must come from the CHILD proposal
    ike_integ = c.Integrity(T(3, 14 if integ_id != 14 else 2))
    ike_cipher = c.Cipher(T(1, 12, 128 if keylen == 256 else 256))
    fake = types.SimpleNamespace(my_crypto=c.Crypto(ike_cipher, b'e' * ike_cipher.key_size, ike_integ, b'a' * ike_integ.key_size, prf, b'p' * pk),
                                 peer_crypto=c.Crypto(ike_cipher, b'E' * ike_cipher.key_size, ike_integ, b'A' * ike_integ.key_size, prf, b'P' * pk),
                                 log_debug=lambda *a: None, is_initiator=True, ike_sa_keyring=None, chosen_proposal=None, configuration=None)
    kr = ik.IkeSa.generate_child_sa_key_material(fake, prop, keyseed, sk_d)
    ikl, ekl = INTEG[integ_id], (keylen // 8 if proto == 3 else 0)
    km = ref_prfplus(h, sk_d, keyseed, 2 * ikl + 2 * ekl)
    # RFC 7296 2.17: all keys for initiator->responder first; within one SA encryption key before integrity key
    w_ei, w_ai, w_er, w_ar = km[0:ekl], km[ekl:ekl + ikl], km[ekl + ikl:2 * ekl + ikl], km[2 * ekl + ikl:]
    ok = True
    for g, w, nme in ((kr.sk_ei, w_ei, 'sk_ei'), (kr.sk_ai, w_ai, 'sk_ai'), (kr.sk_er, w_er, 'sk_er'), (kr.sk_ar, w_ar, 'sk_ar')):
        ok &= eng.prove(len(g) == len(w) and g == w, f'CHILD_SA {nme} differs from RFC 7296 2.17')
    return ['child_keys', bool(ok)]


def h_sequence(order):
    """several derivations in ONE process, one after the other, with different suites (AES key lengths, integrity algorithms, PRFs): state kept
    between derivations (caches of algorithm objects, memoised sizes) must not leak from one suite into the next"""
    out = []
    for kind, a in order:
        r = h_ike_keys(*a) if kind == 'ike' else h_child_keys(*a)
        if isinstance(r, dict):
            return r
        out.append(r[-1])
    return ['sequence', all(out)]


SEQUENCES = {
    'aes256 then aes128 (IKE)': [('ike', (5, 12, 256, False, True, 16)), ('ike', (5, 12, 128, False, True, 16))],
    'aes128 then aes256 (IKE)': [('ike', (5, 12, 128, False, False, 16)), ('ike', (5, 12, 256, False, False, 16))],
    'IKE aes256/sha256 then ESP aes128/sha1 then AH sha512': [('ike', (5, 12, 256, False, True, 16)), ('child', (5, 2, 128, 3, False)), ('child', (5, 14, 256, 2, True))],
    'ESP aes128 then IKE aes256 with another PRF then ESP aes256': [('child', (2, 12, 128, 3, False)), ('ike', (7, 14, 256, True, False, 16)), ('child', (7, 12, 256, 3, True))],
}


# ----------------------------------------------------------------------------- Diffie-Hellman: groups and encodings
RFC3526_C = {2048: 124476, 3072: 1690314, 4096: 240904, 6144: 929484, 8192: 4743158}
RFC3526_GROUP = {14: 2048, 15: 3072, 16: 4096, 17: 6144, 18: 8192}
RFC5903 = {19: ('secp256r1', 256, 32), 20: ('secp384r1', 384, 48), 21: ('secp521r1', 521, 66)}


def _pi_floor(shift):
    """floor(pi * 2^shift) by Machin's formula in integer arithmetic (guard bits, then exactness check of the floor)"""
    guard = 64
    one = 1 << (shift + guard)

    def arctan_inv(x):
        total, term, n, x2 = 0, one // x, 1, x * x
        while term:
            total += term // n if (n // 2) % 2 == 0 else -(term // n)
            term //= x2
            n += 2
        return total
    pi = 4 * (4 * arctan_inv(5) - arctan_inv(239))
    lo, hi = (pi - (1 << 20)) >> guard, (pi + (1 << 20)) >> guard
    assert lo == hi, 'not enough guard bits'
    return lo


def rfc3526_prime(bits):
    return (1 << bits) - (1 << (bits - 64)) - 1 + (1 << 64) * (_pi_floor(bits - 130) + RFC3526_C[bits])


def h_primes():
    """every MODP prime literal of crypto.py equals 2^n - 2^(n-64) - 1 + 2^64 * (floor(2^(n-130) pi) + c) of RFC 3526 (ground z3 queries)"""
    import z3
    from symx import core
    eng = core.engine()
    c, m = MODS['crypto'], MODS['message']
    gd = c.MODPDH._group_dict
    groups = {int(k): v for k, v in gd.items()}
    if set(groups) != set(RFC3526_GROUP):
        return {'class': ['primes'], 'violation': f'MODP groups {sorted(groups)} differ from RFC 3526 groups 14-18'}
    for g, bits in RFC3526_GROUP.items():
        lit = int(groups[g], 16)
        s = z3.Solver()
        s.add(z3.IntVal(lit) != z3.IntVal(rfc3526_prime(bits)))
        if str(s.check()) != 'unsat':
            return {'class': ['primes'], 'violation': f'the prime of group {g} differs from the RFC 3526 {bits}-bit MODP prime'}
        if len(groups[g]) != bits // 4:
            return {'class': ['primes'], 'violation': f'the hexadecimal literal of group {g} does not have {bits // 4} digits (key_len would be wrong)'}
    for g, (name, ksz, klen) in RFC5903.items():
        curve = c.ECDH._ec_groups[m.Transform.DhId(g)]
        if curve.name != name or curve.key_size != ksz:
            return {'class': ['primes'], 'violation': f'group {g} is mapped to {curve.name}, RFC 5903 says {name}'}
    if set(int(k) for k in c.ECDH._ec_groups) != set(RFC5903):
        return {'class': ['primes'], 'violation': 'ECP groups differ from RFC 5903 groups 19-21'}
    return ['primes', 'ok']


class _LibModel:
    """stand-in for cryptography's dh / ec modules: public numbers are symbolic, everything handed to the library is recorded"""

    def __init__(self, eng, bits):
        self.eng, self.bits = eng, bits
        self.rec = {}

    # --- dh
    def DHParameterNumbers(self, p, g):
        lib = self
        lib.rec['p'], lib.rec['g'] = p, g
        y = self.eng.sym_int('y', 0, None, width=self.bits + 8)
        self.eng.assume(y < p)
        lib.rec['y'] = y

        class Priv:
            def public_key(s):
                return type('Pub', (), {'public_numbers': lambda s2: type('N', (), {'y': y})()})()

            def exchange(s, peer):
                lib.rec['exchange_peer'] = peer
                return lib.eng.sym_bytes('shared', 8)
        return type('PN', (), {'parameters': lambda s, backend=None: type('Params', (), {'generate_private_key': lambda s2: Priv()})()})()

    def DHPublicNumbers(self, y, pn):
        self.rec['peer_y'] = y
        return type('PubN', (), {'public_key': lambda s, backend=None: ('peer-key', y)})()

    # --- ec
    def generate_private_key(self, curve, backend=None):
        lib = self
        lib.rec['curve'] = curve
        x = self.eng.sym_int('x', 0, None, width=self.bits + 8)
        y = self.eng.sym_int('y', 0, None, width=self.bits + 8)
        self.eng.assume(x < (1 << self.bits)); self.eng.assume(y < (1 << self.bits))
        lib.rec['x'], lib.rec['y'] = x, y

        class Priv:
            key_size = curve.key_size

            def public_key(s):
                return type('Pub', (), {'public_numbers': lambda s2: type('N', (), {'x': x, 'y': y})()})()

            def exchange(s, algo, peer):
                lib.rec['exchange_peer'] = peer
                return lib.eng.sym_bytes('shared', 8)
        return Priv()

    def EllipticCurvePublicNumbers(self, x, y, curve):
        self.rec['peer_x'], self.rec['peer_y'], self.rec['peer_curve'] = x, y, curve
        return type('PubN', (), {'public_key': lambda s, backend=None: ('peer-key', x, y)})()

    def ECDH(self):
        return 'ECDH'

    SECP256R1 = SECP384R1 = SECP521R1 = None


class _Int(int):
    """crypto.int with from_bytes on symbolic bytes"""
    @staticmethod
    def from_bytes(b, byteorder='big', signed=False):
        from symx import core
        if isinstance(b, core.SymBytes) and not b.is_concrete():
            assert byteorder == 'big' and not signed
            return b.to_int()
        return int.from_bytes(bytes(b), byteorder, signed=signed)


def h_dh(group):
    """public values are fixed-width big-endian encodings of the library's numbers; compute_secret hands the library exactly the
    integers the peer's bytes encode"""
    from symx import core
    eng = core.engine()
    c, m = MODS['crypto'], MODS['message']
    gid = m.Transform.DhId(group)
    modp = group in RFC3526_GROUP
    bits = RFC3526_GROUP[group] if modp else RFC5903[group][1]
    klen = bits // 8 if modp else RFC5903[group][2]
    lib = _LibModel(eng, 8 * klen)
    saved = (getattr(c, 'dh', None), c.ec, getattr(c, 'int', int))
    c.dh, c.int = lib, _Int
    # an implementation over plain Python integers instead of the library: modular exponentiation is the uninterpreted part
    pows = []

    def model_pow(base, exp, mod=None):
        if mod is None or not modp or mod != rfc3526_prime(bits):
            return pow(base, exp, mod)
        r = eng.sym_int('g^x mod p' if not pows else f'peer^x mod p #{len(pows)}', 0, None, width=8 * klen + 8)
        eng.assume(r < mod)
        eng.assume(r >= 0)
        pows.append((base, r))
        return r
    c.pow = model_pow
    real_ec = c.ec
    c.ec = type('EC', (), {'generate_private_key': staticmethod(lib.generate_private_key), 'EllipticCurvePublicNumbers': staticmethod(lib.EllipticCurvePublicNumbers),
                           'ECDH': staticmethod(lib.ECDH)})
    try:
        d = c.DiffieHellman.from_group(gid)
        P = eng.prove
        pub = core.SymBytes.lift(d.public_key)
        if modp and 'p' not in lib.rec and pows:
            # integer implementation: public value and shared secret are fixed-width big-endian encodings of the two modular powers
            if pows[0][0] != 2:
                return {'class': ['dh'], 'violation': f'group {group}: generator {pows[0][0]}'}
            if len(pub) != klen or d.key_len != klen:
                return {'class': ['dh'], 'violation': f'group {group}: public value has {len(pub)} bytes, the group needs {klen}'}
            P(pub.to_int() == pows[0][1], f'group {group}: the public value is not the big-endian encoding of g^x mod p')
            peer = eng.sym_bytes('peer_public', klen)
            try:
                d.compute_secret(peer)
            except ValueError:
                return ['dh', group, 'peer value refused']
            if len(pows) != 2:
                return {'class': ['dh'], 'violation': f'group {group}: {len(pows) - 1} modular exponentiations for one shared secret'}
            P(pows[1][0] == core.SymBytes.lift(peer).to_int(), f'group {group}: the base of the exponentiation is not the big-endian value of the peer KE data')
            ss = core.SymBytes.lift(d.shared_secret)
            if len(ss) != klen:
                return {'class': ['dh'], 'violation': f'group {group}: the shared secret g^ir has {len(ss)} octets; RFC 7296 2.14 uses it zero-padded to the length of '
                                                      f'the modulus ({klen} octets), leading zero octets included'}
            P(ss.to_int() == pows[1][1], f'group {group}: the shared secret is not the big-endian encoding of peer^x mod p')
            return ['dh', group, 'integer implementation']
        if modp:
            if lib.rec.get('g') != 2 or lib.rec.get('p') != rfc3526_prime(bits):
                return {'class': ['dh'], 'violation': f'group {group}: generator/prime handed to the library are not (2, RFC 3526 prime)'}
            if len(pub) != klen or d.key_len != klen:
                return {'class': ['dh'], 'violation': f'group {group}: public value has {len(pub)} bytes, the group needs {klen}'}
            P(pub.to_int() == lib.rec['y'], f'group {group}: the public value is not the big-endian encoding of y')
            peer = eng.sym_bytes('peer_public', klen)
            d.compute_secret(peer)
            P(lib.rec['peer_y'] == core.SymBytes.lift(peer).to_int(), f'group {group}: the integer handed to the library is not the big-endian value of the peer KE data')
        else:
            if lib.rec['curve'].name != RFC5903[group][0]:
                return {'class': ['dh'], 'violation': f'group {group}: curve {lib.rec["curve"].name}'}
            if len(pub) != 2 * klen or d.key_len != klen:
                return {'class': ['dh'], 'violation': f'group {group}: public value has {len(pub)} bytes, the group needs {2 * klen}'}
            P(core.sym_and(core.SymBytes.lift(pub[:klen]).to_int() == lib.rec['x'], core.SymBytes.lift(pub[klen:]).to_int() == lib.rec['y']),
              f'group {group}: the public value is not x | y, each fixed-width big-endian')
            peer = eng.sym_bytes('peer_public', 2 * klen)
            d.compute_secret(peer)
            ps = core.SymBytes.lift(peer)
            P(core.sym_and(lib.rec['peer_x'] == core.SymBytes.lift(ps[:klen]).to_int(), lib.rec['peer_y'] == core.SymBytes.lift(ps[klen:]).to_int()),
              f'group {group}: the coordinates handed to the library are not the two halves of the peer KE data')
            if lib.rec['peer_curve'].name != RFC5903[group][0]:
                return {'class': ['dh'], 'violation': 'peer point on another curve'}
        if d.shared_secret is None or len(d.shared_secret) != 8:
            return {'class': ['dh'], 'violation': 'shared_secret is not what the library returned'}
        return ['dh', group]
    finally:
        c.dh, c.ec, c.int = saved[0], real_ec, saved[2]
        del c.pow


def build_instances(tier):
    inst = []
    inst.append(Instance('MODP primes (RFC 3526) and ECP curves (RFC 5903)', h_primes, ()))
    for g in ((14, 19, 21) if tier == 'quick' else (14, 15, 16, 17, 18, 19, 20, 21)):
        inst.append(Instance(f'DH group {g} encodings', h_dh, (g,), engine_kw={'query_timeout_ms': 120000, 'max_paths': 48}))
    for name, order in SEQUENCES.items():
        inst.append(Instance(f'sequence: {name}', h_sequence, (order,)))
    sizes = {'quick': (0, 1, 19, 20, 21, 32, 33, 64, 65, 100, 224), 'thorough': tuple(range(0, 330, 1))}[tier]
    for prf_id in PRFS:
        for size in sizes:
            inst.append(Instance(f'prfplus prf={prf_id} size={size}', h_prfplus, (prf_id, 16 if size % 2 else 33, 24, size)))
        # key lengths around the block size of the hash (RFC 2104: keys LONGER than one block are hashed first)
        for klen in ((63, 64, 65, 127, 128, 129) if tier == 'quick' else tuple(range(60, 70)) + tuple(range(124, 134)) + (1, 200, 256)):
            inst.append(Instance(f'prfplus prf={prf_id} size=40 keylen={klen}', h_prfplus, (prf_id, klen, 24, 40)))
        # SKEYSEED = prf(Ni | Nr, g^ir): nonce pairs whose concatenation is exactly one block / one byte more / less
        for (a, b) in ((32, 32), (31, 32), (33, 32), (64, 64), (64, 65), (16, 48), (256, 256)):
            if tier == 'quick' and (a, b) in ((31, 32), (64, 65), (16, 48)):
                continue
            inst.append(Instance(f'ike keys prf={prf_id} integ=12 keylen=256 rekey=False initiator=True nonces={a}+{b}', h_ike_keys,
                                 (prf_id, 12, 256, False, True, a, b)))
    for prf_id in PRFS:
        for integ_id in INTEG:
            for keylen in (128, 256):
                for rekey in (False, True):
                    for init in (False, True):
                        if tier == 'quick' and (prf_id, integ_id, keylen) not in ((2, 2, 128), (5, 12, 256), (7, 14, 256), (5, 2, 128)):
                            continue
                        inst.append(Instance(f'ike keys prf={prf_id} integ={integ_id} keylen={keylen} rekey={rekey} initiator={init}',
                                             h_ike_keys, (prf_id, integ_id, keylen, rekey, init, 16 if tier == 'quick' else 32)))
                for proto in (2, 3):
                    for dh in (False, True):
                        if tier == 'quick' and (prf_id, integ_id) not in ((2, 2), (5, 12), (7, 14), (5, 14)):
                            continue
                        inst.append(Instance(f'child keys prf={prf_id} integ={integ_id} keylen={keylen} proto={proto} dh={dh}',
                                             h_child_keys, (prf_id, integ_id, keylen, proto, dh)))
    return inst


HANDSHAKES = {'quick': (('default', 'init+new@B'), ('pfs', 'init+rekey@B'), ('pfs', 'init+new@A'), ('default', 'init+ike@B+rekey@B+new@A'),
                        ('pfs', 'init+cross@newxnew'), ('ah_tunnel', 'init+ike@A+new@A+new@B'), ('prf_change', 'init+ike@B+rekey@B+new@A'),
                        ('prf_change', 'init+ike@A+ike@B+new@B')),
              'thorough': None}


def handshake_instances(tier):
    """which nonces, SPIs, g^ir and SK_d the REAL exchanges feed into the derivation: the two-endpoint symbolic handshake of C01 with the RFC
    oracles only (keys installed = RFC 7296 2.17 slices over the EXCHANGE initiator's/responder's nonces; keyrings = 2.14 / 2.18)"""
    from . import c01
    combos = HANDSHAKES[tier]
    if combos is None:
        combos = [(su, sc) for su in ('default', 'subset', 'pfs', 'pfs384', 'ah_tunnel', 'child_dh_retry', 'prf_change') for sc in c01.SCENARIOS
                  if 'cross' not in sc or su in ('default', 'pfs', 'ah_tunnel')]
    return [Instance(f'handshake {su} {sc}', c01.h_scenario, (su, sc, True), native=common.native_of(c01.h_scenario), engine_kw={'max_ticks': 10 ** 7},
                     must_reach=[('completed', lambda o: o[0] == 'scenario' and len(o) == 2)]) for su, sc in combos]


def replay_file(path):
    """native differential with the real HMAC on the concrete witness"""
    global MODS
    if json.load(open(path))['instance'].startswith('handshake'):
        from . import c01
        return common.generic_replay_file(path, lambda: handshake_instances('thorough') + handshake_instances('quick'), lambda: c01._load(False))
    if json.load(open(path))['instance'].startswith(('sequence:', 'MODP primes')):
        def _ld():
            global MODS
            MODS = common.load_repo(shim=False)
        return common.generic_replay_file(path, lambda: build_instances('thorough') + build_instances('quick'), _ld)
    MODS = common.load_repo(shim=False)
    import hmac
    m, c, ik = MODS['message'], MODS['crypto'], MODS['ikesa']
    v = json.load(open(path))
    name, inp = v['instance'], v['inputs']
    T = m.Transform
    kv = dict(x.split('=') for x in name.split() if '=' in x)
    kv.setdefault('keylen', '256')
    h, pk = PRFS[int(kv['prf'])] if 'prf' in kv else (None, None)
    hx = lambda k: bytes.fromhex(inp[k])

    def P(k, d): return hmac.new(k, d, h).digest()

    def PP(k, s, n):
        out, t, i = b'', b'', 1
        while len(out) < n:
            t = P(k, t + s + bytes([i])); out += t; i += 1
        return out[:n]
    if name.startswith('DH group'):
        # native differential on the real library: widths, agreement of the two sides, and a search for a shared secret with a leading zero
        # octet (1 in 256 peer values) whose encoding must keep the length of the modulus
        g = int(name.split()[2])
        gid = m.Transform.DhId(g)
        klen = (RFC3526_GROUP[g] // 8) if g in RFC3526_GROUP else RFC5903[g][2]
        bad = []
        d1, d2 = c.DiffieHellman.from_group(gid), c.DiffieHellman.from_group(gid)
        want_pub = klen if g in RFC3526_GROUP else 2 * klen
        if len(d1.public_key) != want_pub:
            bad.append(f'public value has {len(d1.public_key)} octets, expected {want_pub}')
        d1.compute_secret(d2.public_key); d2.compute_secret(d1.public_key)
        if d1.shared_secret != d2.shared_secret:
            bad.append('the two sides derive different secrets')
        if g in RFC3526_GROUP:
            for i in range(2, 2 + (4000 if g == 14 else 1500)):
                try:
                    d1.compute_secret(i.to_bytes(klen, 'big'))
                except Exception:      # noqa - small subgroup / range checks of the implementation
                    continue
                if len(d1.shared_secret) != klen:
                    bad.append(f'peer value {i}: the shared secret has {len(d1.shared_secret)} octets, the modulus {klen}')
                    break
        elif len(d1.shared_secret) != klen:
            bad.append(f'shared secret has {len(d1.shared_secret)} octets, expected {klen}')
        if g in RFC5903:
            # the public value is a point of the curve RFC 5903 assigns to the group (checked with the library's own named curve)
            from cryptography.hazmat.primitives.asymmetric import ec as _ec
            ref = {'secp256r1': _ec.SECP256R1, 'secp384r1': _ec.SECP384R1, 'secp521r1': _ec.SECP521R1}[RFC5903[g][0]]()
            x, y = int.from_bytes(d1.public_key[:klen], 'big'), int.from_bytes(d1.public_key[klen:], 'big')
            try:
                _ec.EllipticCurvePublicNumbers(x, y, ref).public_key()
            except ValueError:
                bad.append(f'the public value of group {g} is not a point of {RFC5903[g][0]} (RFC 5903)')
        print('native:', bad or 'no deviation')
        return 1 if bad else 0
    if name.startswith('prfplus'):
        got = c.Prf(T(2, int(kv['prf']))).prfplus(hx('key'), hx('seed'), int(kv['size']))
        return 0 if got == PP(hx('key'), hx('seed'), int(kv['size'])) else 1
    if name.startswith('ike keys'):
        keylen, integ_id = int(kv['keylen']), int(kv['integ'])
        prop = m.Proposal(1, 1, b'', [T(1, 12, keylen), T(3, integ_id), T(2, int(kv['prf'])), T(4, 14)])
        init, rekey = kv['initiator'] == 'True', kv['rekey'] == 'True'
        fake = types.SimpleNamespace(is_initiator=init, log_debug=lambda *a: None, my_crypto=None, peer_crypto=None)
        old = hx('old_sk_d') if rekey else None
        kr = ik.IkeSa.generate_ike_sa_key_material(fake, prop, hx('ni'), hx('nr'), hx('spi_i'), hx('spi_r'), hx('g_ir'), old)
        seed = P(old, hx('g_ir') + hx('ni') + hx('nr')) if rekey else P(hx('ni') + hx('nr'), hx('g_ir'))
        ikl, ekl = INTEG[integ_id], keylen // 8
        km = PP(seed, hx('ni') + hx('nr') + hx('spi_i') + hx('spi_r'), 3 * pk + 2 * ikl + 2 * ekl)
        o, want = 0, []
        for n in (pk, ikl, ikl, ekl, ekl, pk, pk):
            want.append(km[o:o + n]); o += n
        ok = tuple(kr) == tuple(want)
        mine = (want[3], want[1], want[5]) if init else (want[4], want[2], want[6])
        ok = ok and (fake.my_crypto.sk_e, fake.my_crypto.sk_a, fake.my_crypto.sk_p) == mine
        return 0 if ok else 1
    keylen, integ_id, proto = int(kv['keylen']), int(kv['integ']), int(kv['proto'])
    trs = [T(3, integ_id), T(5, 0)] + ([T(1, 12, keylen)] if proto == 3 else [])
    prop = m.Proposal(1, proto, b'\1\2\3\4', trs)
    keyseed = (hx('g_ir') if kv['dh'] == 'True' else b'') + hx('ni') + hx('nr')
    prf = c.Prf(T(2, int(kv['prf'])))
    ike_integ = c.Integrity(T(3, 14 if integ_id != 14 else 2))
    ike_cipher = c.Cipher(T(1, 12, 128 if keylen == 256 else 256))
    fake = types.SimpleNamespace(my_crypto=c.Crypto(ike_cipher, b'e' * ike_cipher.key_size, ike_integ, b'a' * ike_integ.key_size, prf, b'p' * pk),
                                 peer_crypto=c.Crypto(ike_cipher, b'E' * ike_cipher.key_size, ike_integ, b'A' * ike_integ.key_size, prf, b'P' * pk),
                                 log_debug=lambda *a: None, is_initiator=True, ike_sa_keyring=None, chosen_proposal=None, configuration=None)
    kr = ik.IkeSa.generate_child_sa_key_material(fake, prop, keyseed, hx('sk_d'))
    ikl, ekl = INTEG[integ_id], (keylen // 8 if proto == 3 else 0)
    km = PP(hx('sk_d'), keyseed, 2 * ikl + 2 * ekl)
    want = (km[0:ekl], km[ekl:ekl + ikl], km[ekl + ikl:2 * ekl + ikl], km[2 * ekl + ikl:])
    return 0 if (kr.sk_ei, kr.sk_ai, kr.sk_er, kr.sk_ar) == want else 1


def main(tier, seed):
    global MODS
    from . import c01
    from symx import shims
    MODS = c01._load(True)
    c, ik = MODS['crypto'], MODS['ikesa']
    chk = Check('C04', tier, seed,
                functions=common.src_hash(c.Prf.prf, c.Prf.prfplus, ik.IkeSa.generate_ike_sa_key_material,
                                          ik.IkeSa.generate_child_sa_key_material, c.Integrity, c.Cipher.key_size),
                bounds={'DH': 'the 5 MODP prime literals vs the RFC 3526 formula (pi computed in integer arithmetic), generator 2, digits = bits/4; group -> curve '
                              'table vs RFC 5903; with the library numbers symbolic (any y < p, any x, y < 2^(8 key_len)): public value = fixed-width big-endian '
                              'encoding, compute_secret hands the library the big-endian integer(s) of the peer bytes; quick groups 14, 19, 21, thorough all 8',
                        'prf+': 'all keys (16/33 bytes) and seeds (24 bytes), output sizes quick: 11 boundary sizes, thorough: 0..329, 3 PRFs',
                        'IKE keys': 'all nonces (16+17 bytes; thorough 32+33), SPIs, 12-byte shared secret (leading zero octets included), '
                                    'initial and rekey (old SK_d), both roles; quick: 4 suites, thorough: 3 PRF x 3 INTEG x 2 key lengths',
                        'CHILD keys': 'ESP and AH, with and without a fresh DH secret',
                        'outside': 'hash / AES / modular exponentiation / EC arithmetic (C code in cryptography/OpenSSL); the width of the shared secret returned '
                                   'by the library exchange() (assumed fixed-width)',
                        'handshake': 'the real two-endpoint exchanges with every nonce, SPI, DH value symbolic (quick 6, thorough all C01 scenarios of 6 suites): the '
                                     'installed CHILD_SA keys are the 2.17 slices over [g^ir(new)] | Ni | Nr of the EXCHANGE initiator/responder and that IKE_SA\'s SK_d; '
                                     'IKE keyrings are 2.14 / 2.18 over the exchange\'s nonces, SPIs, g^ir of the KE values on the wire and the old SK_d'},
                assumptions=['the HASH function (SHA-1/SHA-256/SHA-512) is an uninterpreted function with functional consistency; HMAC is its RFC 2104 '
                             'construction, on the reference side transcribed in symx/shims.hmac_rfc2104, so code that builds HMAC itself from hashlib is comparable',
                             'the reference transcribes RFC 7296 2.13, 2.14, 2.17, 2.18 independently of the code under test'],
                stubs=['crypto.HMAC (UF)', 'ikesa.unpack', 'SymDict digest tables'])
    chk.run(handshake_instances(tier))          # HMAC as an uninterpreted function, both endpoints in one path
    shims.install_hash_level(MODS)              # from here on: HMAC = RFC 2104 over an uninterpreted hash
    chk.run(build_instances(tier))
    return chk.finish(replay=lambda v: common.native_replay_subprocess('C04', v))
