"""Symbolic randomness and a Diffie-Hellman model for the two-endpoint handshake harnesses (C01, C02).

* every os.urandom() of the real code (nonces, SPIs, IVs) returns fresh symbolic bytes (named rnd<k>_<n>);
* DiffieHellman.from_group() returns a model object: public value = fresh symbolic bytes of the group's size, shared secret =
  uninterpreted function of the two public values of the objects involved (commutative by construction: the pair is ordered by
  creation index); a public value that belongs to no model object (tampered KE) gives an unrelated fresh secret;
* in a concrete re-run (ReplayEngine) the real DiffieHellman classes and the given random bytes are used, so that the replay
  runs the real arithmetic.
HMAC and AES-CBC are the uninterpreted functions of symx.shims."""
from . import world

PUB_LEN = {14: 256, 15: 384, 16: 512, 17: 768, 18: 1024, 19: 64, 20: 96, 21: 132}
SECRET_LEN = {14: 256, 15: 384, 16: 512, 17: 768, 18: 1024, 19: 32, 20: 48, 21: 66}


class ModelDH:
    registry = []

    def __init__(self, group, eng):
        from symx import core
        self.group = group
        g = int(group)
        if g not in PUB_LEN:
            raise KeyError(group)
        self.idx = len(ModelDH.registry)
        self.key_len = SECRET_LEN[g]
        self.public_key = eng.sym_bytes(f'dhpub{self.idx}', PUB_LEN[g])
        self.shared_secret = None
        ModelDH.registry.append(self)

    def compute_secret(self, peer_public_key):
        from symx import core, shims
        peer = core.SymBytes.lift(peer_public_key)
        if len(peer) != len(core.SymBytes.lift(self.public_key)):
            raise ValueError('invalid public value length')
        other = None
        for o in ModelDH.registry:
            if o is not self and core.SymBytes.lift(o.public_key).key() == peer.key():
                other = o
        if other is None:
            self.shared_secret = DH_UNKNOWN(self.key_len, core.SymBytes.lift(self.public_key), peer)
            return
        a, b = (self, other) if self.idx < other.idx else (other, self)
        self.shared_secret = DH_UF(self.key_len, core.SymBytes.lift(a.public_key), core.SymBytes.lift(b.public_key))


DH_UF = None
DH_UNKNOWN = None
REAL_REG = []


class _Rec:
    """the real DiffieHellman object of a concrete world, remembering which peer value it was combined with"""

    def __init__(self, real):
        self._r, self.peer, self.secrets = real, None, {}
        REAL_REG.append(self)

    def __getattr__(self, name):
        return getattr(self._r, name)

    def compute_secret(self, peer_public_key):
        self.peer = bytes(peer_public_key)
        r = self._r.compute_secret(peer_public_key)
        # every combination this key pair was ever used in (an object may be reused).  The reference value g^ir is computed HERE from the private key
        # with the library, not read back from the object under test: an object that keeps an earlier secret must not feed the oracle
        self.secrets[self.peer] = self._independent(self.peer)
        return r

    def _independent(self, peer):
        try:
            from cryptography.hazmat.primitives.asymmetric import ec, dh
            pk = self._r._private_key
            if isinstance(pk, ec.EllipticCurvePrivateKey):
                n = (pk.key_size + 7) // 8
                pub = ec.EllipticCurvePublicNumbers(int.from_bytes(peer[:n], 'big'), int.from_bytes(peer[n:], 'big'), pk.curve).public_key()
                return bytes(pk.exchange(ec.ECDH(), pub))
            pub = dh.DHPublicNumbers(int.from_bytes(peer, 'big'), pk.parameters().parameter_numbers()).public_key()
            return bytes(pk.exchange(pub))
        except Exception:      # noqa - an invalid public value: whatever the object under test made of it
            return bytes(self._r.shared_secret)


def shared_from_wire(ke_a, ke_b):
    """g^ir for the two public values seen on the wire (the model's commutative function of the two key pairs)"""
    from symx import core
    if not ModelDH.registry:
        # concrete world: the real library's secret of the key pair that owns ke_a, combined with ke_b (or the other way round)
        ka, kb = bytes(ke_a), bytes(ke_b)
        for o in REAL_REG:
            for mine, other in ((ka, kb), (kb, ka)):
                if bytes(o.public_key) == mine and other in o.secrets:
                    return o.secrets[other]
        raise LookupError('no Diffie-Hellman object exchanged these two public values')
    objs = []
    for ke in (ke_a, ke_b):
        k = core.SymBytes.lift(ke).key()
        objs.append(next(o for o in ModelDH.registry if core.SymBytes.lift(o.public_key).key() == k))
    a, b = sorted(objs, key=lambda o: o.idx)
    return DH_UF(a.key_len, core.SymBytes.lift(a.public_key), core.SymBytes.lift(b.public_key))


def install(mods):
    """symbolic randomness + DH model into the /repo module namespaces (after world.load)"""
    from symx import core, shims
    global DH_UF, DH_UNKNOWN
    DH_UF, DH_UNKNOWN = shims.UF('dh'), shims.UF('dh_unknown')
    real_dh = mods['crypto'].DiffieHellman

    class DH:
        @classmethod
        def from_group(cls, group):
            eng = core.engine() if core.active() else None
            if eng is None or isinstance(eng, core.ReplayEngine) or world.ENV.urandom_hook is None:
                # concrete world (no symbolic randomness requested): the real Diffie-Hellman
                return _Rec(real_dh.from_group(group))
            if isinstance(group, core.SymInt):
                u = eng.unique_value(group)
                if u is None:
                    raise core.Unsupported('DH group is symbolic')
                group = u
            return ModelDH(group, eng)
    mods['ikesa'].DiffieHellman = DH
    return DH


def reset(env):
    """per path: fresh registry and the symbolic urandom hook"""
    from symx import core
    ModelDH.registry = []
    del REAL_REG[:]
    counter = [0]

    def urandom(n):
        if not core.active():
            return None
        eng = core.engine()
        counter[0] += 1
        return eng.sym_bytes(f'rnd{counter[0]}_{n}', n)
    env.urandom_hook = urandom


class RecKernel:
    """kernel ghost that only records (SPIs and keys are symbolic: no dictionary keyed by SPI)"""

    def __init__(self):
        self.log = []
        self.sad = {}
        self.fail_at = None
        self.n_req = 0

    def create_sa(self, src_selector, dst_selector, src_port, dst_port, spi, ip_proto, ipsec_proto, mode, src, dst,
                  enc_algorithm, sk_e, auth_algorithm, sk_a, lifetime=-1):
        self.log.append(dict(op='NEWSA', src_selector=src_selector, dst_selector=dst_selector, src_port=src_port, dst_port=dst_port, spi=spi,
                             ip_proto=ip_proto, ipsec_proto=ipsec_proto, mode=mode, src=src, dst=dst, enc_algorithm=enc_algorithm, sk_e=sk_e,
                             auth_algorithm=auth_algorithm, sk_a=sk_a, lifetime=lifetime))

    def delete_sa(self, daddr, proto, spi):
        self.log.append(dict(op='DELSA', daddr=daddr, proto=proto, spi=spi))

    def flush_sas(self):
        self.log.append(dict(op='FLUSHSA'))

    def flush_policies(self):
        self.log.append(dict(op='FLUSHPOLICY'))

    def create_policy(self, *a, **k):
        self.log.append(dict(op='NEWPOLICY'))
