"""C16 - datagrams reach the right IKE_SA and the IKE_SA table stays exact.
One step of the real IkeSaController.dispatch_message / process_expire on a table of several IKE_SAs in different protocol
states (built by driving real initiators against the real controller).  Symbolic: both header SPIs, flags byte, exchange
type, Message ID of an authentic datagram; the SPI and hard flag of a kernel expiry.  Oracle: the IkeSa.process_message
that runs belongs to the entry whose local SPI equals the header SPI selected by the initiator flag; an IKE_SA_INIT request
creates exactly one responder entry; no match -> nothing changes; table invariant afterwards (no duplicate, no DELETED or
stillborn entry, successor listed exactly once, removed IKE_SAs leave no kernel SA); retransmitted rekey/delete messages
do not change the table twice; the status report lists exactly the table."""
import json
import types

from . import common, world, c08
from .common import Instance, Check

MODS = None

LAYOUTS = {
    # name -> list of (entry kind) ; every kind is produced by its own initiator
    'mixed': ('half_open', 'established', 'rekeyed'),
    'busy': ('established', 'del_child_sent', 'established'),
    'single': ('established',),
    'rekeyed_done': ('rekeyed_deleted', 'established'),
    'rekey_failed': ('rekey_failed', 'established'),
    'successor_gone': ('rekeyed_successor_deleted', 'established'),
}


def build(layout):
    c = world.Ctl()
    S = MODS['ikesa'].IkeSa.State
    for kind in LAYOUTS[layout]:
        ep = c.new_initiator()
        ep.kind = kind
        if kind == 'half_open':
            c.handshake(ep, upto=2)
        else:
            c.handshake(ep, upto=4)
        if kind == 'rekeyed':
            c.rekey_ike(ep)
        elif kind == 'rekeyed_deleted':
            c.rekey_ike(ep, deliver_delete=True)
        elif kind == 'rekeyed_successor_deleted':
            # rekey completed at the controller (old entry REKEYED, successor listed) but the delete of the OLD IKE_SA never arrives; meanwhile the
            # initiator deletes the SUCCESSOR through a delete exchange on the new IKE_SA
            c.rekey_ike(ep)
            a2 = ep.obj.new_ike_sa
            world.ENV.now = a2.delete_ike_sa_at + 3600
            dreq = ep.call(a2.check_rekey_ike_sa_timer)
            dres = c.dispatch(dreq)
            ep.call(a2.process_message, dres)
            assert ep.entry.state == S.REKEYED and ep.entry.new_ike_sa not in c.ctl.ike_sas
        elif kind == 'rekey_failed':
            # the controller's own IKE_SA rekey attempt is refused with TEMPORARY_FAILURE (the peer was busy with its own DPD exchange)
            e, a = ep.entry, ep.obj
            world.ENV.now = a.start_dpd_at + 3600
            dreq = ep.call(a.check_dead_peer_detection_timer)
            world.ENV.now = e.rekey_ike_sa_at + 10
            with c.E:
                rreq = e.check_rekey_ike_sa_timer()
            tf = ep.call(a.process_message, rreq)
            assert c.dispatch(tf) is None and e.state == S.ESTABLISHED and e.new_ike_sa is not None
            dres = c.dispatch(dreq)
            assert ep.call(a.process_message, dres) is None and a.state == S.ESTABLISHED and len(e.child_sas) == 1
        elif kind == 'del_child_sent':
            e = ep.entry
            with c.E:
                ep.pending_from_ctl = e.process_expire(e.child_sas[0].inbound_spi, True)
    return c


def spy_table(c):
    """records which entry's process_message / process_expire ran (entries created during the step included)"""
    ran = []
    IkeSa = MODS['ikesa'].IkeSa
    real_pm, real_pe = IkeSa.process_message, IkeSa.process_expire

    def pm(self, data):
        ran.append(('message', self))
        return real_pm(self, data)

    def pe(self, spi, hard=False):
        ran.append(('expire', self))
        return real_pe(self, spi, hard)
    IkeSa.process_message, IkeSa.process_expire = pm, pe
    return ran, (real_pm, real_pe)


def unspy(saved):
    IkeSa = MODS['ikesa'].IkeSa
    IkeSa.process_message, IkeSa.process_expire = saved


def status_clauses(table):
    """what the status connection of main_loop does with the table (json.dumps of every to_dict()): the reply exists and lists exactly the table"""
    import json as _json
    try:
        rep = _json.loads(_json.dumps([x.to_dict() for x in table]))
    except Exception as ex:     # noqa
        return [f'the status query cannot be answered for this table: {type(ex).__name__}: {ex}']
    try:
        same = [x['my_spi'] for x in rep] == [e.my_spi.hex() for e in table] and [x['state'] for x in rep] == [e.state.name for e in table] and \
            [len(x['child_sas']) for x in rep] == [len(e.child_sas) for e in table] and [x['is_initiator'] for x in rep] == [e.is_initiator for e in table]
    except Exception as ex:     # noqa
        return [f'the status report lacks a field: {type(ex).__name__}: {ex}']
    return [] if same else ['the status report differs from the table (SPIs, role, state, CHILD_SAs)']


def table_invariant(c, pre_kernel_keys=None):
    """-> list of violated clauses (concrete: the table holds objects and enum states)"""
    S = MODS['ikesa'].IkeSa.State
    t = c.ctl.ike_sas
    bad = []
    if len(set(map(id, t))) != len(t):
        bad.append('an IKE_SA is listed twice')
    for e in t:
        if e.state == S.DELETED:
            bad.append('an IKE_SA in state DELETED is still listed')
        if e.state == S.INITIAL and not e.is_initiator:
            bad.append('a responder IKE_SA that never left INITIAL is still listed (it can never be reached again)')
        if e.state == S.INITIAL and e.is_initiator:
            bad.append('an initiator IKE_SA that never sent its first request is listed (a successor prepared for a rekey that was refused: no peer knows it, '
                       'nothing will ever remove it)')
        if e.state in (S.REKEYED, S.DEL_AFTER_REKEY_IKE_SA_REQ_SENT) and e.new_ike_sa not in t and e.new_ike_sa.state != S.DELETED:
            bad.append('the IKE_SA created by rekey is not listed')
    # kernel SAs == CHILD_SAs of the listed IKE_SAs
    want = set()
    for e in t:
        for ch in e.child_sas:
            proto = 50 if ch.proposal.protocol_id == MODS['message'].Proposal.Protocol.ESP else 51
            want.add(world.Kernel.key(e.peer_addr, proto, ch.outbound_spi))
            want.add(world.Kernel.key(e.my_addr, proto, ch.inbound_spi))
    have = set(c.E.kernel.sad)
    if have != want:
        bad.append(f'kernel SAD differs from the CHILD_SAs of the listed IKE_SAs (+{len(have - want)} / -{len(want - have)})')
    return bad + status_clauses(t)


def h_route(layout, sender_idx, kind):
    """an authentic datagram of initiator `sender_idx` with arbitrary SPIs/flags/exchange/ID is dispatched"""
    from symx import core
    eng = core.engine()
    S = MODS['ikesa'].IkeSa.State
    c = build(layout)
    ep = c.initiators[sender_idx]
    a = ep.obj
    # the datagram: something the initiator really sends in its situation
    if kind == 'init_req':
        d0, crypto = bytes(a.ike_sa_init_req_data), None
    elif kind == 'last':
        d0 = bytes(ep.last_sent if ep.kind == 'half_open' else (ep.rekey_delete if ep.kind == 'rekeyed' else ep.last_sent))
        crypto = a.my_crypto if d0[16] == 46 else None
    elif kind == 'del_ike':
        if a.state != S.ESTABLISHED:
            return ['n/a']
        world.ENV.now = a.delete_ike_sa_at + 3600
        d0 = bytes(ep.call(a.check_rekey_ike_sa_timer))
        crypto = a.my_crypto
    else:   # dpd from the live IKE_SA of that initiator
        live = a.new_ike_sa if ep.kind in ('rekeyed_deleted',) else a
        if live.state != S.ESTABLISHED:
            return ['n/a']
        world.ENV.now = live.start_dpd_at + 3600
        d0 = bytes(ep.call(live.check_dead_peer_detection_timer))
        crypto = live.my_crypto
    spi_i, spi_r = eng.sym_bytes('spi_i', 8), eng.sym_bytes('spi_r', 8)
    exch = eng.sym_int('exch', 0, 255)
    flags = eng.sym_int('flags', 0, 255)
    mid = eng.sym_int('mid', 0, 0xFFFFFFFF)
    d = world.restamp(d0, crypto, spi_i=spi_i, spi_r=spi_r, exchange=exch, flags=flags, mid=mid)
    table0 = list(c.ctl.ike_sas)
    if crypto is not None:
        # axiom: a checksum computed under one key does not verify under another key (entries other than the sender's)
        for e in table0:
            if e.peer_crypto is not None and bytes(e.peer_crypto.sk_a) != bytes(crypto.sk_a):
                n = e.peer_crypto.integrity.hash_size
                dd = core.SymBytes.lift(d)
                eng.assume(core.SymBytes.lift(e.peer_crypto.integrity.compute(e.peer_crypto.sk_a, dd[:-n])) != dd[-n:])
    spis0 = [e.my_spi for e in table0]
    snaps0 = [world.snapshot(e, c.E.kernel) for e in table0]
    ran, saved = spy_table(c)
    exc = None
    try:
        ret = c.dispatch(d)
    except MODS['message'].IkeSaError as ex:
        ret, exc = None, ex
    finally:
        unspy(saved)
    table1 = list(c.ctl.ike_sas)
    is_init_req = core.sym_and(exch == 34, (flags & 0x20) == 0)
    my_spi_is = lambda s: core.sym_or(core.sym_and((flags & 0x08) != 0, spi_r == s), core.sym_and((flags & 0x08) == 0, spi_i == s))
    P = eng.prove
    routed = [e for what, e in ran if what == 'message']
    new = [e for e in table1 if not any(e is x for x in table0)]
    cls = ['route', 'none' if not routed else ('new' if not any(routed[0] is x for x in table0) else 'entry'),
           'raised' if exc is not None else ('reply' if ret is not None else 'silent')]
    if len(routed) > 1:
        return {'class': cls, 'violation': 'one datagram was processed by more than one IKE_SA'}
    if routed and not any(routed[0] is x for x in table0):
        e = routed[0]
        P(is_init_req, 'a new IKE_SA was created for a datagram that is not an IKE_SA_INIT request')
        if e.is_initiator or e.my_addr != world.IP2 or e.peer_addr != world.IP1:
            return {'class': cls, 'violation': 'the IKE_SA created for an IKE_SA_INIT request is not a responder for the configured address pair'}
        P(e.peer_spi == spi_i, 'the new responder IKE_SA does not record the initiator SPI of the request')
    elif routed:
        j = [i for i, x in enumerate(table0) if x is routed[0]][0]
        P(core.sym_and(core.sym_not(is_init_req), my_spi_is(spis0[j]), *[core.sym_not(my_spi_is(spis0[i])) for i in range(j)]),
          'the datagram was handed to an IKE_SA whose local SPI is not the header SPI selected by the initiator flag')
    else:
        P(core.sym_and(core.sym_not(is_init_req), *[core.sym_not(my_spi_is(s)) for s in spis0]),
          'a datagram addressed to a listed IKE_SA (or an IKE_SA_INIT request) was not handed to any IKE_SA')
        if ret is not None or exc is not None:
            return {'class': cls, 'violation': 'a datagram for an unknown SPI produced a reply or an error'}
        if len(table1) != len(table0) or any(x is not y for x, y in zip(table0, table1)):
            return {'class': cls, 'violation': 'a datagram for an unknown SPI changed the IKE_SA table'}
        for e, s0 in zip(table0, snaps0):
            diff, terms = world.snap_diff(s0, world.snapshot(e, c.E.kernel))
            if diff or terms:
                P(core.sym_and(not diff, *[t for _, t in terms]), f'a datagram for an unknown SPI changed an IKE_SA ({diff})')
    # entries other than the addressed one are never touched
    for e, s0 in zip(table0, snaps0):
        if routed and e is routed[0]:
            continue
        if e.new_ike_sa is not None and routed and routed[0] is e.new_ike_sa:
            continue
        diff, terms = world.snap_diff(s0, world.snapshot(e, c.E.kernel))
        diff = [k for k in diff if k not in ('klog', 'sad')]
        if diff:
            return {'class': cls, 'violation': f'dispatching a datagram changed another IKE_SA ({diff})'}
    if exc is None:
        bad = table_invariant(c)
        if bad:
            return {'class': cls, 'violation': 'table invariant: ' + '; '.join(bad)}
    else:
        bad = [b for b in table_invariant(c) if 'INITIAL' in b or 'twice' in b]
        if bad:
            return {'class': cls, 'violation': 'table invariant after a rejected datagram: ' + '; '.join(bad)}
    return cls


def h_expire(layout):
    """kernel expiry with an arbitrary SPI and hard flag"""
    from symx import core
    eng = core.engine()
    c = build(layout)
    spi = eng.sym_bytes('spi', 4)
    hard = eng.sym_bool('hard')
    table0 = list(c.ctl.ike_sas)
    owners = []
    for e in table0:
        for ch in e.child_sas:
            owners.append((e, ch.inbound_spi, ch.outbound_spi))
    ran, saved = spy_table(c)
    try:
        exp = types.SimpleNamespace(state=types.SimpleNamespace(id=types.SimpleNamespace(spi=spi)), hard=hard)
        with c.E:
            req, my_addr, peer_addr = c.ctl.process_expire(exp)
    finally:
        unspy(saved)
    P = eng.prove
    got = [e for what, e in ran if what == 'expire']
    owns = lambda e: core.sym_or(*[core.sym_or(spi == i, spi == o) for (x, i, o) in owners if x is e]) if any(x is e for x, _, _ in owners) else False
    if got:
        e = got[0]
        P(owns(e), 'a kernel expiry was handed to an IKE_SA that does not own the expiring SPI')
        first = [x for x in table0 if any(y is x for y, _, _ in owners)]
        for x in first:
            if x is e:
                break
            P(core.sym_not(owns(x)), 'expiry handed to a later IKE_SA although an earlier one owns the SPI')
    else:
        P(core.sym_not(core.sym_or(*[owns(e) for e in table0])) if table0 else True, 'expiry for an owned SPI was dropped')
        if req is not None:
            return {'class': ['expire', 'none'], 'violation': 'expiry for an unknown SPI produced a request'}
    bad = table_invariant(c)
    if bad:
        return {'class': ['expire'], 'violation': 'table invariant: ' + '; '.join(bad)}
    return ['expire', 'entry' if got else 'none', 'request' if req is not None else 'silent']


def h_retransmit(scenario, copies):
    """every duplication pattern of the rekey / delete messages (concrete schedules, symbolic Message ID of the copies is
    the genuine one): the successor is registered exactly once, ended IKE_SAs are removed once, kernel SAs follow"""
    from symx import core
    eng = core.engine()
    S = MODS['ikesa'].IkeSa.State
    c = world.Ctl()
    ep = c.new_initiator()
    c.handshake(ep, upto=4)
    other = c.new_initiator()
    a = ep.obj
    world.ENV.now = a.rekey_ike_sa_at + 10
    req = ep.call(a.check_rekey_ike_sa_timer)
    res = None
    for i in range(copies[0]):
        res = c.dispatch(req)
        if scenario == 'interleaved' and i == 0:
            c.handshake(other, upto=2)         # an unrelated half-open IKE_SA appears between the copies
        bad = table_invariant(c)
        if bad:
            return {'class': ['retransmit'], 'violation': f'after copy {i + 1} of the rekey request: ' + '; '.join(bad)}
    dele = ep.call(a.process_message, res)
    r = None
    for i in range(copies[1]):
        r = c.dispatch(dele)
        bad = table_invariant(c)
        if bad:
            return {'class': ['retransmit'], 'violation': f'after copy {i + 1} of the delete request: ' + '; '.join(bad)}
    live = [e for e in c.ctl.ike_sas if e.state == S.ESTABLISHED]
    if copies[1] and (len(live) != 1 or len(live[0].child_sas) != 1):
        return {'class': ['retransmit'], 'violation': f'after rekey and delete the controller holds {len(live)} established IKE_SAs'}
    # the status report lists exactly the table
    rep = [x.to_dict() for x in c.ctl.ike_sas]
    if [x['my_spi'] for x in rep] != [e.my_spi.hex() for e in c.ctl.ike_sas] or \
            [x['state'] for x in rep] != [e.state.name for e in c.ctl.ike_sas] or \
            [len(x['child_sas']) for x in rep] != [len(e.child_sas) for e in c.ctl.ike_sas] or \
            [x['is_initiator'] for x in rep] != [e.is_initiator for e in c.ctl.ike_sas]:
        return {'class': ['retransmit'], 'violation': 'status report differs from the table'}
    return ['retransmit', len(c.ctl.ike_sas)]


def h_timeout(kind, n_children=1):
    """an IKE_SA of the table ends through the retransmission timeout INSIDE the real main_loop (unanswered DPD probe); afterwards an authentic datagram
    with its SPIs (the peer's own probe / arbitrary header fields) is a datagram for an unknown SPI: dropped, nothing changes, nothing raised"""
    from symx import core
    eng = core.engine()
    S = MODS['ikesa'].IkeSa.State
    c = world.Ctl()
    ep, other = c.new_initiator(), c.new_initiator()
    c.handshake(ep, upto=4)
    c.handshake(other, upto=4)
    e = ep.entry
    a = ep.obj
    TS = MODS['message'].TrafficSelector
    from ipaddress import ip_network
    for i in range(n_children - 1):
        q = ep.call(a.process_acquire, TS.from_network(ip_network('192.168.0.1/32'), 9100 + i, TS.IpProtocol.TCP), TS.from_network(ip_network('192.168.0.2/32'), 23, TS.IpProtocol.TCP), 1)
        ep.call(a.process_message, c.dispatch(q))
    if len(e.child_sas) != n_children:
        return {'class': ['timeout'], 'violation': f'set-up: {len(e.child_sas)} CHILD_SAs instead of {n_children}'}
    # the peer's own probe reaches the controller first (every IKE_SA has been looked up by SPI at least once) ...
    world.ENV.now = a.start_dpd_at + 3600
    probe = bytes(ep.call(a.check_dead_peer_detection_timer))
    c.dispatch(probe)
    # ... then the peer goes silent: the controller probes, retransmits and gives up, all inside main_loop
    e.start_dpd_at = world.ENV.now - 1
    lp = world.Loop(c.E, tick_s=1)
    lp.run([{'kind': 'tick'} for _ in range(30)])
    if any(x is e for x in c.ctl.ike_sas) or e.state != S.DELETED:
        return {'class': ['timeout'], 'violation': f'30 s after an unanswered probe the IKE_SA is still listed / in state {e.state.name}'}
    bad = table_invariant(c) + world.sad_invariant(c.ctl, c.E.kernel)
    if bad:
        return {'class': ['timeout'], 'violation': 'after the retransmission timeout: ' + '; '.join(bad)}
    # a late datagram with the old SPIs
    if kind == 'probe':
        d0, crypto = probe, a.my_crypto
    else:
        d0, crypto = bytes(a.request.to_bytes()) if False else probe, a.my_crypto
    exch, flags, mid = eng.sym_int('exch', 0, 255), eng.sym_int('flags', 0, 255), eng.sym_int('mid', 0, 0xFFFFFFFF)
    eng.assume(core.sym_not(core.sym_and(exch == 34, (flags & 0x20) == 0)))        # an IKE_SA_INIT request creates a new IKE_SA by design
    d = world.restamp(d0, crypto, exchange=exch, flags=flags, mid=mid)
    table0 = list(c.ctl.ike_sas)
    snaps0 = [world.snapshot(x, c.E.kernel) for x in table0 + [e]]
    try:
        ret = c.dispatch(d)
    except Exception as ex:      # noqa
        return {'class': ['timeout'], 'violation': f'a datagram for the SPI of an IKE_SA removed by the retransmission timeout raised {type(ex).__name__}: {ex}'}
    if ret is not None:
        return {'class': ['timeout'], 'violation': 'a datagram for the SPI of an IKE_SA removed by the retransmission timeout was answered'}
    if len(c.ctl.ike_sas) != len(table0) or any(x is not y for x, y in zip(c.ctl.ike_sas, table0)):
        return {'class': ['timeout'], 'violation': 'a datagram for an unknown SPI changed the table'}
    for x, s0 in zip(table0 + [e], snaps0):
        diff, terms = world.snap_diff(s0, world.snapshot(x, c.E.kernel))
        if diff:
            return {'class': ['timeout'], 'violation': f'a datagram for the SPI of a removed IKE_SA changed an IKE_SA object: {diff}'}
        if terms:
            eng.prove(core.sym_and(*[t for _, t in terms]), f'a datagram for the SPI of a removed IKE_SA changed an IKE_SA object: {[k for k, _ in terms]}')
    return ['timeout', 'dropped']


def h_loop_addresses():
    """the REAL main_loop of a daemon that listens on TWO addresses (one connection per address): IKE_SA_INIT requests arrive on either address in
    an arbitrary order, with a status query at an arbitrary point in between; each creates a responder IKE_SA for the address pair it arrived
    on, the reply leaves from the arrival address, and the status report lists exactly the table"""
    import copy
    import json as _json
    from symx import core
    from ipaddress import ip_address
    eng = core.engine()
    cf, ic, ik, m = MODS['configuration'], MODS['ikesacontroller'], MODS['ikesa'], MODS['message']
    S = ik.IkeSa.State
    world.ENV.reset()
    IP3, IP4 = ip_address('192.168.0.3'), ip_address('192.168.0.4')
    d = world.conf_dict()
    d2 = copy.deepcopy(d)
    d['alice2'], d['bob2'] = copy.deepcopy(d['alice']), copy.deepcopy(d['bob'])
    d['alice2'].update(my_addr=str(IP4), peer_addr=str(IP3))
    d['bob2'].update(my_addr=str(IP3), peer_addr=str(IP4))
    conf = cf.Configuration([world.IP1, world.IP2, IP3, IP4], d)
    E = world.Endpoint('D', None)
    with E:
        ctl = ic.IkeSaController(my_addrs=[world.IP2, IP3], configuration=conf)
    E.obj = ctl
    TS = m.TrafficSelector
    from ipaddress import ip_network

    def init_req(src, dst):
        a = ik.IkeSa(is_initiator=True, peer_spi=b'\0' * 8, configuration=conf.get_ike_configuration(src, dst), my_addr=src, peer_addr=dst)
        ep = world.Endpoint('I', a)
        return a, ep.call(a.process_acquire, TS.from_network(ip_network(f'{src}/32'), 8765, TS.IpProtocol.TCP), TS.from_network(ip_network(f'{dst}/32'), 23, TS.IpProtocol.TCP), 1)
    order = []
    for i in range(3):
        c = eng.sym_int(f'arrives_on{i}', 0, 1)
        order.append(eng.concretize(c, 0, 1) if not isinstance(c, int) else c)
    q = eng.sym_int('status_query_before', 0, 3)
    qpos = eng.concretize(q, 0, 3) if not isinstance(q, int) else q
    events, sent = [], []
    for i, o in enumerate(order):
        if qpos == i:
            events.append({'kind': 'control'})
        src, dst = (world.IP1, world.IP2) if o == 0 else (IP4, IP3)
        a, req = init_req(src, dst)
        sent.append((a, src, dst))
        events.append({'kind': 'udp', 'dst': dst, 'src': str(src), 'data': bytes(req)})
    if qpos == 3:
        events.append({'kind': 'control'})
    lp = world.Loop(E)
    try:
        lp.run(events + [{'kind': 'tick'}])
    except Exception as ex:      # noqa
        return {'class': ['loop_addresses'], 'violation': f'main_loop terminated with {type(ex).__name__}: {ex}'}
    what = f'requests arriving on {["192.168.0.2" if o == 0 else "192.168.0.3" for o in order]}, status query before event {qpos}'
    for a, src, dst in sent:
        mine = [e for e in ctl.ike_sas if bytes(e.peer_spi) == bytes(a.my_spi)]
        if len(mine) != 1:
            return {'class': ['loop_addresses'], 'violation': f'{what}: {len(mine)} IKE_SAs for the request of {src} to {dst}'}
        e = mine[0]
        if e.my_addr != dst or e.peer_addr != src or e.is_initiator or e.state != S.INIT_RES_SENT:
            return {'class': ['loop_addresses'], 'violation': f'{what}: the request that arrived on {dst} from {src} created an IKE_SA for {e.my_addr} <- {e.peer_addr} '
                                                              f'in state {e.state.name}'}
        rep = [(s_, dst_) for s_, dst_, data in lp.outbox if bytes(data[0:8]) == bytes(a.my_spi)]
        if rep != [(str(dst), (str(src), 500))]:
            return {'class': ['loop_addresses'], 'violation': f'{what}: the reply to {src} -> {dst} left as {rep}'}
    if len(ctl.ike_sas) != 3:
        return {'class': ['loop_addresses'], 'violation': f'{what}: {len(ctl.ike_sas)} IKE_SAs in the table after 3 requests'}
    reports = [c_.sent for c_ in lp.conns]
    if len(reports) != 1 or len(reports[0]) != 1:
        return {'class': ['loop_addresses'], 'violation': f'{what}: {len(reports)} status connections answered'}
    rep = _json.loads(reports[0][0].decode())
    n_before = sum(1 for i in range(3) if i < qpos)
    if len(rep) != n_before:
        return {'class': ['loop_addresses'], 'violation': f'{what}: the status report lists {len(rep)} IKE_SAs, the table held {n_before}'}
    return ['loop_addresses', tuple(order), qpos]


def h_two_timeouts(order):
    """three IKE_SAs in the table: two towards peers that never answer (started by kernel ACQUIREs in the same second, so they are given up in the SAME
    sweep of main_loop) and an established one with a live peer, in the table order `order`: after the give-up exactly the two dead ones are gone
    (with their kernel SAs), the live one is untouched and still answers"""
    import copy
    from symx import core
    from ipaddress import ip_address, ip_network
    eng = core.engine()
    cf, ic, ik, m = MODS['configuration'], MODS['ikesacontroller'], MODS['ikesa'], MODS['message']
    S = ik.IkeSa.State
    world.ENV.reset()
    IP3, IP4 = ip_address('192.168.0.3'), ip_address('192.168.0.4')
    base = world.conf_dict()
    d = {}
    for k, (peer, idx) in enumerate(((world.IP1, 1), (IP3, 3), (IP4, 4))):
        c = copy.deepcopy(base['bob'])
        c.update(my_addr=str(world.IP2), peer_addr=str(peer))
        c['protect'][0].update(index=idx, peer_port=0)
        d[f'to{k}'] = c
        c2 = copy.deepcopy(base['alice'])
        c2.update(my_addr=str(peer), peer_addr=str(world.IP2))
        c2['protect'][0].update(index=10 + idx, peer_port=0)
        d[f'from{k}'] = c2
    conf = cf.Configuration([world.IP1, world.IP2, IP3, IP4], d)
    E = world.Endpoint('D', None)
    with E:
        ctl = ic.IkeSaController(my_addrs=[world.IP2], configuration=conf)
    E.obj = ctl
    TS = m.TrafficSelector
    live_peer = ik.IkeSa(is_initiator=True, peer_spi=b'\0' * 8, configuration=conf.get_ike_configuration(IP4, world.IP2), my_addr=IP4, peer_addr=world.IP2)
    LP = world.Endpoint('P4', live_peer)

    def live_handshake():
        x = LP.call(live_peer.process_acquire, TS.from_network(ip_network(f'{IP4}/32'), 8765, TS.IpProtocol.TCP), TS.from_network(ip_network(f'{world.IP2}/32'), 23, TS.IpProtocol.TCP), 14)
        for _ in range(4):
            with E:
                r = ctl.dispatch_message(x, world.IP2, IP4)
            x = LP.call(live_peer.process_message, r) if r is not None else None
            if x is None:
                break

    def dead(peer, idx):
        return {'kind': 'xfrm', 'data': world.acquire_bytes(world.IP2, peer, idx, sport=23, dport=7000 + idx)}
    events = []
    if order == 'live_last':
        events = [dead(world.IP1, 1), dead(IP3, 3)]
    elif order == 'live_first':
        live_handshake()
        events = [dead(world.IP1, 1), dead(IP3, 3)]
    else:
        events = [dead(world.IP1, 1)]
    lp = world.Loop(E, tick_s=0)
    lp.run(events)
    if order == 'live_last':
        live_handshake()
    elif order == 'live_middle':
        live_handshake()
        lp = world.Loop(E, tick_s=0)
        lp.run([dead(IP3, 3)])
    live = [e for e in ctl.ike_sas if e.peer_addr == IP4]
    if len(ctl.ike_sas) != 3 or len(live) != 1 or live[0].state != S.ESTABLISHED:
        return {'class': ['two_timeouts'], 'violation': f'set-up: table {[(str(e.peer_addr), e.state.name) for e in ctl.ike_sas]}'}
    live = live[0]
    live.start_dpd_at = world.ENV.now + 10 ** 6          # the live IKE_SA stays quiet during the sweep
    lp = world.Loop(E, tick_s=1)
    try:
        lp.run([{'kind': 'tick'} for _ in range(30)])
    except Exception as ex:      # noqa
        return {'class': ['two_timeouts'], 'violation': f'main_loop terminated with {type(ex).__name__}: {ex}'}
    states = [(str(e.peer_addr), e.state.name) for e in ctl.ike_sas]
    if [e for e in ctl.ike_sas if e is not live]:
        return {'class': ['two_timeouts'], 'violation': f'table order {order}: 30 s after two requests to silent peers the table still holds {states}'}
    if not any(e is live for e in ctl.ike_sas):
        return {'class': ['two_timeouts'], 'violation': f'table order {order}: giving up the two dead IKE_SAs also removed the established IKE_SA of a live peer (table {states})'}
    bad = table_invariant_ctl(ctl) + world.sad_invariant(ctl, E.kernel)
    if bad:
        return {'class': ['two_timeouts'], 'violation': f'table order {order}: ' + '; '.join(bad)}
    # the live peer still gets answers
    world.ENV.now = live_peer.start_dpd_at + 3600
    probe = LP.call(live_peer.check_dead_peer_detection_timer)
    with E:
        ans = ctl.dispatch_message(probe, world.IP2, IP4)
    if ans is None:
        return {'class': ['two_timeouts'], 'violation': f'table order {order}: the live peer no longer gets an answer to its liveness check'}
    return ['two_timeouts', order]


def table_invariant_ctl(ctl):
    S = MODS['ikesa'].IkeSa.State
    bad = []
    if len(set(id(e) for e in ctl.ike_sas)) != len(ctl.ike_sas):
        bad.append('an IKE_SA is listed twice')
    if any(e.state == S.DELETED for e in ctl.ike_sas):
        bad.append('an IKE_SA in state DELETED is still listed')
    return bad + status_clauses(ctl.ike_sas)


def build_instances(tier):
    inst = []
    nat = common.native_of
    for order in ('live_last', 'live_first', 'live_middle'):
        inst.append(Instance(f'two IKE_SAs given up in the same sweep, {order}', h_two_timeouts, (order,), native=nat(h_two_timeouts), engine_kw={'max_ticks': 10 ** 7},
                             must_reach=[('ok', lambda o: o[0] == 'two_timeouts')]))
    inst.append(Instance('main_loop listening on two addresses', h_loop_addresses, (), native=nat(h_loop_addresses), engine_kw={'max_ticks': 10 ** 7}))
    inst.append(Instance('late datagram after a retransmission timeout in main_loop', h_timeout, ('probe',), native=nat(h_timeout),
                         must_reach=[('dropped', lambda o: o == ['timeout', 'dropped'])]))
    for k in (2, 3):
        inst.append(Instance(f'retransmission timeout in main_loop of an IKE_SA with {k} CHILD_SAs', h_timeout, ('probe', k), native=nat(h_timeout),
                             must_reach=[('dropped', lambda o: o == ['timeout', 'dropped'])]))
    for layout, kinds in LAYOUTS.items():
        for idx in range(len(kinds)):
            for kind in ('dpd', 'last', 'init_req', 'del_ike'):
                if kind == 'del_ike' and kinds[idx] not in ('established', 'rekey_failed'):
                    continue
                if tier == 'quick' and layout in ('busy', 'rekeyed_done') and kind == 'init_req':
                    continue
                inst.append(Instance(f'route {layout} sender={idx} {kind}', h_route, (layout, idx, kind), native=nat(h_route)))
        inst.append(Instance(f'expire {layout}', h_expire, (layout,), native=nat(h_expire),
                             must_reach=[('owned', lambda o: o[:2] == ['expire', 'entry']), ('unknown', lambda o: o[:2] == ['expire', 'none'])]))
    for scenario in ('plain', 'interleaved'):
        for copies in ((1, 1), (2, 1), (3, 2), (1, 3), (2, 0)) if tier == 'quick' else [(i, j) for i in (1, 2, 3, 4) for j in (0, 1, 2, 3)]:
            inst.append(Instance(f'retransmit {scenario} copies={copies}', h_retransmit, (scenario, copies), native=nat(h_retransmit)))
    return inst


def _load(shim):
    global MODS
    MODS = world.load(shim=shim)
    c08.MODS = MODS
    return MODS


def replay_file(path):
    return common.generic_replay_file(path, lambda: build_instances('thorough') + build_instances('quick'), lambda: _load(False))


def main(tier, seed):
    _load(True)
    ic = MODS['ikesacontroller'].IkeSaController
    ik = MODS['ikesa'].IkeSa
    chk = Check('C16', tier, seed,
                functions=common.src_hash(ic.dispatch_message, ic.process_expire, ic._get_ike_sa_by_spi, ic._get_ike_sa_by_child_sa_spi,
                                          ik.process_message, ik.to_dict, ik.delete_child_sas, MODS['message'].Message.parse),
                bounds={'tables': '4 table layouts of 1-3 IKE_SAs (half-open, established, request outstanding, REKEYED with successor, '
                                  'rekeyed-and-deleted) built by real initiators against the real controller',
                        'datagram': 'authentic datagram of any initiator (DPD, last sent, IKE_SA_INIT request) with BOTH SPIs (2 x 64 bit), flags '
                                    'byte, exchange type byte and Message ID arbitrary',
                        'expiry': 'any 4-byte SPI, soft/hard',
                        'duplication': 'rekey request delivered 1..3 (thorough 1..4) times, delete request 0..3 times, with and without an '
                                       'unrelated IKE_SA_INIT in between - concrete schedules, enumerated',
                        'outside': 'tables larger than 3; timer-driven removal (C13); status query socket plumbing (C17)'},
                assumptions=['SPIs of distinct IKE_SAs are distinct (deterministic os.urandom stub)'],
                stubs=['crypto.HMAC (UF)', 'struct', 'enum lookup', 'kernel ghost', 'clock/randomness', 'ikesacontroller.bytes'])
    chk.run(build_instances(tier))
    return chk.finish(replay=lambda v: common.native_replay_subprocess('C16', v))
