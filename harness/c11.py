"""C11 - algorithm negotiation never selects anything outside both offers.
Symbolic: the identifier (16 bit) and key length (absent / 16 bit) of every transform of the peer's SA payload, the KE group,
the group suggested in INVALID_KE_PAYLOAD.  Enumerated: list shapes (which transform type sits in which slot).
(a) Proposal.intersection / IkeSa._select_best_sa_proposal against a set-theoretic reference: exactly one transform per type of
    the local policy, each present in both, first acceptable peer proposal, local preference order.
(b) one step of the real IkeSa: a responder never proceeds to Diffie-Hellman with a group other than the chosen one
    (INVALID_KE_PAYLOAD names the chosen group) and answers NO_PROPOSAL_CHOSEN (nothing installed) when there is no
    acceptable proposal; an initiator derives keys / installs SAs only if every transform of the response is in its own offer;
    a suggested group that was never offered is refused, an offered one is retried with exactly that group.
Messages are delivered as parsed objects (the codec is C05/C07's subject)."""
import json

from . import common, world, c08
from .common import Instance, Check

MODS = None


class Reached(BaseException):
    """the real code reached the point that means 'accepted' (key derivation / DH / kernel install)"""

    def __init__(self, what, info=None):
        self.what, self.info = what, info


def sym_transform(eng, name, ttype, with_keylen):
    """a Transform whose id (and key length) are arbitrary; built without the enum lookup of __init__ (ids compare as ints)"""
    from symx import core
    m = MODS['message']
    t = object.__new__(m.Transform)
    t.type = m.Transform.Type(ttype)
    v = eng.sym_int(f'{name}.id', 0, 0xFFFF)
    t.id = core.SymEnumVal(v.t) if not isinstance(v, int) else m.Transform._transform_id_enums[t.type](v)
    t.keylen = eng.sym_int(f'{name}.keylen', 1, 0xFFFF) if with_keylen else None
    return t


def t_key(t):
    return (int(t.type), t.id, t.keylen)


def t_eq(a, b):
    """(type, id, keylen) equality as a term"""
    from symx import core
    if a.type != b.type:
        return False
    if (a.keylen is None) != (b.keylen is None):
        return False
    return core.sym_and(a.id == b.id, True if a.keylen is None else (a.keylen == b.keylen))


def in_prop(t, prop):
    from symx import core
    cs = [t_eq(t, x) for x in prop.transforms]
    return core.sym_or(*cs) if cs else False


def ref_choice(my, peer):
    """set-theoretic reference: per type of `my` (in order of first occurrence) the list of (my transform, is-in-peer)"""
    out = {}
    for t in my.transforms:
        out.setdefault(t.type, []).append((t, in_prop(t, peer)))
    return out


def check_selection(eng, my, peer, result, label):
    """result: Proposal returned for (my, peer) or None"""
    from symx import core
    P = eng.prove
    ref = ref_choice(my, peer)
    if my.protocol_id != peer.protocol_id:
        if result is not None:
            return f'{label}: proposals of different protocols were intersected'
        return None
    acceptable = core.sym_and(*[core.sym_or(*[c for _, c in lst]) for lst in ref.values()])
    if result is None:
        P(core.sym_not(acceptable), f'{label}: an acceptable proposal was refused')
        return None
    P(acceptable, f'{label}: a proposal was chosen although some required transform type has no common transform')
    types = [t.type for t in result.transforms]
    if sorted(map(int, types)) != sorted(map(int, ref.keys())):
        return f'{label}: the chosen suite does not have exactly one transform of each type the local policy requires'
    for rt in result.transforms:
        lst = ref[rt.type]
        idx = [i for i, (t, _) in enumerate(lst) if t is rt]
        if not idx:
            # not one of the local objects: must still equal a local and a peer transform
            P(core.sym_and(in_prop(rt, my), in_prop(rt, peer)), f'{label}: a chosen transform is not present in both offers')
            continue
        i = idx[0]
        P(lst[i][1], f'{label}: a chosen transform is not in the peer proposal')
        P(core.sym_and(*[core.sym_not(c) for _, c in lst[:i]]) if i else True,
          f'{label}: the chosen transform is not the first acceptable one in local preference order')
    if result.num != peer.num or result.spi != peer.spi:
        return f'{label}: proposal number / SPI are not those of the chosen peer proposal'
    return None


SHAPES = {
    # local policy (concrete, as the configuration loader builds it) and the peer proposal slot types (ids symbolic)
    'ike_small': ('ike', [(1, True), (3, False), (2, False), (4, False)]),
    'ike_two_encr': ('ike2', [(1, True), (1, True), (3, False), (2, False), (4, False)]),
    'ike_two_dh': ('ike2', [(1, True), (3, False), (2, False), (4, False), (4, False)]),
    'ike_missing_integ': ('ike', [(1, True), (2, False), (4, False)]),
    'ike_nokeylen': ('ike', [(1, False), (3, False), (2, False), (4, False)]),
    'esp': ('esp', [(1, True), (3, False), (5, False)]),
    'esp_two_integ': ('esp2', [(1, True), (1, True), (3, False), (3, False), (5, False)]),
    'ah': ('ah', [(3, False), (5, False)]),
    'esp_extra': ('esp', [(1, True), (3, False), (5, False), (4, False)]),
    'esp_no_esn': ('esp', [(1, True), (3, False)]),
    'esp_no_integ': ('esp', [(1, True), (5, False)]),
    'esp_pfs': ('esp_pfs', [(1, True), (3, False), (5, False), (4, False)]),
    'esp_pfs_no_dh': ('esp_pfs', [(1, True), (3, False), (5, False)]),
    'ike_missing_dh': ('ike', [(1, True), (3, False), (2, False)]),
    'ike_missing_prf': ('ike', [(1, True), (3, False), (4, False)]),
}


def local_policy(kind):
    m = MODS['message']
    T, P = m.Transform, m.Proposal
    if kind == 'ike':
        return P(1, P.Protocol.IKE, b'', [T(1, 12, 256), T(3, 12), T(2, 5), T(4, 19)])
    if kind == 'ike2':
        return P(1, P.Protocol.IKE, b'', [T(1, 12, 256), T(1, 12, 128), T(3, 14), T(3, 12), T(2, 7), T(2, 5), T(4, 20), T(4, 19)])
    if kind == 'esp':
        return P(1, P.Protocol.ESP, b'', [T(1, 12, 256), T(3, 12), T(5, 0)])
    if kind == 'esp_pfs':
        return P(1, P.Protocol.ESP, b'', [T(1, 12, 256), T(3, 12), T(5, 0), T(4, 19)])
    if kind == 'esp2':
        return P(1, P.Protocol.ESP, b'', [T(1, 12, 256), T(1, 12, 128), T(3, 12), T(3, 2), T(5, 0)])
    if kind == 'ah':
        return P(1, P.Protocol.AH, b'', [T(3, 12), T(5, 0)])
    raise ValueError(kind)


def sym_proposal(eng, name, shape, num, spi, proto=None):
    m = MODS['message']
    kind, slots = SHAPES[shape]
    my = local_policy(kind)
    trs = [sym_transform(eng, f'{name}.t{i}', tt, kl) for i, (tt, kl) in enumerate(slots)]
    return m.Proposal(num, proto if proto is not None else my.protocol_id, spi, trs), my


def h_intersection(shape):
    from symx import core
    eng = core.engine()
    peer, my = sym_proposal(eng, 'peer', shape, 7, b'\x01\x02\x03\x04')
    res = my.intersection(peer)
    bad = check_selection(eng, my, peer, res, 'intersection')
    if bad:
        return {'class': ['intersection'], 'violation': bad}
    # subset test used by the initiator: response.is_subset(offer) => every response transform is in the offer
    sub = peer.is_subset(my)
    if not isinstance(sub, bool):
        sub = bool(sub)
    if sub:
        eng.prove(core.sym_and(*[in_prop(t, my) for t in peer.transforms]), 'is_subset accepted a proposal with a transform that was never offered')
    return ['intersection', res is not None, sub]


def h_select(shape, n_peer):
    from symx import core
    eng = core.engine()
    m = MODS['message']
    ik = MODS['ikesa'].IkeSa
    props, my = [], None
    for j in range(n_peer):
        p, my = sym_proposal(eng, f'p{j}', shape, j + 1, bytes([j + 1] * 4))
        props.append(p)
    sa = m.PayloadSA(props)
    try:
        res = ik._select_best_sa_proposal(None, my, sa)
    except m.NoProposalChosen:
        for p in props:
            bad = check_selection(eng, my, p, None, 'select')
            if bad:
                return {'class': ['select'], 'violation': bad}
        return ['select', 'none']
    j = [i for i, p in enumerate(props) if p.num == res.num]
    if len(j) != 1:
        return {'class': ['select'], 'violation': 'the chosen proposal carries no peer proposal number'}
    j = j[0]
    for p in props[:j]:
        bad = check_selection(eng, my, p, None, 'select (earlier proposal)')
        if bad:
            return {'class': ['select'], 'violation': 'a later peer proposal was chosen although an earlier one is acceptable'}
    bad = check_selection(eng, my, props[j], res, 'select')
    if bad:
        return {'class': ['select'], 'violation': bad}
    return ['select', j]


# ----------------------------------------------------------------------------- one step of the real IkeSa
def deliver_object(me, E, msg):
    """hand a prepared Message object to process_message (Message.parse returns it for the sentinel datagram)"""
    m = MODS['message']
    real = m.Message.__dict__['parse']
    sentinel = b'<object delivery>'

    def parse(cls, data, header_only=False, crypto=None):
        if data is sentinel:
            return msg
        return real.__func__(cls, data, header_only, crypto)
    m.Message.parse = classmethod(parse)
    try:
        return E.call(me.process_message, sentinel)
    finally:
        m.Message.parse = real


def deliver_object_ctl(ctl, E, msg, my_addr, peer_addr):
    """same at controller level: both the header parse and the full parse return the prepared object"""
    m = MODS['message']
    real = m.Message.__dict__['parse']
    sentinel = b'<object delivery>'

    def parse(cls, data, header_only=False, crypto=None):
        if data is sentinel:
            return msg
        return real.__func__(cls, data, header_only, crypto)
    m.Message.parse = classmethod(parse)
    try:
        with E:
            return ctl.dispatch_message(sentinel, my_addr, peer_addr)
    finally:
        m.Message.parse = real


def one_of_each(eng, resp_prop, offer, label):
    """slot types are concrete: the accepted suite must name every transform type of the offer and no other type, and one transform per type
    (the same transform listed twice is tolerated: it still names one algorithm)"""
    from symx import core
    want = sorted({int(t.type) for t in offer.transforms})
    have = sorted({int(t.type) for t in resp_prop.transforms})
    if have != want:
        return f'{label} accepted a response proposal with transform types {have}; the offer requires exactly one of each of {want}'
    for tt in want:
        same = [t for t in resp_prop.transforms if int(t.type) == tt]
        for x in same[1:]:
            eng.prove(t_eq(same[0], x), f'{label} accepted a response proposal with two different transforms of type {tt}')
    return None


def stop_at(obj, name, what):
    def stop(*a, **k):
        raise Reached(what, (a, k))
    setattr(obj, name, stop)


def h_init_response(shape):
    """initiator in INIT_REQ_SENT receives an IKE_SA_INIT response with an arbitrary proposal"""
    from symx import core
    eng = core.engine()
    m = MODS['message']
    S = MODS['ikesa'].IkeSa.State
    dh = ('ecp384', 'ecp256') if SHAPES[shape][0] == 'ike2' else ('ecp256',)
    p = world.Pair(dh_ike=dh)
    if SHAPES[shape][0] == 'ike2':
        p.confdict['alice'].update(encr=['aes256', 'aes128'], integ=['sha512', 'sha256'], prf=['sha512', 'sha256'])
        p.configuration = MODS['configuration'].Configuration([world.IP1, world.IP2], p.confdict)
        p.a.configuration = p.configuration.get_ike_configuration(world.IP1, world.IP2)
    m1 = p.init_req()
    a = p.a
    offer = a.chosen_proposal
    resp_prop, _ = sym_proposal(eng, 'resp', shape, 1, b'', proto=m.Proposal.Protocol.IKE)
    real_res = m.Message.parse(bytes(world_responder_answer(p, m1)))
    payloads = [m.PayloadSA([resp_prop])] + [x for x in real_res.payloads if x.type != m.Payload.Type.SA]
    msg = m.Message(spi_i=a.my_spi, spi_r=b'RESPSPI!', major=2, minor=0, exchange_type=34, is_response=True, can_use_higher_version=False,
                    is_initiator=False, message_id=0, payloads=payloads, encrypted_payloads=[])
    r = deliver_object(a, p.A, msg)
    if a.state == S.AUTH_REQ_SENT:
        eng.prove(core.sym_and(*[in_prop(t, offer) for t in resp_prop.transforms]),
                  'the initiator derived keys for a response proposal containing a transform it never offered')
        bad = one_of_each(eng, resp_prop, offer, 'the IKE_SA initiator')
        if bad:
            return {'class': ['init_response'], 'violation': bad}
        return ['init_response', 'accepted']
    if a.state not in (S.DELETED,):
        return {'class': ['init_response'], 'violation': f'response neither accepted nor refused (state {a.state.name})'}
    return ['init_response', 'refused']


def world_responder_answer(p, m1):
    return p.send('B', m1)


def h_child_response(shape, spi_len=4):
    """initiator in NEW_CHILD_REQ_SENT receives a CREATE_CHILD_SA response with an arbitrary proposal"""
    from symx import core
    eng = core.engine()
    m = MODS['message']
    S = MODS['ikesa'].IkeSa.State
    kind = SHAPES[shape][0]
    kw = dict(ipsec_proto='ah') if kind == 'ah' else (dict(child_dh=('ecp256',)) if kind == 'esp_pfs' else {})
    p = world.Pair(**kw)
    if kind == 'esp2':
        for who in ('alice', 'bob'):
            p.confdict[who]['protect'][0].update(integ=['sha256', 'sha1'])
        p.configuration = MODS['configuration'].Configuration([world.IP1, world.IP2], p.confdict)
        p.a.configuration = p.configuration.get_ike_configuration(world.IP1, world.IP2)
        p.b.configuration = p.configuration.get_ike_configuration(world.IP2, world.IP1)
    req = p.to_state('A', 'NEW_CHILD_REQ_SENT')
    a = p.a
    offer = a.creating_child_sa.proposal
    res = p.send('B', req)
    real_res = m.Message.parse(bytes(res), crypto=a.peer_crypto)
    resp_prop, _ = sym_proposal(eng, 'resp', shape, 1, b'\xaa\xbb\xcc\xdd' if spi_len == 4 else eng.sym_bytes('resp_spi', spi_len), proto=offer.protocol_id)
    enc = [m.PayloadSA([resp_prop]) if x.type == m.Payload.Type.SA else x for x in real_res.encrypted_payloads]
    msg = m.Message(spi_i=a.spi_i, spi_r=a.spi_r, major=2, minor=0, exchange_type=36, is_response=True, can_use_higher_version=False,
                    is_initiator=False, message_id=a.my_msg_id, payloads=[], encrypted_payloads=enc)
    msg.is_protected = True
    n_sad = len(p.A.kernel.log)
    n_kids = len(a.child_sas)
    r = deliver_object(a, p.A, msg)
    installed = any(x['op'] == 'NEWSA' for x in p.A.kernel.log[n_sad:])
    if spi_len != 4 and (installed or len(a.child_sas) > n_kids):
        return {'class': ['child_response'], 'violation': f'a response proposal whose SPI has {spi_len} bytes was accepted: CHILD_SA tracked / kernel SA requested '
                                                          f'(IKE_SA now {a.state.name})'}
    if installed or len(a.child_sas) > n_kids:
        eng.prove(core.sym_and(*[in_prop(t, offer) for t in resp_prop.transforms]),
                  'the initiator installed a CHILD_SA for a response proposal containing a transform it never offered')
        bad = one_of_each(eng, resp_prop, offer, 'the CHILD_SA initiator')
        if bad:
            return {'class': ['child_response'], 'violation': bad}
        return ['child_response', 'accepted']
    return ['child_response', 'refused', a.state.name]


def h_init_request(shape, n_peer):
    """responder: IKE_SA_INIT request with arbitrary proposals and an arbitrary KE group"""
    from symx import core
    eng = core.engine()
    m, ik = MODS['message'], MODS['ikesa']
    S = ik.IkeSa.State
    dh = ('ecp384', 'ecp256') if SHAPES[shape][0] == 'ike2' else ('ecp256',)
    p = world.Pair(dh_ike=dh)
    if SHAPES[shape][0] == 'ike2':
        p.confdict['bob'].update(encr=['aes256', 'aes128'], integ=['sha512', 'sha256'], prf=['sha512', 'sha256'])
        p.configuration = MODS['configuration'].Configuration([world.IP1, world.IP2], p.confdict)
        p.b.configuration = p.configuration.get_ike_configuration(world.IP2, world.IP1)
    b = p.b
    my = b.configuration.proposal
    real_req = m.Message.parse(bytes(p.init_req()))
    props = [sym_proposal(eng, f'p{j}', shape, j + 1, b'', proto=m.Proposal.Protocol.IKE)[0] for j in range(n_peer)]
    group = eng.sym_int('ke_group', 0, 0xFFFF)
    ke = [x for x in real_req.payloads if x.type == m.Payload.Type.KE][0]
    payloads = [m.PayloadSA(props), m.PayloadKE(group, ke.ke_data)] + [x for x in real_req.payloads
                                                                      if x.type not in (m.Payload.Type.SA, m.Payload.Type.KE)]
    msg = m.Message(spi_i=p.a.my_spi, spi_r=b'\0' * 8, major=2, minor=0, exchange_type=34, is_response=False, can_use_higher_version=False,
                    is_initiator=True, message_id=0, payloads=payloads, encrypted_payloads=[])
    real_dh = ik.DiffieHellman

    class StopDH:
        @classmethod
        def from_group(cls, g):
            raise Reached('dh', g)
    ik.DiffieHellman = StopDH
    P = eng.prove
    try:
        try:
            r = deliver_object(b, p.B, msg)
        finally:
            ik.DiffieHellman = real_dh
    except Reached as ex:
        chosen = b.chosen_proposal
        j = [i for i, q in enumerate(props) if q.num == chosen.num][0]
        for q in props[:j]:
            bad = check_selection(eng, my, q, None, 'responder (earlier proposal)')
            if bad:
                return {'class': ['init_request'], 'violation': 'a later peer proposal was chosen although an earlier one is acceptable'}
        bad = check_selection(eng, my, props[j], chosen, 'responder')
        if bad:
            return {'class': ['init_request'], 'violation': bad}
        want = chosen.get_transform(m.Transform.Type.DH).id
        P(core.sym_and(group == want, ex.info == want), 'Diffie-Hellman was started in a group other than the chosen one')
        return ['init_request', 'dh', j]
    if r is None:
        return {'class': ['init_request'], 'violation': 'no reply to an IKE_SA_INIT request'}
    rep = m.Message.parse(bytes(r)) if isinstance(r, (bytes, bytearray)) else None
    if rep is None:
        # the reply contains symbolic bytes (the suggested group): read the notification from the object level
        from symx import core as _c
        rb = _c.SymBytes.lift(r)
        ntype = rb[28 + 4 + 2:28 + 4 + 4]
        if b.state != S.DELETED:
            return {'class': ['init_request'], 'violation': 'refused request left the responder alive'}
        # INVALID_KE_PAYLOAD: notification data = chosen group
        chosen = b.chosen_proposal
        want = chosen.get_transform(m.Transform.Type.DH).id
        P(_c.SymBytes.lift(ntype).to_int() == 17, 'symbolic reply is not INVALID_KE_PAYLOAD')
        P(core.sym_and(rb[-2:] == int(want).to_bytes(2, 'big'), group != want), 'INVALID_KE_PAYLOAD does not name the chosen group')
        return ['init_request', 'invalid_ke']
    notes = [x.notification_type for x in rep.get_payloads(m.Payload.Type.NOTIFY)]
    if m.PayloadNOTIFY.Type.NO_PROPOSAL_CHOSEN in notes:
        for q in props:
            bad = check_selection(eng, my, q, None, 'responder')
            if bad:
                return {'class': ['init_request'], 'violation': bad}
        if b.state != S.DELETED or b.ike_sa_keyring is not None:
            return {'class': ['init_request'], 'violation': 'NO_PROPOSAL_CHOSEN but the IKE_SA lives on'}
        return ['init_request', 'no_proposal']
    if m.PayloadNOTIFY.Type.INVALID_KE_PAYLOAD in notes:
        chosen = b.chosen_proposal
        want = chosen.get_transform(m.Transform.Type.DH).id
        n = rep.get_notifies(m.PayloadNOTIFY.Type.INVALID_KE_PAYLOAD)[0]
        P(core.sym_and(n.notification_data == int(want).to_bytes(2, 'big'), group != want), 'INVALID_KE_PAYLOAD does not name the chosen group')
        return ['init_request', 'invalid_ke']
    return {'class': ['init_request'], 'violation': f'unexpected reply {notes}'}


def h_child_request(sit, n_dh, with_ke=True):
    """responder whose CHILD policy lists the groups (ecp384, ecp256) receives a CREATE_CHILD_SA request (new / rekey) offering n_dh ARBITRARY DH
    groups with a KE payload in an ARBITRARY group"""
    from symx import core
    eng = core.engine()
    m, ik = MODS['message'], MODS['ikesa']
    S = ik.IkeSa.State
    T = m.Transform
    p = world.Pair(child_dh=('ecp256',), child_dh_b=('ecp384', 'ecp256'))
    req = p.to_state('A', 'NEW_CHILD_REQ_SENT' if sit == 'new' else 'REK_CHILD_REQ_SENT')
    b = p.b
    real_req = m.Message.parse(bytes(req), crypto=b.peer_crypto)
    dh_trs = [sym_transform(eng, f'dh{i}', 4, False) for i in range(n_dh)]
    offered = [t.id for t in dh_trs]
    group = eng.sym_int('ke_group', 0, 0xFFFF)
    enc = []
    for x in real_req.encrypted_payloads:
        if x.type == m.Payload.Type.SA:
            pr = x.proposals[0]
            trs = [t for t in pr.transforms if t.type != T.Type.DH]
            trs.extend(dh_trs)
            enc.append(m.PayloadSA([m.Proposal(pr.num, pr.protocol_id, pr.spi, trs)]))
        elif x.type == m.Payload.Type.KE:
            if with_ke:
                enc.append(m.PayloadKE(group, x.ke_data))
        else:
            enc.append(x)
    msg = m.Message(spi_i=b.spi_i, spi_r=b.spi_r, major=2, minor=0, exchange_type=36, is_response=False, can_use_higher_version=False,
                    is_initiator=True, message_id=b.peer_msg_id, payloads=[], encrypted_payloads=enc)
    msg.is_protected = True
    sent = []
    real_gen = b.generate_response

    def gen(exchange_type, payloads, *a, **k):
        sent.append(list(payloads))
        return real_gen(exchange_type, payloads, *a, **k)
    b.generate_response = gen
    real_dh = ik.DiffieHellman

    class StopDH:
        @classmethod
        def from_group(cls, g):
            raise Reached('dh', g)
    ik.DiffieHellman = StopDH
    n_log = len(p.B.kernel.log)
    P = eng.prove
    # local preference order: ecp384 (20) before ecp256 (19)
    has20 = core.sym_or(*[g == 20 for g in offered])
    has19 = core.sym_or(*[g == 19 for g in offered])
    want = core.sym_ite_int(has20, 20, 19)
    try:
        try:
            r = deliver_object(b, p.B, msg)
        finally:
            ik.DiffieHellman = real_dh
    except Reached as ex:
        P(core.sym_or(has20, has19), 'Diffie-Hellman started although none of the offered groups is in the local policy')
        P(core.sym_and(group == want, ex.info == want), 'Diffie-Hellman was started in a group other than the chosen one (first local group that the peer offers)')
        return ['child_request', 'dh']
    if any(x['op'] == 'NEWSA' for x in p.B.kernel.log[n_log:]):
        return {'class': ['child_request'], 'violation': 'a CHILD_SA was installed without the Diffie-Hellman exchange that the local policy (dh: ecp384, ecp256) requires'
                                                         + ('' if with_ke else ' (the request carried no KE payload)')}
    if len(sent) != 1:
        return {'class': ['child_request'], 'violation': f'{len(sent)} responses generated'}
    notes = [x for x in sent[0] if x.type == m.Payload.Type.NOTIFY]
    kinds = [int(x.notification_type) for x in notes]
    if kinds == [int(m.PayloadNOTIFY.Type.INVALID_KE_PAYLOAD)]:
        P(core.sym_or(has20, has19), 'INVALID_KE_PAYLOAD although no offered group is acceptable')
        P(core.sym_and(core.SymBytes.lift(notes[0].notification_data).to_int() == want, len(notes[0].notification_data) == 2, group != want),
          'INVALID_KE_PAYLOAD does not name the chosen group (the first local group that the peer offers), or the KE group was the chosen one')
        return ['child_request', 'invalid_ke']
    if kinds == [int(m.PayloadNOTIFY.Type.NO_PROPOSAL_CHOSEN)]:
        if with_ke:
            P(core.sym_not(core.sym_or(has20, has19)), 'NO_PROPOSAL_CHOSEN although an offered group is in the local policy')
        return ['child_request', 'no_proposal']
    if not with_ke and b.state == S.DELETED:
        return ['child_request', 'refused']          # a missing KE payload for an offered group is a syntax error
    return {'class': ['child_request'], 'violation': f'unexpected answer: notifications {kinds}'}


def h_invalid_ke(sit):
    """initiator receives INVALID_KE_PAYLOAD with an arbitrary suggested group"""
    from symx import core
    eng = core.engine()
    m, ik = MODS['message'], MODS['ikesa']
    S = ik.IkeSa.State
    T = m.Transform
    if sit == 'init':
        p = world.Pair(dh_ike=('ecp256', 'ecp384'))
        p.init_req()
        encrypted = False
    elif sit == 'init_ids_overlap':
        # transform IDs are numbered per type: the offer holds integrity algorithms 14 (sha512) and 12 and PRF 5..7 - numbers that are also DH groups
        p = world.Pair(dh_ike=('ecp521', 'modp4096'), ike_integ=('sha512', 'sha256'))
        p.init_req()
        encrypted = False
    elif sit == 'child_ids_overlap':
        p = world.Pair(child_dh=('ecp521', 'modp4096'), child_integ=('sha512', 'sha256'))
        p.to_state('A', 'NEW_CHILD_REQ_SENT')
        encrypted = True
    elif sit == 'child':
        p = world.Pair(child_dh=('ecp256', 'ecp384'))
        p.to_state('A', 'NEW_CHILD_REQ_SENT')
        encrypted = True
    elif sit == 'rekey_child':
        p = world.Pair(child_dh=('ecp256', 'ecp384'))
        p.to_state('A', 'REK_CHILD_REQ_SENT')
        encrypted = True
    else:
        # IKE_SA rekey after a CHILD_SA with another PFS group was negotiated (the IKE offer is ecp256, ecp384)
        p = world.Pair(dh_ike=('ecp256', 'ecp384'), child_dh=('ecp521',))
        p.establish()
        tsi, tsr = p.acquire_tss()
        q = p.A.call(p.a.process_acquire, tsi, tsr, 1)
        assert p.send('A', p.send('B', q)) is None and len(p.a.child_sas) == 2
        world.ENV.now = p.a.rekey_ike_sa_at + 10
        p.A.call(p.a.check_rekey_ike_sa_timer)
        encrypted = True
    a = p.a
    state0 = a.state
    offered = [int(x.id) for x in a.request.get_payload(m.Payload.Type.SA, encrypted).proposals[0].transforms if x.type == T.Type.DH]
    req0 = a.request
    group = eng.sym_int('suggested', 0, 0xFFFF)
    data = group.to_bytes(2, 'big')
    note = m.PayloadNOTIFY(m.Proposal.Protocol.NONE, m.PayloadNOTIFY.Type.INVALID_KE_PAYLOAD, b'', data)
    msg = m.Message(spi_i=a.spi_i, spi_r=a.spi_r if encrypted else b'RESPSPI!', major=2, minor=0, exchange_type=a.request.exchange_type,
                    is_response=True, can_use_higher_version=False, is_initiator=False, message_id=a.my_msg_id,
                    payloads=[] if encrypted else [note], encrypted_payloads=[note] if encrypted else [])
    msg.is_protected = encrypted
    r = deliver_object(a, p.A, msg)
    P = eng.prove
    was_offered = core.sym_or(*[group == g for g in offered])
    if r is None:
        P(core.sym_not(was_offered), 'an offered group suggested by the responder was refused')
        if a.state != S.DELETED:
            return {'class': ['invalid_ke'], 'violation': f'refused suggestion left the IKE_SA in {a.state.name}'}
        return ['invalid_ke', 'refused']
    P(was_offered, 'a suggested group that was never offered was accepted (possible downgrade)')
    if a.state != state0:
        return {'class': ['invalid_ke'], 'violation': f'retry changed the state to {a.state.name}'}
    ke = a.request.get_payload(m.Payload.Type.KE, encrypted)
    P(ke.dh_group == group, 'the retried request does not use the suggested group')
    new_offer = [int(x.id) for x in a.request.get_payload(m.Payload.Type.SA, encrypted).proposals[0].transforms if x.type == T.Type.DH]
    if new_offer != offered:
        return {'class': ['invalid_ke'], 'violation': 'the retry changed the offered groups'}
    return ['invalid_ke', 'retry']


def build_instances(tier):
    inst = []
    nat = common.native_of
    shapes = [x for x in SHAPES if x not in ('esp_no_esn', 'esp_no_integ', 'esp_pfs', 'esp_pfs_no_dh', 'ike_missing_dh', 'ike_missing_prf')]
    for sh in shapes:
        inst.append(Instance(f'intersection {sh}', h_intersection, (sh,), native=nat(h_intersection)))
        big = sh in ('ike_two_encr', 'esp_two_integ', 'ike_two_dh')
        for n in (((1,) if big else (2,)) if tier == 'quick' else ((1, 2) if big else (1, 2, 3))):
            inst.append(Instance(f'select {sh} peers={n}', h_select, (sh, n), native=nat(h_select), engine_kw={'max_wall_s': 1500}))
    for sh in ('ike_missing_dh', 'ike_missing_prf'):
        inst.append(Instance(f'init_response {sh}', h_init_response, (sh,), native=nat(h_init_response),
                             must_reach=[('refused', lambda o: o == ['init_response', 'refused'])]))
    for sh in ('ike_small', 'ike_missing_integ', 'ike_two_dh', 'ike_nokeylen') + (('ike_two_encr',) if tier == 'thorough' else ()):
        inst.append(Instance(f'init_response {sh}', h_init_response, (sh,), native=nat(h_init_response),
                             must_reach=[('refused', lambda o: o == ['init_response', 'refused'])] +
                                        ([('accepted', lambda o: o == ['init_response', 'accepted'])] if sh not in ('ike_missing_integ', 'ike_nokeylen') else [])))
        big = sh in ('ike_two_encr', 'ike_two_dh')
        for n in (((1,) if big else (1, 2)) if tier == 'quick' else ((1, 2) if big else (1, 2, 3))):
            inst.append(Instance(f'init_request {sh} peers={n}', h_init_request, (sh, n), native=nat(h_init_request),
                                 engine_kw={'max_wall_s': 1500}))
    for sh in ('esp', 'esp_two_integ', 'ah', 'esp_extra', 'esp_no_esn', 'esp_no_integ', 'esp_pfs', 'esp_pfs_no_dh'):
        inst.append(Instance(f'child_response {sh}', h_child_response, (sh,), native=nat(h_child_response),
                             must_reach=[('refused', lambda o: o[:2] == ['child_response', 'refused'])] +
                                        ([('accepted', lambda o: o == ['child_response', 'accepted'])] if sh in ('esp', 'ah', 'esp_pfs', 'esp_two_integ') else [])))
    for k in ((0, 2, 8) if tier == 'quick' else (0, 1, 2, 3, 5, 8, 16)):
        inst.append(Instance(f'child_response esp spi_len={k}', h_child_response, ('esp', k), native=nat(h_child_response),
                             must_reach=[('refused', lambda o: o[:2] == ['child_response', 'refused'])]))
    for sit in ('new', 'rekey'):
        for n_dh in (0, 1):
            inst.append(Instance(f'child_request {sit} offered_groups={n_dh} without KE', h_child_request, (sit, n_dh, False), native=nat(h_child_request)))
    for sit in ('new', 'rekey'):
        for n_dh in (1, 2):
            inst.append(Instance(f'child_request {sit} offered_groups={n_dh}', h_child_request, (sit, n_dh), native=nat(h_child_request),
                                 must_reach=[('dh', lambda o: o == ['child_request', 'dh']), ('invalid_ke', lambda o: o == ['child_request', 'invalid_ke']),
                                             ('no_proposal', lambda o: o == ['child_request', 'no_proposal'])]))
    for sit in ('init', 'child', 'rekey_child', 'rekey_ike', 'init_ids_overlap', 'child_ids_overlap'):
        inst.append(Instance(f'invalid_ke {sit}', h_invalid_ke, (sit,), native=nat(h_invalid_ke),
                             must_reach=[('retry', lambda o: o == ['invalid_ke', 'retry']), ('refused', lambda o: o == ['invalid_ke', 'refused'])]))
    return inst


def _load(shim):
    global MODS
    MODS = world.load(shim=shim)
    c08.MODS = MODS
    return MODS


def replay_file(path):
    return common.generic_replay_file(path, lambda: build_instances('thorough') + build_instances('quick'), lambda: _load(False))


def main(tier, seed):
    _load(True)
    ik, m = MODS['ikesa'].IkeSa, MODS['message']
    chk = Check('C11', tier, seed,
                functions=common.src_hash(m.Transform.__eq__, m.Transform.__hash__, m.Proposal.intersection, m.Proposal.is_subset, m.Proposal.__eq__,
                                          ik._select_best_sa_proposal, ik._process_ike_sa_negotiation_request, ik.process_ike_sa_negotiation_response,
                                          ik._process_create_child_sa_negotiation_res, ik.handle_invalid_ke),
                bounds={'transforms': 'identifier any 16-bit value, key length absent or any 1..65535, per slot; slot types per shape (9 shapes: IKE with 1-2 '
                                      'ENCR/DH, missing INTEG, no key length; ESP with 1-2 ENCR/INTEG, extra DH; AH)',
                        'local policies': '5 concrete policies as the configuration loader builds them (single and two alternatives per type)',
                        'peer SA payload': '1-2 (thorough 1-3) proposals',
                        'KE / suggested group': 'any 16-bit value; suggested group in 4 situations (IKE_SA_INIT, CREATE_CHILD_SA new, rekey, IKE_SA rekey after a '
                                                'CHILD_SA with another PFS group)',
                        'outside': 'collisions of Python tuple hashing (Transform equality is hash equality in the code; modelled as structural equality); '
                                   'the wire codec (objects are delivered parsed); end-to-end pairs of configurations beyond the listed policies'},
                assumptions=['hash((type, id, keylen)) is collision-free (idealisation of Transform.__eq__)'],
                stubs=['hash/set (structural)', 'enum lookup', 'Message.parse returns the prepared object for the sentinel datagram', 'DiffieHellman spy',
                       'kernel ghost', 'clock/randomness'])
    chk.run(build_instances(tier))
    return chk.finish(replay=lambda v: common.native_replay_subprocess('C11', v))
