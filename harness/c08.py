"""C08 - Message-ID window.
One step of the real IkeSa.process_message from every protocol state (both roles), reached by driving the real code
natively, with the send/receive counters replaced by arbitrary (symbolic) values.  The delivered datagram is AUTHENTIC
(checksum computed with the peer's keys by the real Integrity.compute, uninterpreted when the header is symbolic) but its
header is arbitrary: SPIs, exchange type, flags byte, Message ID.  Oracle: a handler runs only inside the window; a copy
of the previous request gets the byte-identical stored response without execution; anything else changes nothing;
every emitted message carries version 2.0, the IKE_SA's SPIs, the right flags, exchange type and Message ID.
Local triggers never produce a second outstanding request."""
import json

from . import common, world
from .common import Instance, Check

MODS = None
KNOWN_EXCH = (34, 35, 36, 37)
HANDLERS = ('process_ike_sa_init_request', 'process_ike_auth_request', 'process_informational_request',
            'process_create_child_sa_request', 'process_ike_sa_init_response', 'process_ike_auth_response',
            'process_create_child_sa_response', 'process_informational_response')


def spy(ike_sa):
    ran = []
    for name in HANDLERS:
        real = getattr(ike_sa, name)

        def wrapper(message, _real=real, _name=name):
            ran.append(_name)
            return _real(message)
        setattr(ike_sa, name, wrapper)
    return ran


def peer_datagram(p, who, kind):
    """a real datagram the peer of `who` produces in the current situation -> (bytes, sender crypto or None)"""
    S = MODS['ikesa'].IkeSa.State
    me, peer = (p.a, p.b) if who == 'A' else (p.b, p.a)
    PE = p.B if who == 'A' else p.A
    other = 'B' if who == 'A' else 'A'
    if kind == 'auth_req':
        # `who` (B) is in INIT_RES_SENT: its last datagram is the IKE_SA_INIT response; A answers with IKE_AUTH
        d = p.send('A', p.b.last_sent_response_data)
        return d, p.a.my_crypto
    if kind == 'response':
        # the genuine answer to my outstanding request
        out = p.outstanding
        if out is None:
            return None
        crypto_before = peer.my_crypto
        d = p.send(other, out)
        if d is None:
            return None
        return d, (peer.my_crypto if me.state != S.INIT_REQ_SENT else None)
    if kind in ('rekey_again', 'rekey_delete'):
        # `who` answered an IKE_SA rekey (state REKEYED): the rekey request once more / the delete of the old IKE_SA, under the OLD keys
        if me.state != S.REKEYED:
            return None
        return (p.rekey_request if kind == 'rekey_again' else p.rekey_delete), peer.my_crypto
    if peer.state != S.ESTABLISHED:
        return None
    if kind == 'dpd':
        world.ENV.now = peer.start_dpd_at + 3600
        d = PE.call(peer.check_dead_peer_detection_timer)
    elif kind == 'del_child':
        d = PE.call(peer.process_expire, peer.child_sas[0].inbound_spi, True)
    elif kind == 'rekey_child':
        d = PE.call(peer.process_expire, peer.child_sas[0].inbound_spi, False)
    elif kind == 'new_child':
        tsi, tsr = p.acquire_tss() if who == 'B' else p.acquire_tss_rev()
        d = PE.call(peer.process_acquire, tsi, tsr, 1 if who == 'B' else 2)
    elif kind == 'rekey_ike':
        world.ENV.now = peer.rekey_ike_sa_at + 10
        d = PE.call(peer.check_rekey_ike_sa_timer)
    elif kind == 'del_ike':
        world.ENV.now = peer.delete_ike_sa_at + 3600
        d = PE.call(peer.check_rekey_ike_sa_timer)
    else:
        raise ValueError(kind)
    return d, peer.my_crypto


def header_of(d):
    """(spi_i, spi_r, first, version, exch, flags, mid, length) of a datagram (bytes or SymBytes)"""
    from symx import core
    d = core.SymBytes.lift(d)
    return (d[0:8], d[8:16], d[16], d[17], d[18], d[19], core.SymBytes.lift(d[20:24]).to_int(), core.SymBytes.lift(d[24:28]).to_int())


def check_emission(eng, me, ret, is_response_expected, req_exch, req_mid, label):
    """every emitted message: version 2.0, the IKE_SA's SPIs, flags matching role and kind, exchange type and Message ID"""
    from symx import core
    spi_i, spi_r, first, ver, exch, flags, mid, length = header_of(ret)
    ok = eng.prove(ver == 0x20, f'{label}: emitted message does not carry IKE version 2.0')
    ok &= eng.prove(core.sym_and(spi_i == me.spi_i, spi_r == me.spi_r), f'{label}: emitted message does not carry the SPIs of the IKE_SA')
    want_flags = (0x08 if me.is_initiator else 0) | (0x20 if is_response_expected else 0)
    ok &= eng.prove(flags == want_flags, f'{label}: initiator/response flags do not match role and kind')
    ok &= eng.prove(length == len(ret), f'{label}: header length field differs from the datagram length')
    if is_response_expected:
        ok &= eng.prove(core.sym_and(exch == req_exch, mid == req_mid), f'{label}: response does not echo exchange type and Message ID of its request')
    else:
        ok &= eng.prove(mid == me.my_msg_id, f'{label}: request not stamped with the next Message ID')
    return ok


def one_step(eng, p, who, d, tag, sym_counters=True):
    """deliver datagram `d` (authentic, symbolic header) to `who`; all window/emission assertions.  Returns a class."""
    from symx import core
    S = MODS['ikesa'].IkeSa.State
    me = p.a if who == 'A' else p.b
    E = p.A if who == 'A' else p.B
    spi_i, spi_r, first, ver, exch, flags, mid, length = header_of(d)
    s0 = world.snapshot(me, E.kernel)
    my0, peer0, last0, state0 = me.my_msg_id, me.peer_msg_id, s0['last'], me.state
    my_spi_i, my_spi_r = me.spi_i, me.spi_r
    ran = spy(me) if not hasattr(me, '_spied') else me._spied
    me._spied = ran
    del ran[:]
    try:
        ret = E.call(me.process_message, d)
    except MODS['message'].IkeSaError as ex:
        return {'class': [tag, 'raised', type(ex).__name__], 'violation': f'authentic message made process_message raise {type(ex).__name__}'}
    s1 = world.snapshot(me, E.kernel)
    is_resp = (flags & 0x20) != 0
    role_ok = ((flags & 0x08) != 0) != me.is_initiator
    spi_ok = core.sym_or(exch == 34, core.sym_and(spi_i == my_spi_i, spi_r == my_spi_r))
    # IKE_SA_INIT is the one exchange that travels in the clear: a message carrying a (verified) Encrypted payload and that exchange type is not a
    # valid message of any exchange - it is neither executed nor taken for a copy of the previous request
    sk_first = (first == 46) if isinstance(first, int) else bool(first == 46)
    valid_kind = core.sym_not(core.sym_and(sk_first, exch == 34))
    addressed = core.sym_and(role_ok, spi_ok, valid_kind)
    in_req = core.sym_and(addressed, core.sym_not(is_resp), mid == peer0)
    in_res = core.sym_and(addressed, is_resp, mid == my0)
    replay = core.sym_and(addressed, core.sym_not(is_resp), mid == peer0 - 1)
    known = core.sym_or(*[exch == x for x in KNOWN_EXCH])
    P = eng.prove
    diff, terms = world.snap_diff(s0, s1)
    unchanged = core.sym_and(not diff, *[t for _, t in terms]) if not diff else False
    executed = list(ran)
    cls = [tag, 'ran' if executed else 'idle', 'reply' if ret is not None else 'silent']
    if executed:
        is_req_handler = executed[0].endswith('_request')
        P(in_req if is_req_handler else in_res, f'{executed[0]} executed for a message outside the Message-ID window')
        if len(executed) != 1:
            return {'class': cls, 'violation': f'more than one handler ran: {executed}'}
        if is_req_handler:
            P(me.peer_msg_id == peer0 + 1, 'expected Message ID not advanced by exactly one after an executed request')
            if ret is None:
                return {'class': cls, 'violation': 'an executed request produced no response'}
            P(ret == me.last_sent_response_data, 'response to an executed request was not stored for retransmission')
            check_emission(eng, me, ret, True, exch, mid, 'response')
        else:
            if state0 == S.INIT_REQ_SENT and me.state == S.INIT_REQ_SENT:
                P(me.my_msg_id == 0, 'IKE_SA_INIT retry does not reuse Message ID 0')
            else:
                P(me.my_msg_id == my0 + 1, 'own Message ID not advanced by exactly one after an accepted response')
            if ret is not None:
                check_emission(eng, me, ret, False, None, None, 'follow-up request')
                if me.state not in (S.INIT_REQ_SENT, S.AUTH_REQ_SENT) and not (S.NEW_CHILD_REQ_SENT <= me.state < S.REKEYED):
                    return {'class': cls, 'violation': f'a request was emitted but the IKE_SA is in {me.state.name} (nothing outstanding)'}
    else:
        # nothing executed: either the stored response is re-sent, or nothing happens at all
        if ret is not None:
            P(replay, 'a reply was produced without executing anything although the message is not a copy of the previous request')
            P(ret == last0, 'retransmitted response is not byte-identical to the stored one')
            P(unchanged, f'answering a retransmission changed the IKE_SA ({diff or [k for k, _ in terms]})')
        else:
            # in-window messages with an unknown exchange type are not "executed" but are not silent drops either
            P(core.sym_or(unchanged, core.sym_and(core.sym_or(in_req, in_res), core.sym_not(known))),
              f'a message outside the window changed the IKE_SA ({diff or [k for k, _ in terms]})')
            P(core.sym_not(core.sym_and(core.sym_or(in_req, in_res), known)),
              'an in-window message of a known exchange type was not executed')
    if ret is None or executed:
        P(core.sym_not(replay), 'a copy of the previous request was not answered from the cache')
    return cls


def h_window(who, state, kind, sym_spis):
    from symx import core
    eng = core.engine()
    p = world.Pair()
    p.outstanding = p.to_state(who, state)
    me = p.a if who == 'A' else p.b
    got = peer_datagram(p, who, kind)
    if got is None:
        return ['n/a']
    d0, crypto = got
    S = MODS['ikesa'].IkeSa.State
    # arbitrary counters (any history length); the stored response, if any, stays whatever it is
    if me.state not in (S.INIT_REQ_SENT, S.AUTH_REQ_SENT, S.INIT_RES_SENT):
        me.my_msg_id = eng.sym_int('my_msg_id', 0, 0xFFFFFFF0)
        me.peer_msg_id = eng.sym_int('peer_msg_id', 0, 0xFFFFFFF0)
        if not hasattr(me, 'last_sent_response_data'):
            eng.assume(me.peer_msg_id == 0)
    exch = eng.sym_int('exch', 0, 255)
    flags = eng.sym_int('flags', 0, 255)
    mid = eng.sym_int('mid', 0, 0xFFFFFFFF)
    spi_i = eng.sym_bytes('spi_i', 8) if sym_spis else None
    spi_r = eng.sym_bytes('spi_r', 8) if sym_spis else None
    d = world.restamp(d0, crypto, spi_i=spi_i, spi_r=spi_r, exchange=exch, flags=flags, mid=mid)
    return one_step(eng, p, who, d, 'step')


def h_two(who, state, kind):
    """two consecutive deliveries of the same authentic body under two arbitrary Message IDs / response flags
    (duplicate-then-original, original-then-duplicate, original-then-older ... are values of the two IDs)"""
    from symx import core
    eng = core.engine()
    p = world.Pair()
    p.outstanding = p.to_state(who, state)
    me = p.a if who == 'A' else p.b
    got = peer_datagram(p, who, kind)
    if got is None:
        return ['n/a']
    d0, crypto = got
    h0 = header_of(d0)
    out = []
    for i in (1, 2):
        if i == 2:
            # an arbitrary time (up to a day) passes between the two deliveries: the cache does not age
            gap = eng.sym_int('gap_ms', 0, 86400000)
            world.ENV.now = world.T(world.ENV.now.ms + gap)
        mid = eng.sym_int(f'mid{i}', 0, 0xFFFFFFFF)
        resp = eng.sym_bool(f'resp{i}')
        flags = core.sym_ite_int(resp, h0[5] | 0x20, h0[5] & 0xDF)
        if me.peer_crypto is None and crypto is not None:
            return ['n/a']
        d = world.restamp(d0, crypto, flags=flags, mid=mid)
        r = one_step(eng, p, who, d, f'step{i}')
        if isinstance(r, dict):
            return r
        out.append(r[1:])
        if me.state == MODS['ikesa'].IkeSa.State.DELETED:
            break
    return ['two', out]


def h_two_sas():
    """TWO IKE_SAs in one process (a gateway with two peers): each responder answers a request with the same Message ID (exchange kinds: arbitrary pair);
    then the first request is retransmitted: its IKE_SA answers with ITS OWN stored response, byte for byte, and executes nothing again; the retransmission
    of an older request is ignored"""
    from symx import core
    eng = core.engine()
    ik = MODS['ikesa'].IkeSa
    S = ik.State
    kinds = ('dpd', 'new_child', 'rekey_child', 'del_child')
    pick = lambda name: kinds[(lambda c: eng.concretize(c, 0, len(kinds) - 1) if not isinstance(c, int) else c)(eng.sym_int(name, 0, len(kinds) - 1))]
    k1, k2 = pick('kind_first'), pick('kind_second')
    p1 = world.Pair()
    p1.establish()
    env1 = (world.ENV.now,)
    p2 = world.Pair(env_setup=lambda env: env.reset(seed=b'second peer'))
    p2.establish()
    if bytes(p1.a.my_spi) == bytes(p2.a.my_spi):
        return ['n/a', 'identical twins']

    def trigger(p, kind):
        a = p.a
        with p.A:
            if kind == 'dpd':
                world.ENV.now = a.start_dpd_at + 3600
                return a.check_dead_peer_detection_timer()
            if kind == 'new_child':
                return a.process_acquire(*p.acquire_tss(), 1)
            return a.process_expire(a.child_sas[0].inbound_spi, kind == 'del_child')
    req1 = trigger(p1, k1)
    n1 = len(p1.B.kernel.log)
    res1 = p1.send('B', req1)
    n1b = len(p1.B.kernel.log)
    req2 = trigger(p2, k2)
    res2 = p2.send('B', req2)
    if res1 is None or res2 is None:
        return {'class': ['two_sas'], 'violation': f'a genuine {k1} / {k2} request was not answered'}
    state1, kids1, mid1 = p1.b.state, list(p1.b.child_sas), p1.b.peer_msg_id
    again = p1.send('B', req1)
    if again is None:
        return {'class': ['two_sas'], 'violation': f'after another IKE_SA of the process answered a {k2} request with the same Message ID, the retransmission of a {k1} request '
                                                   f'gets no answer'}
    if bytes(again) != bytes(res1):
        return {'class': ['two_sas'], 'violation': f'after another IKE_SA of the process answered a {k2} request with the same Message ID, the retransmission of a {k1} request '
                                                   f'is answered with other bytes than the stored response of its own IKE_SA'}
    if len(p1.B.kernel.log) != n1b or p1.b.state != state1 or p1.b.peer_msg_id != mid1 or [id(x) for x in p1.b.child_sas] != [id(x) for x in kids1]:
        return {'class': ['two_sas'], 'violation': 'the retransmitted request was executed again'}
    return ['two_sas', k1, k2]


def h_trigger(who, state, trig):
    """local triggers while a request is outstanding: nothing is emitted, the event is queued (acquire/expire)"""
    from symx import core
    eng = core.engine()
    S = MODS['ikesa'].IkeSa.State
    p = world.Pair()
    p.to_state(who, state)
    me = p.a if who == 'A' else p.b
    E = p.A if who == 'A' else p.B
    now = eng.sym_int('now_ms', 0, 1 << 50)
    world.ENV.now = world.T(now)
    # the retransmission deadline is kept in the future: retransmissions are C13's subject
    me.retransmit_at = world.T(now) + 1
    s0 = world.snapshot(me, E.kernel)
    n_pending = len(me.pending_events)
    if trig == 'acquire':
        tsi, tsr = p.acquire_tss() if who == 'A' else p.acquire_tss_rev()
        ret = E.call(me.process_acquire, tsi, tsr, eng.sym_int('index', 0, 0xFFFFFFFF))
    elif trig == 'expire':
        ret = E.call(me.process_expire, eng.sym_bytes('spi', 4), eng.sym_bool('hard'))
    elif trig == 'dpd':
        ret = E.call(me.check_dead_peer_detection_timer)
    elif trig == 'rekey':
        ret = E.call(me.check_rekey_ike_sa_timer)
    elif trig == 'retransmit':
        ret = E.call(me.check_retransmission_timer)
    s1 = world.snapshot(me, E.kernel)
    if ret is not None:
        return {'class': ['trigger', 'emitted'], 'violation': f'{trig} in state {state} emitted a second request while one is outstanding'}
    diff, terms = world.snap_diff(s0, s1)
    allowed = {'pending'} if trig in ('acquire', 'expire') else set()
    bad = [k for k in diff if k not in allowed]
    if bad or terms:
        eng.prove(core.sym_and(not bad, *[t for _, t in terms]), f'{trig} in state {state} changed {bad or [k for k, _ in terms]}')
    if trig in ('acquire', 'expire') and len(me.pending_events) != n_pending + 1:
        return {'class': ['trigger', 'lost'], 'violation': f'{trig} in state {state} was neither executed nor queued'}
    return ['trigger', 'queued' if trig in ('acquire', 'expire') else 'nothing']


def h_init_retries(kind):
    """IKE_SA_INIT with a COOKIE round, an INVALID_KE_PAYLOAD round or both, then IKE_AUTH and a liveness check: every IKE_SA_INIT request put on
    the wire (first try, retries, a timer retransmission of each) has Message ID 0, the INITIATOR flag, the constant SPIi and a ZERO SPIr
    (RFC 7296 3.1); the later requests carry consecutive IDs and both SPIs"""
    from symx import core
    eng = core.engine()
    m, ik = MODS['message'], MODS['ikesa']
    S = ik.IkeSa.State
    kw = {}
    if kind in ('invalid_ke', 'both'):
        kw = dict(dh_ike=('ecp256', 'ecp384'), dh_ike_b=('ecp384', 'ecp256'))
    p = world.Pair(**kw)
    if kind in ('cookie', 'both'):
        p.b.cookie_secret = b'secret!!'
    sent = []
    d = p.init_req()
    to = 'B'
    for _ in range(12):
        if to == 'B':
            sent.append(bytes(d))
            if p.a.state == S.INIT_REQ_SENT:
                # the timer retransmits this very request once more before the answer arrives
                t0 = world.ENV.now
                world.ENV.now = p.a.retransmit_at + 1
                r = p.A.call(p.a.check_retransmission_timer)
                world.ENV.now = t0
                if r is not None:
                    sent.append(bytes(r))
        d = p.send(to, d)
        if d is None:
            break
        if p.b.state == S.DELETED and to == 'B':
            secret = p.b.cookie_secret
            p.b = ik.IkeSa(is_initiator=False, peer_spi=p.a.my_spi, my_addr=world.IP2, peer_addr=world.IP1, configuration=p.b.configuration, cookie_secret=secret)
            p.B.obj = p.b
        to = 'A' if to == 'B' else 'B'
    if p.a.state != S.ESTABLISHED:
        return {'class': ['init_retries'], 'violation': f'{kind}: the handshake did not complete ({p.a.state.name})'}
    world.ENV.now = p.a.start_dpd_at + 3600
    sent.append(bytes(p.A.call(p.a.check_dead_peer_detection_timer)))
    inits = [x for x in sent if x[18] == 34]
    later = [x for x in sent if x[18] != 34]
    if len(inits) < {'plain': 2, 'cookie': 4, 'invalid_ke': 4, 'both': 6}[kind]:
        return {'class': ['init_retries'], 'violation': f'{kind}: only {len(inits)} IKE_SA_INIT requests seen'}
    for i, x in enumerate(inits):
        if x[0:8] != bytes(p.a.my_spi) or x[8:16] != bytes(8) or x[19] != 0x08 or x[20:24] != bytes(4) or x[17] != 0x20:
            return {'class': ['init_retries'], 'violation': f'{kind}: IKE_SA_INIT request number {i + 1} on the wire has SPIi {x[0:8].hex()}, SPIr {x[8:16].hex()}, flags '
                                                            f'{x[19]:#x}, Message ID {int.from_bytes(x[20:24], "big")} (expected the constant SPIi, a zero SPIr, flags 0x08, ID 0)'}
    for want_id, x in zip((1, 2), later):
        if x[0:8] != bytes(p.a.my_spi) or x[8:16] != bytes(p.b.my_spi) or int.from_bytes(x[20:24], 'big') != want_id or x[19] != 0x08:
            return {'class': ['init_retries'], 'violation': f'{kind}: request after IKE_SA_INIT has SPIs {x[0:16].hex()}, flags {x[19]:#x}, ID {int.from_bytes(x[20:24], "big")}'}
    return ['init_retries', kind, len(inits)]


def h_rekey_roles(who):
    """IKE_SA rekey started by `who` ('A' = original initiator, 'B' = original responder): on the NEW IKE_SA the endpoint that started the rekey is
    the initiator - INITIATOR flag, SPIi = its new SPI - whatever the roles on the old one were; checked on the first requests both ends send"""
    from symx import core
    eng = core.engine()
    m, ik = MODS['message'], MODS['ikesa']
    S = ik.IkeSa.State
    p = world.Pair()
    p.establish()
    ini, IE, res, RE = (p.a, p.A, p.b, p.B) if who == 'A' else (p.b, p.B, p.a, p.A)
    world.ENV.now = ini.rekey_ike_sa_at + 10
    d = IE.call(ini.check_rekey_ike_sa_timer)
    to, other = (res, RE), (ini, IE)
    for _ in range(6):
        if d is None:
            break
        d = to[1].call(to[0].process_message, d)
        to, other = other, to
    ni, nr = ini.new_ike_sa, res.new_ike_sa
    if ni is None or nr is None or ni.state != S.ESTABLISHED or nr.state != S.ESTABLISHED:
        return {'class': ['rekey_roles'], 'violation': 'rekey did not complete'}
    for sa, E, is_rekey_initiator, label in ((ni, IE, True, 'the endpoint that started the rekey'), (nr, RE, False, 'the endpoint that answered the rekey')):
        world.ENV.now = sa.start_dpd_at + 3600
        x = bytes(E.call(sa.check_dead_peer_detection_timer))
        want_flags = 0x08 if is_rekey_initiator else 0x00
        if x[0:8] != bytes(ni.my_spi) or x[8:16] != bytes(nr.my_spi) or x[19] != want_flags or x[20:24] != bytes(4):
            return {'class': ['rekey_roles'], 'violation': f'rekey started by {who}: the first request of {label} on the new IKE_SA has SPIi/SPIr {x[0:8].hex()}/{x[8:16].hex()}, '
                                                           f'flags {x[19]:#x}, ID {int.from_bytes(x[20:24], "big")}; expected {bytes(ni.my_spi).hex()}/{bytes(nr.my_spi).hex()}, '
                                                           f'flags {want_flags:#x}, ID 0'}
        # the answer
        peer, PE = (nr, RE) if sa is ni else (ni, IE)
        y = bytes(PE.call(peer.process_message, x))
        E.call(sa.process_message, y)
        if y[19] != ((0x08 if not is_rekey_initiator else 0) | 0x20) or y[0:16] != x[0:16]:
            return {'class': ['rekey_roles'], 'violation': f'rekey started by {who}: the response to the first request of {label} has flags {y[19]:#x} / SPIs {y[0:16].hex()}'}
    return ['rekey_roles', who]


KINDS = ('response', 'dpd', 'del_child', 'rekey_child', 'new_child', 'rekey_ike', 'del_ike')


def h_retry_ids(sit):
    """a request that was REPEATED because of an INVALID_KE_PAYLOAD answer to a CREATE_CHILD_SA request (new CHILD_SA, CHILD_SA rekey, IKE_SA rekey) is the one outstanding request from then on:
    whatever the retransmission timer puts on the wire afterwards (at an arbitrary instant past the deadline) carries the Message ID of the repeated
    request - the endpoint never re-uses the ID of the exchange that is over, never has two requests outstanding"""
    from symx import core
    from . import c13
    eng = core.engine()
    c13.MODS = MODS
    ik = MODS['ikesa'].IkeSa
    S = ik.State
    p, me, E, sent, other = c13.situation(sit)
    sent = bytes(sent)
    mid_sent = int.from_bytes(sent[20:24], 'big')
    if mid_sent != me.my_msg_id:
        return {'class': ['retry_ids'], 'violation': f'{sit}: the repeated request carries Message ID {mid_sent}, the endpoint counts {me.my_msg_id}'}
    late = eng.sym_int('late_ms', 1, 4000)
    world.ENV.now = world.T(me.retransmit_at.ms + late)
    again = E.call(me.check_retransmission_timer)
    if again is None:
        return {'class': ['retry_ids'], 'violation': f'{sit}: nothing is retransmitted although the deadline of the outstanding request has passed'}
    again = bytes(again)
    mid = int.from_bytes(again[20:24], 'big')
    if mid != mid_sent or again[18] != sent[18]:
        return {'class': ['retry_ids'], 'violation': f'{sit}: after the repeated request (Message ID {mid_sent}, exchange {sent[18]}) the retransmission timer emits a '
                                                     f'request with Message ID {mid}, exchange {again[18]}: the ID of an exchange that is over is used again'}
    return ['retry_ids', sit]


def build_instances(tier):
    inst = [Instance('two IKE_SAs of one process answer the same Message ID', h_two_sas, (), native=common.native_of(h_two_sas), engine_kw={'max_ticks': 10 ** 7},
                     must_reach=[('ok', lambda o: o[0] == 'two_sas')])]
    nat = common.native_of
    for who, states in (('A', world.ALL_STATES_A), ('B', world.ALL_STATES_B)):
        for st in states:
            for kind in KINDS:
                if kind == 'response' and not (st.endswith('REQ_SENT')):
                    continue
                if kind != 'response' and st in ('INIT_REQ_SENT', 'AUTH_REQ_SENT', 'INIT_RES_SENT', 'REKEYED', 'DEL_AFTER_REKEY_IKE_SA_REQ_SENT'):
                    continue
                if tier == 'quick' and kind in ('rekey_child', 'del_ike') and st not in ('ESTABLISHED',):
                    continue
                sym_spis = (kind in ('response', 'dpd'))
                inst.append(Instance(f'window {who} {st} <- {kind} spis={int(sym_spis)}', h_window, (who, st, kind, sym_spis),
                                     native=nat(h_window),
                                     must_reach=[('a handler ran', lambda o: o[:2] == ['step', 'ran']),
                                                 ('silent drop', lambda o: o == ['step', 'idle', 'silent'])]))
    for sit in ('child_invalid_ke', 'rekey_child_invalid_ke', 'rekey_ike_invalid_ke'):      # IKE_SA_INIT retries: h_init_retries
        inst.append(Instance(f'retransmission after a repeated request: {sit}', h_retry_ids, (sit,), native=common.native_of(h_retry_ids), engine_kw={'max_ticks': 10 ** 7},
                             must_reach=[('ok', lambda o: o[0] == 'retry_ids')]))
    for kind in ('plain', 'cookie', 'invalid_ke', 'both'):
        inst.append(Instance(f'IKE_SA_INIT tries: {kind}', h_init_retries, (kind,), native=nat(h_init_retries), must_reach=[('ok', lambda o: o[0] == 'init_retries')]))
    for who in ('A', 'B'):
        inst.append(Instance(f'roles on the IKE_SA created by a rekey started by {who}', h_rekey_roles, (who,), native=nat(h_rekey_roles),
                             must_reach=[('ok', lambda o: o[0] == 'rekey_roles')]))
    for who in ('A', 'B'):
        for kind in ('rekey_again', 'rekey_delete'):
            inst.append(Instance(f'window {who} REKEYED <- {kind}', h_window, (who, 'REKEYED', kind, False), native=nat(h_window),
                                 must_reach=[('a handler ran', lambda o: o[:2] == ['step', 'ran']), ('cached reply', lambda o: o == ['step', 'idle', 'reply'])]))
            inst.append(Instance(f'two deliveries {who} REKEYED <- {kind}', h_two, (who, 'REKEYED', kind), native=nat(h_two)))
    # the INIT_RES_SENT responder: retransmitted IKE_SA_INIT request (cleartext) and the IKE_AUTH request
    for who, st, kind in (('B', 'INIT_RES_SENT', 'auth_req'), ('B', 'INIT_RES_SENT', 'init_req')):
        inst.append(Instance(f'window {who} {st} <- {kind}', h_window_early, (kind,), native=nat(h_window_early),
                             must_reach=[('cached reply or execution', lambda o: o[1:] in (['idle', 'reply'], ['ran', 'reply']))]))
    trig_states = {'quick': ('NEW_CHILD_REQ_SENT', 'REK_IKE_SA_REQ_SENT', 'DEL_CHILD_REQ_SENT', 'DPD_REQ_SENT', 'AUTH_REQ_SENT', 'REKEYED'),
                   'thorough': [s for s in world.ALL_STATES_A if s != 'ESTABLISHED']}[tier]
    for who in ('A', 'B'):
        for st in trig_states:
            if st not in (world.ALL_STATES_A if who == 'A' else world.ALL_STATES_B):
                continue
            for trig in ('acquire', 'expire', 'dpd', 'rekey'):
                inst.append(Instance(f'trigger {who} {st} {trig}', h_trigger, (who, st, trig), native=nat(h_trigger)))
    two = {'quick': (('A', 'NEW_CHILD_REQ_SENT', 'response'), ('B', 'ESTABLISHED', 'new_child'), ('A', 'ESTABLISHED', 'del_child')),
           'thorough': [(w, s, k) for w, ss in (('A', world.ALL_STATES_A), ('B', world.ALL_STATES_B)) for s in ss
                        for k in ('response', 'new_child', 'del_child', 'rekey_ike', 'dpd')
                        if (k == 'response') == s.endswith('REQ_SENT') and s not in ('INIT_REQ_SENT',)
                        and not (k != 'response' and s in ('INIT_RES_SENT', 'REKEYED'))]}[tier]
    for w, s, k in two:
        inst.append(Instance(f'two deliveries {w} {s} <- {k}', h_two, (w, s, k), native=nat(h_two)))
    return inst


def h_window_early(kind):
    from symx import core
    eng = core.engine()
    p = world.Pair()
    m1 = p.init_req()
    m2 = p.send('B', m1)
    if kind == 'auth_req':
        d0 = p.send('A', m2)
        crypto = p.a.my_crypto
    else:
        d0, crypto = m1, None
    exch = eng.sym_int('exch', 0, 255)
    flags = eng.sym_int('flags', 0, 255)
    mid = eng.sym_int('mid', 0, 0xFFFFFFFF)
    d = world.restamp(d0, crypto, exchange=exch, flags=flags, mid=mid)
    if crypto is None:
        # a cleartext datagram in a state that has keys is C03's subject unless it is the retransmitted IKE_SA_INIT request
        eng.assume(core.sym_and(exch == 34, mid == 0, (flags & 0x20) == 0))
    return one_step(eng, p, 'B', d, 'step')


def _load(shim):
    global MODS
    MODS = world.load(shim=shim)
    return MODS


def replay_file(path):
    return common.generic_replay_file(path, lambda: build_instances('thorough') + build_instances('quick'), lambda: _load(False))


def main(tier, seed):
    _load(True)
    ik = MODS['ikesa'].IkeSa
    chk = Check('C08', tier, seed,
                functions=common.src_hash(ik.process_message, ik._process_request, ik._process_response, ik.generate_request,
                                          ik.generate_response, ik._send_request, ik.process_acquire, ik.process_expire,
                                          ik.check_dead_peer_detection_timer, ik.check_rekey_ike_sa_timer,
                                          MODS['message'].Message.parse, MODS['message'].Message.to_bytes),
                bounds={'step': 'ONE delivery (quick) / also TWO consecutive deliveries (listed instances) from every IkeSa.State of both '
                                'roles reached by the real code; send/receive counters arbitrary in [0, 2^32-16]; header of the delivered '
                                'authentic datagram arbitrary: exchange type byte, flags byte, Message ID 32 bit, and (response/DPD kinds) '
                                'both SPIs; the body is the real datagram the peer produces in that situation (7 kinds)',
                        'triggers': 'acquire (any index), expire (any SPI, soft/hard), DPD and rekey timers at any instant, in request-outstanding states',
                        'outside': 'schedules longer than two deliveries are covered only through the arbitrary counters (one inductive step); '
                                   'responses with Message ID == own counter while nothing is outstanding cannot be produced by an honest peer and are '
                                   'not judged; counters within 16 of 2^32'},
                assumptions=['the delivered datagram is authentic: its checksum is Integrity.compute(sender key, header..ciphertext) (HMAC uninterpreted)',
                             'the stored response is whatever the history left; only its byte identity on retransmission is checked',
                             'environment stubs: os.urandom / time.time / random are deterministic harness objects'],
                stubs=['crypto.HMAC (UF)', 'struct pack/unpack (bit-vector)', 'enum lookup (equality chain)', 'Xfrm.create_sa/delete_sa -> ghost SAD',
                       'ikesa.json.dumps (placeholder for proxies)', 'clock/randomness'])
    chk.run(build_instances(tier))
    return chk.finish(replay=lambda v: common.native_replay_subprocess('C08', v))
