"""C13 - retransmission, dead-peer detection and lifetimes are bounded and faithful.
The clock is a symbolic variable: time.time() of ikesa.py returns arbitrary non-decreasing instants (millisecond integers;
the code's constants stay in seconds).  (a) from every request-outstanding situation (every request kind, also after COOKIE and
INVALID_KE_PAYLOAD retries) k timer ticks at arbitrary instants: every datagram returned is byte-identical to the datagram last
handed to the network, never before its deadline, at most the built-in number of times, deadlines at non-decreasing
distances, DELETED after the budget; an answered request is never retransmitted.  (b) DPD fires exactly when nothing
authentic arrived for the configured interval.  (c) rekey starts within lifetime + [0, 5] s, the delete request follows
30 s later even if the rekey keeps being pushed back."""
import json

from . import common, world, c08
from .common import Instance, Check

MODS = None


def _ticks(eng, k, t_from_ms, name='t'):
    """k arbitrary non-decreasing instants >= t_from (ms)"""
    from symx import core
    out = []
    prev = t_from_ms
    for i in range(k):
        t = eng.sym_int(f'{name}{i}', 0, 1 << 50)
        eng.assume(t >= prev)
        out.append(t)
        prev = t
    return out


# ---- situations with an outstanding request: -> (pair, me, E, sent datagram, genuine response or None)
def situation(name):
    S = MODS['ikesa'].IkeSa.State
    if name.startswith('state:'):
        _, who, st = name.split(':')
        p = world.Pair()
        sent = p.to_state(who, st)
        me, E = (p.a, p.A) if who == 'A' else (p.b, p.B)
        return p, me, E, sent, ('B' if who == 'A' else 'A')
    if name == 'cookie_retry':
        p = world.Pair()
        p.b.cookie_secret = b'secret!!'
        m1 = p.init_req()
        c = p.send('B', m1)                      # COOKIE notification, B is DELETED: a fresh responder answers the retry
        sent = p.send('A', c)
        p.fresh_b()
        p.b.cookie_secret = b'secret!!'
        return p, p.a, p.A, sent, 'B'
    if name == 'init_invalid_ke':
        p = world.Pair(dh_ike=('ecp256', 'ecp384'), dh_ike_b=('ecp384', 'ecp256'))
        m1 = p.init_req()
        r = p.send('B', m1)                      # INVALID_KE_PAYLOAD(20)
        sent = p.send('A', r)
        p.fresh_b()
        return p, p.a, p.A, sent, 'B'
    if name == 'child_invalid_ke':
        p = world.Pair(child_dh=('ecp256', 'ecp384'), child_dh_b=('ecp384', 'ecp256'))
        p.establish()
        tsi, tsr = p.acquire_tss()
        req = p.A.call(p.a.process_acquire, tsi, tsr, 1)
        r = p.send('B', req)
        sent = p.send('A', r)
        assert sent is not None and p.a.state == S.NEW_CHILD_REQ_SENT
        return p, p.a, p.A, sent, 'B'
    if name == 'rekey_child_invalid_ke':
        p = world.Pair(child_dh=('ecp256', 'ecp384'), child_dh_b=('ecp384', 'ecp256'))
        p.establish()
        req = p.A.call(p.a.process_expire, p.a.child_sas[0].inbound_spi, False)
        r = p.send('B', req)
        sent = p.send('A', r)
        assert sent is not None and p.a.state == S.REK_CHILD_REQ_SENT
        return p, p.a, p.A, sent, 'B'
    if name == 'rekey_ike_invalid_ke':
        p = world.Pair(dh_ike=('ecp256', 'ecp384'), dh_ike_b=('ecp384', 'ecp256'))
        p.establish()
        world.ENV.now = p.a.rekey_ike_sa_at + 10
        req = p.A.call(p.a.check_rekey_ike_sa_timer)
        r = p.send('B', req)
        sent = p.send('A', r)
        assert sent is not None and p.a.state == S.REK_IKE_SA_REQ_SENT
        return p, p.a, p.A, sent, 'B'
    raise ValueError(name)


def _fresh_b(self):
    ik = MODS['ikesa']
    self.b = ik.IkeSa(is_initiator=False, peer_spi=self.a.my_spi, configuration=self.configuration.get_ike_configuration(world.IP2, world.IP1),
                      my_addr=world.IP2, peer_addr=world.IP1)
    self.B = world.Endpoint('B', self.b)


SITUATIONS = ['state:A:INIT_REQ_SENT', 'state:A:AUTH_REQ_SENT', 'state:A:NEW_CHILD_REQ_SENT', 'state:A:REK_CHILD_REQ_SENT',
              'state:A:REK_IKE_SA_REQ_SENT', 'state:A:DEL_CHILD_REQ_SENT', 'state:A:DEL_IKE_SA_REQ_SENT',
              'state:A:DEL_AFTER_REKEY_IKE_SA_REQ_SENT', 'state:A:DPD_REQ_SENT',
              'state:B:NEW_CHILD_REQ_SENT', 'state:B:REK_CHILD_REQ_SENT', 'state:B:REK_IKE_SA_REQ_SENT', 'state:B:DEL_CHILD_REQ_SENT',
              'state:B:DEL_IKE_SA_REQ_SENT', 'state:B:DEL_AFTER_REKEY_IKE_SA_REQ_SENT', 'state:B:DPD_REQ_SENT',
              'cookie_retry', 'init_invalid_ke', 'child_invalid_ke', 'rekey_child_invalid_ke', 'rekey_ike_invalid_ke']


def h_retx(sit, k, answer_at, then_new=False, peer_request_at=None):
    """k ticks; if answer_at is not None the genuine response is delivered just before tick `answer_at`; if peer_request_at is not None the peer (which
    has not seen our request) starts a liveness check of its own just before that tick and gets its answer: our own request stays on its schedule"""
    from symx import core
    eng = core.engine()
    ik = MODS['ikesa'].IkeSa
    S = ik.State
    p, me, E, sent, other = situation(sit)
    sent = bytes(sent)
    t_send = me.retransmit_at - ik.RETRANSMISSION_DELAY           # the instant the request was handed to the network
    t0 = t_send.ms
    ticks = _ticks(eng, k, t0)
    P = eng.prove
    n_ret = 0
    deadlines = [me.retransmit_at.ms]
    outstanding = True
    after_d4 = 0
    D4 = t0 + 1000 * sum(ik.RETRANSMISSION_DELAY * i for i in range(1, ik.MAX_RETRANSMISSIONS + 1))
    for i, t in enumerate(ticks):
        if peer_request_at == i and outstanding and me.state != S.DELETED:
            world.ENV.now = world.T(t)
            peer_sa, PE = (p.a, p.A) if other == 'A' else (p.b, p.B)
            if peer_sa.state == S.ESTABLISHED:
                peer_sa.start_dpd_at = world.T(0)
                probe = PE.call(peer_sa.check_dead_peer_detection_timer)
                assert probe is not None
                ans = E.call(me.process_message, probe)
                if ans is None:
                    return {'class': ['retx'], 'violation': 'a request of the peer that arrived while our own request is outstanding was not answered'}
                PE.call(peer_sa.process_message, ans)
        if answer_at == i and outstanding:
            # the peer's genuine answer arrives now
            world.ENV.now = world.T(t)
            res = p.send(other, sent)
            nxt = E.call(me.process_message, res) if res is not None else None
            if nxt is not None:
                # a follow-up request is outstanding now: it is the one that may be retransmitted from here on
                sent = bytes(nxt)
                t0 = t
                deadlines = [me.retransmit_at.ms]
                n_ret = 0
                D4 = t0 + 1000 * sum(ik.RETRANSMISSION_DELAY * j for j in range(1, ik.MAX_RETRANSMISSIONS + 1))
                after_d4 = 0
            elif then_new and me.state == S.ESTABLISHED and me.child_sas:
                # the exchange is over; the NEXT request of this IKE_SA starts right now (the kernel reports a hard expire)
                nxt = E.call(me.process_expire, me.child_sas[0].inbound_spi, True)
                assert nxt is not None
                sent = bytes(nxt)
                t0 = t
                deadlines = [me.retransmit_at.ms]
                n_ret = 0
                D4 = t0 + 1000 * sum(ik.RETRANSMISSION_DELAY * j for j in range(1, ik.MAX_RETRANSMISSIONS + 1))
                after_d4 = 0
            else:
                outstanding = False
        world.ENV.now = world.T(t)
        deadline = me.retransmit_at.ms if isinstance(me.retransmit_at, world.T) else 0
        st_before = me.state
        r = E.call(me.check_retransmission_timer)
        if r is not None:
            if not outstanding:
                return {'class': ['retx'], 'violation': 'an answered request was retransmitted'}
            n_ret += 1
            if bytes(r) != sent:
                return {'class': ['retx'], 'violation': 'a retransmission is not byte-identical to the request last sent'}
            P(t > deadline, 'a request was retransmitted before its deadline')
            deadlines.append(me.retransmit_at.ms)
        elif outstanding and st_before != S.DELETED and me.state != S.DELETED:
            # nothing sent although a request is outstanding: only allowed before the deadline
            P(core.sym_not(t > deadline), 'the retransmission deadline passed but nothing was retransmitted')
        if outstanding:
            after_d4 = after_d4 + core.sym_ite_int(t > D4, 1, 0)
        if me.state == S.DELETED:
            break
    if n_ret > ik.MAX_RETRANSMISSIONS:
        return {'class': ['retx'], 'violation': f'{n_ret} retransmissions exceed the built-in maximum {ik.MAX_RETRANSMISSIONS}'}
    # intervals: from handing the request to the network to the first deadline, then between consecutive deadlines
    gaps = [deadlines[0] - t0] + [b - a for a, b in zip(deadlines, deadlines[1:])]
    if outstanding:
        for n, d in enumerate(deadlines[:ik.MAX_RETRANSMISSIONS]):
            P(d <= t0 + 1000 * sum(ik.RETRANSMISSION_DELAY * j for j in range(1, n + 2)),
              f'deadline {n + 1} of the outstanding request lies beyond the built-in schedule (the retransmission budget grows)')
    for g1, g2 in zip(gaps, gaps[1:]):
        P(g2 >= g1, 'retransmission intervals decrease')
    for g in gaps:
        P(g > 0, 'retransmission interval is not positive')
    if outstanding and me.state != S.DELETED:
        P(after_d4 < ik.MAX_RETRANSMISSIONS, 'the retransmission budget is exhausted but the IKE_SA was not given up')
    if me.state == S.DELETED and outstanding:
        P(ticks[min(i, k - 1)] > t0 + 1000 * ik.RETRANSMISSION_DELAY, 'the IKE_SA was given up before the first deadline')
    return ['retx', n_ret, 'deleted' if me.state == S.DELETED else ('answered' if not outstanding else 'waiting')]


def h_dpd(who):
    """an authentic message arrives at an arbitrary instant, then the DPD timer is polled at an arbitrary later instant"""
    from symx import core
    eng = core.engine()
    S = MODS['ikesa'].IkeSa.State
    dpd = eng.sym_int('dpd_s', 1, 86400)
    p = world.Pair()
    p.establish()
    me, E, peer, PE, other = (p.a, p.A, p.b, p.B, 'B') if who == 'A' else (p.b, p.B, p.a, p.A, 'A')
    me.configuration = me.configuration._replace(dpd=dpd)
    base = world.ENV.now.ms
    t_arr = eng.sym_int('t_arrival', base, 1 << 50)
    t_poll = eng.sym_int('t_poll', base, 1 << 50)
    eng.assume(t_poll >= t_arr)
    # the peer's DPD request (authentic) arrives at t_arr
    world.ENV.now = peer.start_dpd_at + 3600
    req = PE.call(peer.check_dead_peer_detection_timer)
    world.ENV.now = world.T(t_arr)
    res = E.call(me.process_message, req)
    if res is None or me.state != S.ESTABLISHED:
        return {'class': ['dpd'], 'violation': 'DPD request of the peer not answered'}
    world.ENV.now = world.T(t_poll)
    r = E.call(me.check_dead_peer_detection_timer)
    P = eng.prove
    due = t_poll > t_arr + dpd * 1000
    if r is not None:
        P(due, 'dead-peer detection started although something authentic arrived within the DPD interval')
        if me.state != S.DPD_REQ_SENT:
            return {'class': ['dpd'], 'violation': 'DPD request sent but state is not DPD_REQ_SENT'}
        return ['dpd', 'probe']
    P(core.sym_not(due), 'nothing authentic arrived for the DPD interval but no probe was sent')
    return ['dpd', 'quiet']


def h_lifetime(scn, subject='initiator'):
    """creation instant, jitter and poll instants arbitrary; scn: 'plain' | 'pushed_back' (rekey answered TEMPORARY_FAILURE); subject: the IKE_SA whose
    lifetime is watched - of the initial exchange ('initiator' / 'responder') or created by an IKE_SA rekey ('successor_i' at the endpoint that started
    the rekey, 'successor_r' at the one that answered it)"""
    from symx import core
    eng = core.engine()
    S = MODS['ikesa'].IkeSa.State
    m = MODS['message']
    jitter = eng.sym_int('jitter_ms', 0, 5000)
    t_c = 1_000_000_000

    def setup(env):
        env.uniform_hook = lambda a, b: world.Dur(jitter if b == 5 else 0)
    p = world.Pair(env_setup=setup)
    p.establish()
    a = p.a
    if subject == 'responder':
        # the same clauses for the responder of the initial exchange: swap the roles of the pair
        p.a, p.b, p.A, p.B = p.b, p.a, p.B, p.A
        a = p.a
    elif subject.startswith('successor'):
        t_c = t_c + 400_000
        world.ENV.now = world.T(t_c)
        p.a.rekey_ike_sa_at = world.T(t_c - 1)
        rk = p.A.call(p.a.check_rekey_ike_sa_timer)
        dele = p.A.call(p.a.process_message, p.send('B', rk))
        p.A.call(p.a.process_message, p.send('B', dele))
        na, nb = p.a.new_ike_sa, p.b.new_ike_sa
        if na is None or nb is None or na.state != S.ESTABLISHED or nb.state != S.ESTABLISHED:
            return ['n/a', 'rekey did not complete']
        if subject == 'successor_i':
            p.a, p.b = na, nb
            p.A.obj, p.B.obj = na, nb
        else:
            p.a, p.b, p.A, p.B = nb, na, p.B, p.A
            p.A.obj, p.B.obj = nb, na
        a = p.a
    lifetime = a.configuration.lifetime
    D_rekey = t_c + lifetime * 1000 + jitter
    D_delete = D_rekey + 30000
    P = eng.prove
    if not isinstance(a.rekey_ike_sa_at, world.T) or not isinstance(a.delete_ike_sa_at, world.T):
        return {'class': ['lifetime'], 'violation': f'{subject}: the lifetime deadlines of the IKE_SA are not armed ({a.rekey_ike_sa_at!r} / {a.delete_ike_sa_at!r})'}
    P(core.sym_and(a.rekey_ike_sa_at.ms == D_rekey, a.delete_ike_sa_at.ms == D_delete), f'{subject}: deadlines are not creation + lifetime + jitter (+30 s)')
    t1 = eng.sym_int('t1', t_c, 1 << 50)
    world.ENV.now = world.T(t1)
    r = p.A.call(a.check_rekey_ike_sa_timer)
    if r is None:
        P(core.sym_not(t1 > D_rekey), 'lifetime (plus jitter) elapsed but no rekey was started')
        return ['lifetime', 'idle']
    P(t1 > t_c + lifetime * 1000, 'rekey/delete started before the lifetime elapsed')
    msg = m.Message.parse(bytes(r), crypto=a.my_crypto)
    is_delete = bool(msg.get_payloads(m.Payload.Type.DELETE, True))
    if is_delete:
        P(t1 > D_delete, 'IKE_SA delete started before lifetime + jitter + 30 s')
        return ['lifetime', 'delete']
    P(core.sym_and(t1 > D_rekey, core.sym_not(t1 > D_delete)), 'rekey request outside (lifetime+jitter, +30 s]')
    if scn == 'plain':
        return ['lifetime', 'rekey']
    # the peer is busy: TEMPORARY_FAILURE, again and again (n rounds); the hard deadline must not move
    for rnd in range(2):
        p.b.state = S.DPD_REQ_SENT           # any state other than ESTABLISHED makes the peer answer TEMPORARY_FAILURE
        t2 = eng.sym_int(f't_tf{rnd}', 0, 1 << 50)
        eng.assume(t2 >= t1)
        world.ENV.now = world.T(t2)
        tf = p.send('B', r)
        nxt = p.A.call(a.process_message, tf)
        if nxt is not None or a.state != S.ESTABLISHED:
            return {'class': ['lifetime'], 'violation': 'TEMPORARY_FAILURE did not bring the IKE_SA back to ESTABLISHED'}
        t3 = eng.sym_int(f't_poll{rnd}', 0, 1 << 50)
        eng.assume(t3 >= t2)
        world.ENV.now = world.T(t3)
        r = p.A.call(a.check_rekey_ike_sa_timer)
        if r is None:
            P(core.sym_not(t3 > D_delete), 'the IKE_SA was not deleted 30 s after its lifetime although the rekey did not succeed')
            return ['lifetime', 'pushed back', rnd]
        msg = m.Message.parse(bytes(r), crypto=a.my_crypto)
        if msg.get_payloads(m.Payload.Type.DELETE, True):
            P(t3 > D_delete, 'IKE_SA delete started before lifetime + jitter + 30 s')
            return ['lifetime', 'delete after push back', rnd]
        P(core.sym_not(t3 > D_delete), 'a rekey was retried although the hard lifetime (+30 s) had passed')
        t1 = t3
    return ['lifetime', 'retried']


def h_shared(kind):
    """TWO IKE_SAs of the same connection (same configuration objects), as after simultaneous initiations: while the request of the first is
    outstanding the second starts a negotiation of its own (arbitrary kind); the retransmission of the first is still byte-identical"""
    from symx import core
    eng = core.engine()
    ik = MODS['ikesa'].IkeSa
    S = ik.State
    m = MODS['message']
    p1 = world.Pair()
    sent = bytes(p1.to_state('A', {'init': 'INIT_REQ_SENT', 'auth': 'AUTH_REQ_SENT', 'child': 'NEW_CHILD_REQ_SENT', 'rekey_child': 'REK_CHILD_REQ_SENT',
                                   'rekey_ike': 'REK_IKE_SA_REQ_SENT'}[kind]))
    x, X = p1.a, p1.A
    now = world.ENV.now
    # the second IKE_SA of the same connection: a second initiator object built on the SAME IkeConfiguration, driven against its own responder
    y = MODS['ikesa'].IkeSa(is_initiator=True, peer_spi=b'\0' * 8, configuration=x.configuration, my_addr=world.IP1, peer_addr=world.IP2)
    yb = MODS['ikesa'].IkeSa(is_initiator=False, peer_spi=y.my_spi, configuration=p1.b.configuration, my_addr=world.IP2, peer_addr=world.IP1)
    Y, YB = world.Endpoint('Y', y), world.Endpoint('YB', yb)
    what = eng.sym_int('second_negotiation', 0, 3)
    w = eng.concretize(what, 0, 3) if not isinstance(what, int) else what
    tsi, tsr = p1.acquire_tss()
    d = Y.call(y.process_acquire, tsi, tsr, 1)               # IKE_SA_INIT request of the second IKE_SA
    to, other = (yb, YB), (y, Y)
    if w >= 1:
        for _ in range(8):
            if d is None:
                break
            d = to[1].call(to[0].process_message, d)
            to, other = other, to
        if y.state != S.ESTABLISHED:
            return ['n/a', y.state.name]
        if w == 2:
            Y.call(y.process_expire, y.child_sas[0].inbound_spi, False)      # CHILD_SA rekey request
        elif w == 3:
            world.ENV.now = y.rekey_ike_sa_at + 10
            Y.call(y.check_rekey_ike_sa_timer)                               # IKE_SA rekey request
    world.ENV.now = x.retransmit_at + 1
    r = X.call(x.check_retransmission_timer)
    if r is None:
        return {'class': ['shared'], 'violation': 'nothing retransmitted after the deadline'}
    if bytes(r) != sent:
        return {'class': ['shared'], 'violation': f'{kind} request: after another IKE_SA of the same connection started a negotiation of its own ('
                                                  f'{["IKE_SA_INIT", "initial exchanges", "CHILD_SA rekey", "IKE_SA rekey"][w]}), the retransmission is not byte-identical to the '
                                                  f'request that was sent'}
    return ['shared', kind, w]


BUSY_STEPS_MS = (250, 400, 900, 1000, 1700)


def h_busy(kind, n_children=1, vanished=None):
    """the peer crashes; the daemon's REAL main_loop keeps being woken up by unrelated events (select never times out) every `step` (arbitrary among
    BUSY_STEPS_MS): the probe, the retransmissions and the teardown must still happen - IKE_SA and kernel SAs gone within DPD interval + budget"""
    from symx import core
    eng = core.engine()
    ik = MODS['ikesa'].IkeSa
    dpd_s = 5
    if vanished:
        # the kernel model sits behind the netlink socket: the real xfrm.py error handling runs (a DELSA for an SA that is gone is answered ESRCH)
        world.SWITCH.install(MODS['xfrm'], wire=True)
        world.wire_env(MODS)
    else:
        world.SWITCH.install(MODS['xfrm'], wire=False)
    n = world.Net(dpd=dpd_s, ike_lifetime=360000, lifetime=36000)
    n.establish()
    if vanished:
        # the kernel already removed one of the two SAs of the CHILD_SA on its own (hard expiry) before the peer died
        ch = n.a.ike_sas[0].child_sas[0]
        key = world.Kernel.key(world.IP2, 50, ch.outbound_spi) if vanished == 'outbound' else world.Kernel.key(world.IP1, 50, ch.inbound_spi)
        assert key in n.A.kernel.sad
        del n.A.kernel.sad[key]
    for i in range(n_children - 1):
        n.pump('B', n.acquire('A', sport=9100 + i, dport=23))
    assert len(n.a.ike_sas[0].child_sas) == n_children and len(n.A.kernel.sad) == 2 * n_children - (1 if vanished else 0)
    c = eng.sym_int('step', 0, len(BUSY_STEPS_MS) - 1)
    step = BUSY_STEPS_MS[eng.concretize(c, 0, len(BUSY_STEPS_MS) - 1) if not isinstance(c, int) else c] / 1000.0
    budget = sum(ik.RETRANSMISSION_DELAY * i for i in range(1, ik.MAX_RETRANSMISSIONS + 1))
    horizon = dpd_s + budget + 2 * max(step, 1) + 1
    m = MODS['message']
    junk = bytes(m.Message(spi_i=b'UNKNOWN!', spi_r=b'unknown!', major=2, minor=0, exchange_type=37, is_response=False, can_use_higher_version=False,
                           is_initiator=True, message_id=7, payloads=[], encrypted_payloads=[]).to_bytes())
    est = n.a.ike_sas[0]
    forged = bytearray(m.Message(spi_i=est.spi_i, spi_r=est.spi_r, major=2, minor=0, exchange_type=37, is_response=False, can_use_higher_version=False,
                                 is_initiator=False, message_id=est.peer_msg_id, payloads=[], encrypted_payloads=[], crypto=est.peer_crypto).to_bytes())
    forged[-1] ^= 0xFF          # right SPIs, wrong checksum
    ev = {'udp_junk': {'kind': 'udp', 'dst': world.IP1, 'src': '203.0.113.77', 'data': junk},
          'udp_cleartext_spis': {'kind': 'udp', 'dst': world.IP1, 'src': str(world.IP2),
                                 'data': bytes(m.Message(spi_i=est.spi_i, spi_r=est.spi_r, major=2, minor=0, exchange_type=37, is_response=False, can_use_higher_version=False,
                                                         is_initiator=False, message_id=est.peer_msg_id, payloads=[], encrypted_payloads=[]).to_bytes())},
          'udp_runt': {'kind': 'udp', 'dst': world.IP1, 'src': '203.0.113.77', 'data': b'\x00' * 11},
          'udp_bad_checksum': {'kind': 'udp', 'dst': world.IP1, 'src': str(world.IP2), 'data': bytes(forged)},
          'udp_unconfigured_init': {'kind': 'udp', 'dst': world.IP1, 'src': '203.0.113.77', 'data': bytes(n.b.ike_sas[0].ike_sa_init_req_data or junk) if False else
                                    bytes(m.Message(spi_i=b'NEWPEER!', spi_r=b'\0' * 8, major=2, minor=0, exchange_type=34, is_response=False, can_use_higher_version=False,
                                                    is_initiator=True, message_id=0, payloads=[], encrypted_payloads=[]).to_bytes())},
          'xfrm_runt': {'kind': 'xfrm', 'data': b'\x01\x02\x03'},
          'xfrm_junk': {'kind': 'xfrm', 'data': world.expire_bytes(b'\xde\xad\xbe\xef', True)},
          'control': {'kind': 'control'},
          'idle': {'kind': 'tick'}}[kind]
    iters = int(horizon / step) + 2
    lp = world.Loop(n.A, tick_s=step)
    t_start = world.ENV.now.ms
    try:
        ok = lp.run([dict(ev) for _ in range(iters)])
    except Exception as ex:      # noqa
        return {'class': ['busy'], 'violation': f'main_loop terminated with {type(ex).__name__}: {ex}'}
    to_peer = [d for _, dst, d in lp.outbox if dst[0] == str(world.IP2)]
    if n.a.ike_sas or n.A.kernel.sad:
        return {'class': ['busy'], 'violation': f'peer crashed, one {kind} event every {step} s: {horizon:.1f} s (DPD interval {dpd_s} s + retransmission budget {budget} s + slack) '
                                                f'later the IKE_SA is still {[e.state.name for e in n.a.ike_sas]} with {len(n.A.kernel.sad)} kernel SAs; {len(to_peer)} datagrams were sent to the peer'}
    if not (1 <= len(to_peer) <= ik.MAX_RETRANSMISSIONS) or len(set(bytes(x) for x in to_peer)) != 1:
        return {'class': ['busy'], 'violation': f'{len(to_peer)} datagrams to the crashed peer ({len(set(bytes(x) for x in to_peer))} distinct), expected the probe '
                                                f'transmitted byte-identically at most {ik.MAX_RETRANSMISSIONS} times'}
    return ['busy', kind]


def build_instances(tier):
    inst = []
    nat = common.native_of
    for kind in ('init', 'auth', 'child', 'rekey_child', 'rekey_ike'):
        inst.append(Instance(f'retransmission of a {kind} request beside a second IKE_SA of the same connection', h_shared, (kind,), native=nat(h_shared),
                             engine_kw={'max_ticks': 10 ** 7}, must_reach=[('identical', lambda o: o[0] == 'shared')]))
    for kind in ('udp_junk', 'udp_cleartext_spis', 'udp_runt', 'udp_bad_checksum', 'udp_unconfigured_init', 'xfrm_runt', 'xfrm_junk', 'control', 'idle'):
        inst.append(Instance(f'peer crash under steady {kind} events', h_busy, (kind,), native=nat(h_busy), engine_kw={'max_ticks': 10 ** 7},
                             must_reach=[('torn down', lambda o: o[0] == 'busy')]))
    for v in ('outbound', 'inbound'):
        inst.append(Instance(f'peer crash after the kernel dropped the {v} SA by itself', h_busy, ('idle', 1, v), native=nat(h_busy), engine_kw={'max_ticks': 10 ** 7},
                             must_reach=[('torn down', lambda o: o[0] == 'busy')]))
    for k in (2, 3):
        inst.append(Instance(f'peer crash, IKE_SA with {k} CHILD_SAs', h_busy, ('idle', k), native=nat(h_busy), engine_kw={'max_ticks': 10 ** 7},
                             must_reach=[('torn down', lambda o: o[0] == 'busy')]))
    k = 6 if tier == 'quick' else 9
    for sit in ('state:A:NEW_CHILD_REQ_SENT', 'state:A:DPD_REQ_SENT', 'state:B:REK_CHILD_REQ_SENT', 'state:A:DEL_CHILD_REQ_SENT', 'state:B:DPD_REQ_SENT'):
        for at in ((1, 3) if tier == 'quick' else (0, 1, 2, 3, 4)):
            inst.append(Instance(f'retransmit {sit} k=5 while the peer runs a liveness check of its own before tick {at}', h_retx, (sit, 5, None, False, at),
                                 native=nat(h_retx), must_reach=[('deleted', lambda o: o[-1] == 'deleted')]))
    for sit in SITUATIONS:
        inst.append(Instance(f'retransmit {sit} k={k}', h_retx, (sit, k, None), native=nat(h_retx),
                             must_reach=[('given up', lambda o: len(o) > 2 and o[0] == 'retx' and o[2] == 'deleted'),
                                         ('retransmitted', lambda o: len(o) > 2 and o[0] == 'retx' and o[1] >= 1)]))
        for at in ((0, 2) if tier == 'quick' else (0, 1, 2, 3, 4)):
            inst.append(Instance(f'retransmit {sit} k={k - 2} answered_at={at}', h_retx, (sit, k - 2, at), native=nat(h_retx)))
        if sit.startswith('state:') and sit.split(':')[2] in ('NEW_CHILD_REQ_SENT', 'DPD_REQ_SENT', 'REK_CHILD_REQ_SENT', 'AUTH_REQ_SENT'):
            for at in ((2,) if tier == 'quick' else (1, 2, 3)):
                inst.append(Instance(f'retransmit {sit} k={k - 1} answered_at={at} then the next request', h_retx, (sit, k - 1, at, True), native=nat(h_retx)))
    for who in ('A', 'B'):
        inst.append(Instance(f'dpd {who}', h_dpd, (who,), native=nat(h_dpd),
                             must_reach=[('probe', lambda o: o == ['dpd', 'probe']), ('quiet', lambda o: o == ['dpd', 'quiet'])]))
    for scn in ('plain', 'pushed_back'):
        for subject in ('responder', 'successor_i', 'successor_r'):
            inst.append(Instance(f'lifetime {scn} of the {subject}', h_lifetime, (scn, subject), native=nat(h_lifetime)))
        inst.append(Instance(f'lifetime {scn}', h_lifetime, (scn,), native=nat(h_lifetime),
                             must_reach=[('rekey or delete', lambda o: len(o) > 1 and o[0] == 'lifetime' and o[1] != 'idle')]))
    return inst


def _load(shim):
    global MODS
    MODS = world.load(shim=shim)
    c08.MODS = MODS
    world.Pair.fresh_b = _fresh_b
    return MODS


def replay_file(path):
    return common.generic_replay_file(path, lambda: build_instances('thorough') + build_instances('quick'), lambda: _load(False))


def main(tier, seed):
    _load(True)
    ik = MODS['ikesa'].IkeSa
    chk = Check('C13', tier, seed,
                functions=common.src_hash(ik.check_retransmission_timer, ik._send_request, ik.check_dead_peer_detection_timer,
                                          ik.check_rekey_ike_sa_timer, ik.process_message, ik.process_ike_sa_init_response,
                                          ik.process_create_child_sa_response, ik.handle_invalid_ke, ik.__init__),
                bounds={'clock': 'time.time() returns arbitrary non-decreasing instants, integer milliseconds in [0, 2^50]; constants of the code in seconds',
                        'retransmission': f'21 request-outstanding situations (16 states of both roles + COOKIE retry + 4 INVALID_KE_PAYLOAD retries), '
                                          f'k = 6 (thorough 9) ticks; answer delivered before tick 0/2 (thorough 0..4)',
                        'dpd': 'DPD interval 1..86400 s, arrival and poll instants arbitrary, both roles',
                        'lifetime': 'jitter 0..5000 ms, poll instants arbitrary; rekey pushed back by TEMPORARY_FAILURE up to 2 times',
                        'outside': 'float rounding of time.time(); the select() timeout and the sweep loop of main_loop (C17 drives it); '
                                   'kernel-side removal of the SAs of a given-up IKE_SA is asserted in C16/C10 (state DELETED -> delete_child_sas)'},
                assumptions=['the clock is monotone', 'message bytes are concrete here (one history per situation); only instants, jitter and the DPD interval are symbolic'],
                stubs=['ikesa.time.time / random.uniform (symbolic)', 'kernel ghost', 'os.urandom deterministic'])
    chk.run(build_instances(tier))
    return chk.finish(replay=lambda v: common.native_replay_subprocess('C13', v))
