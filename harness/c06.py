"""C06 - parsing any byte string terminates and fails only with a protocol error.
Symbolic: every byte of the buffer.  Oracle: outcome class of the real parser per path; a per-path
step budget linear in the buffer length (ticks = struct calls + symbolic decisions)."""
import json
import signal
import sys
import traceback

from . import common
from .common import Instance, Check


def _classify(fn, mods):
    m = mods['message']
    try:
        fn()
        return ['ok']
    except m.IkeSaError as ex:
        if type(ex) in (m.InvalidSyntax, m.UnsupportedCriticalPayload):
            return ['proto', type(ex).__name__]
        return ['BAD', type(ex).__name__, 'protocol-family exception other than InvalidSyntax/UnsupportedCriticalPayload']
    except Exception as ex:
        tb = traceback.extract_tb(ex.__traceback__)
        site = next((f'{f.filename.split("/")[-1]}:{f.name}' for f in reversed(tb) if f.filename.startswith(common.REPO)), '?')
        return ['BAD', type(ex).__name__, site]


def _wrap(cls):
    return {'class': cls, 'violation': f'non-protocol exception {cls[1]} at {cls[2]}' if cls[0] == 'BAD' else None}


MODS = None
UNITS = ['Transform', 'Proposal', 'PayloadSA', 'PayloadKE', 'PayloadNONCE', 'PayloadNOTIFY', 'PayloadIDi', 'PayloadAUTH',
         'TrafficSelector', 'PayloadTSi', 'PayloadDELETE', 'PayloadVENDOR', 'PayloadSK']


def h_unit(unit, n):
    from symx import core
    eng = core.engine()
    d = eng.sym_bytes('d', n)
    cls = getattr(MODS['message'], unit)
    return _wrap(_classify(lambda: cls.parse(d), MODS))


def n_unit(inputs, unit, n):
    cls = getattr(MODS['message'], unit)
    return _classify(lambda: cls.parse(bytes.fromhex(inputs['d'])), MODS)


def h_msg(n, first_type, header_only=False, keyed=False):
    """whole datagram; the first-payload byte is pinned per instance (sharding, all 256 values are covered
    by the instances: the 12 known types, 0, and one instance for 'any other value')"""
    from symx import core
    import z3
    eng = core.engine()
    d = eng.sym_bytes('d', n)
    if n > 16:
        b = d.items[16]
        if first_type == 'other':
            known = [int(k) for k in MODS['message'].Message.type_2_payload] + [0]
            eng.assume(core.SymBool(z3.And(*[b != k for k in known])))
        elif first_type is not None:
            eng.assume(core.SymBool(b == first_type))
    crypto = None
    if keyed:
        # a key context is present (as for every datagram an IKE_SA with keys receives) although the datagram need not carry an SK payload
        c = MODS['crypto']
        cipher, integ, prf = _crypto(12)
        crypto = c.Crypto(cipher, b'e' * 32, integ, b'a' * 32, prf, b'p' * 32)
    return _wrap(_classify(lambda: MODS['message'].Message.parse(d, header_only=header_only, crypto=crypto), MODS))


def n_msg(inputs, n, first_type, header_only=False, keyed=False):
    crypto = None
    if keyed:
        c = MODS['crypto']
        cipher, integ, prf = _crypto(12)
        crypto = c.Crypto(cipher, b'e' * 32, integ, b'a' * 32, prf, b'p' * 32)
    return _classify(lambda: MODS['message'].Message.parse(bytes.fromhex(inputs['d']), header_only=header_only, crypto=crypto), MODS)


def _crypto(integ_id=12):
    m, c = MODS['message'], MODS['crypto']
    T = m.Transform
    cipher = c.Cipher(T(T.Type.ENCR, T.EncrId.ENCR_AES_CBC, 256))
    integ = c.Integrity(T(T.Type.INTEG, integ_id))
    prf = c.Prf(T(T.Type.PRF, T.PrfId.PRF_HMAC_SHA2_256))
    return cipher, integ, prf


def h_keyed(ct_len, integ_id, inner_type=None, min_pad=0):
    """authentic-or-not SK payload: header concrete, inner first type / IV / ciphertext / ICV symbolic; the body the
    (uninterpreted) cipher returns is arbitrary, so the inner parser sees every byte string of that length"""
    from symx import core
    eng = core.engine()
    m, c = MODS['message'], MODS['crypto']
    cipher, integ, prf = _crypto(integ_id)
    crypto = c.Crypto(cipher, eng.sym_bytes('sk_e', 32), integ, eng.sym_bytes('sk_a', integ.key_size), prf, b'p' * 32)
    hs = integ.hash_size
    inner = eng.sym_bytes('inner_type', 1)
    if inner_type == 'other':
        import z3
        known = [int(k) for k in m.Message.type_2_payload] + [0]
        eng.assume(core.SymBool(z3.And(*[inner.items[0] != k for k in known])))
    elif inner_type is not None:
        eng.assume(inner[0] == inner_type)
    body = eng.sym_bytes('iv_ct_icv', 16 + ct_len + hs)
    total = 28 + 4 + len(body)
    hdr = bytes(8) + bytes([1] * 8) + bytes([46, 0x20, 37, 0x08]) + (3).to_bytes(4, 'big') + total.to_bytes(4, 'big')
    d = hdr + inner + bytes([0]) + (4 + len(body)).to_bytes(2, 'big') + body
    if min_pad:
        # bound: the Pad Length octet of whatever the cipher returns is >= min_pad (body of <= ct_len-1-min_pad bytes)
        real_dec = cipher.decrypt

        def dec(key, iv, data):
            out = real_dec(key, iv, data)
            eng.assume(out[-1] >= min_pad)
            return out
        cipher.decrypt = dec
    return _wrap(_classify(lambda: m.Message.parse(d, crypto=crypto), MODS))


WORK_BODIES = {
    'DELETE spi_size=0 count=65535': (42, b'\x03\x00\xff\xff'),
    'DELETE spi_size=1 count=65535': (42, b'\x03\x01\xff\xff' + b'\x07' * 4),
    'DELETE spi_size=4 count=65535': (42, b'\x03\x04\xff\xff' + b'\x07' * 8),
    'DELETE spi_size=255 count=65535': (42, b'\x03\xff\xff\xff' + b'\x07' * 8),
    'NOTIFY spi_size=255': (41, b'\x01\xff\x00\x01' + b'\x07' * 8),
    'TS count=255': (44, b'\xff\x00\x00\x00' + b'\x07\x00\x00\x10' + b'\x00' * 12),
    'SA proposal with 255 transforms announced': (33, b'\x00\x00\x00\x10\x01\x01\x00\xff' + b'\x00\x00\x00\x08\x01\x00\x00\x0c'),
    'SA proposal spi_size=255': (33, b'\x00\x00\x00\x0c\x01\x01\xff\x00' + b'\x00' * 4),
    'KE': (34, b'\xff\xff\x00\x00' + b'\x07' * 8),
    'VENDOR': (43, b'\x07' * 12),
}


def h_work():
    """work bound: count fields taken from the wire at their maximum in tiny datagrams (case split over WORK_BODIES x clear / inside an authentic
    Encrypted payload): parsing AND the eager structured dump execute a number of Python lines that is linear in the length of the datagram"""
    import sys
    from symx import core
    eng = core.engine()
    m = MODS['message']
    names = sorted(WORK_BODIES)
    c = eng.sym_int('body', 0, len(names) - 1)
    name = names[eng.concretize(c, 0, len(names) - 1) if not isinstance(c, int) else c]
    ptype, body = WORK_BODIES[name]
    payload = bytes([0, 0]) + (4 + len(body)).to_bytes(2, 'big') + body
    total = 28 + len(payload)
    data = b'I' * 8 + b'R' * 8 + bytes([ptype, 0x20, 37, 0x08]) + (7).to_bytes(4, 'big') + total.to_bytes(4, 'big') + payload
    lines = [0]
    here = m.__file__

    def tracer(frame, event, arg):
        if frame.f_code.co_filename == here:
            lines[0] += 1
        return tracer
    old = sys.gettrace()
    sys.settrace(tracer)
    try:
        try:
            msg = m.Message.parse(data)
            text = repr(msg.to_dict())
        except m.IkeSaError:
            text = ''
    finally:
        sys.settrace(old)
    bound = 400 * len(data) + 4000
    if lines[0] > bound or len(text) > 200 * len(data) + 4000:
        return {'class': ['work'], 'violation': f'{name}: a datagram of {len(data)} bytes made the parser and the dump execute {lines[0]} lines of message.py and render '
                                                f'{len(text)} characters (bound: {bound} lines): the work follows a count field of the datagram, not its length'}
    return ['work', name]


def _tr(i, last):
    return bytes([0 if last else 3, 0, 0, 8, 1, 0]) + (1000 + i).to_bytes(2, 'big')


FAMILIES = {
    # name -> (first payload type, body of the payload as a function of the number of elements)
    'SA: one proposal, n distinct transforms': (33, lambda n: (lambda trs: b'\x00\x00' + (8 + len(trs)).to_bytes(2, 'big') + bytes([1, 3, 0, n % 256]) + trs)(
        b''.join(_tr(i, i == n - 1) for i in range(n)))),
    'SA: n proposals': (33, lambda n: b''.join(bytes([0 if i == n - 1 else 2, 0, 0, 16, (i % 255) + 1, 3, 0, 1]) + _tr(i, True) for i in range(n))),
    'SA: one transform with n attributes': (33, lambda n: (lambda at: b'\x00\x00' + (8 + 8 + len(at)).to_bytes(2, 'big') + bytes([1, 3, 0, 1]) +
                                                           b'\x00\x00' + (8 + len(at)).to_bytes(2, 'big') + b'\x01\x00\x00\x0c' + at)(
        b''.join(b'\x80\x0e' + (128 + i).to_bytes(2, 'big') for i in range(n)))),
    'TS: n selectors': (44, lambda n: bytes([n % 256, 0, 0, 0]) + b''.join(b'\x07\x06\x00\x10' + (i).to_bytes(2, 'big') + (i + 1).to_bytes(2, 'big') + bytes([10, 0, 0, 0, 10, 0, 0, 255])
                                                                       for i in range(n))),
    'DELETE: n SPIs': (42, lambda n: b'\x03\x04' + n.to_bytes(2, 'big') + b''.join((i + 1).to_bytes(4, 'big') for i in range(n))),
    'chain of n VENDOR payloads': (43, None),
    'chain of n NOTIFY payloads': (41, None),
}


def _family_datagram(name, n):
    ptype, gen = FAMILIES[name]
    if gen is not None:
        body = gen(n)
        chain = bytes([0, 0]) + (4 + len(body)).to_bytes(2, 'big') + body
    else:
        one = (lambda i: i.to_bytes(4, 'big')) if ptype == 43 else (lambda i: b'\x00\x00' + (16384 + i % 8).to_bytes(2, 'big') + i.to_bytes(4, 'big'))
        chain = b''
        for i in range(n):
            b = one(i)
            chain += bytes([0 if i == n - 1 else ptype, 0]) + (4 + len(b)).to_bytes(2, 'big') + b
    total = 28 + len(chain)
    return b'I' * 8 + b'R' * 8 + bytes([ptype, 0x20, 37, 0x08]) + (7).to_bytes(4, 'big') + total.to_bytes(4, 'big') + chain


def _lines_of(m, data):
    import sys
    lines = [0]
    here = m.__file__

    def tracer(frame, event, arg):
        if frame.f_code.co_filename == here:
            lines[0] += 1
        return tracer
    old = sys.gettrace()
    sys.settrace(tracer)
    try:
        try:
            msg = m.Message.parse(data)
            repr(msg.to_dict())
            outcome = 'parsed'
        except m.IkeSaError:
            outcome = 'refused'
    finally:
        sys.settrace(old)
    return lines[0], outcome


def h_scaling():
    """work grows linearly with the NUMBER OF ELEMENTS of every list-like structure (case split over FAMILIES): twice as many distinct transforms,
    proposals, attributes, selectors, SPIs, chained payloads cost at most 2.6 times the Python lines of message.py (parse + eager dump), plus a constant"""
    from symx import core
    eng = core.engine()
    m = MODS['message']
    names = sorted(FAMILIES)
    c = eng.sym_int('family', 0, len(names) - 1)
    name = names[eng.concretize(c, 0, len(names) - 1) if not isinstance(c, int) else c]
    n = 110
    l1, o1 = _lines_of(m, _family_datagram(name, n))
    l2, o2 = _lines_of(m, _family_datagram(name, 2 * n))
    if l2 > 2.6 * l1 + 2000:
        return {'class': ['scaling'], 'violation': f'{name}: {n} elements cost {l1} lines of message.py, {2 * n} elements cost {l2}: more than linear in the length of the datagram'}
    return ['scaling', name, o1, o2]


def build_instances(tier):
    inst = [Instance('work is linear in the datagram length', h_work, (), native=common.native_of(h_work), engine_kw={'max_ticks': 10 ** 7}),
            Instance('work is linear in the number of elements', h_scaling, (), native=common.native_of(h_scaling), engine_kw={'max_ticks': 10 ** 7})]
    unit_n = {'quick': (0, 1, 3, 4, 8, 12), 'thorough': (0, 1, 2, 3, 4, 5, 7, 8, 9, 12, 16)}[tier]
    for u in UNITS:
        for n in unit_n:
            if u in ('Proposal', 'PayloadSA', 'PayloadTSi') and n > 16 and tier == 'quick':
                continue
            inst.append(Instance(f'{u}.parse n={n}', h_unit, (u, n), native=n_unit,
                                 engine_kw={'max_ticks': 400 + 40 * n}))
    # selector lists need 4 + 16 bytes before a second selector header is read in place: longer bodies for the TS payloads
    for u in ('PayloadTSi', 'PayloadTSr'):
        if u in UNITS:
            for n in {'quick': (20, 24), 'thorough': (20, 21, 24, 28)}[tier]:
                inst.append(Instance(f'{u}.parse n={n}', h_unit, (u, n), native=n_unit, engine_kw={'max_ticks': 400 + 40 * n}))
    known = sorted(int(k) for k in MODS['message'].Message.type_2_payload)
    for n in {'quick': (0, 27, 28, 29, 31), 'thorough': (0, 1, 16, 27, 28, 29, 30, 31)}[tier]:
        inst.append(Instance(f'Message.parse n={n}', h_msg, (n, None), native=n_msg, engine_kw={'max_ticks': 400 + 40 * n}))
    inst.append(Instance('Message.parse header_only n=28', h_msg, (28, None, True), native=n_msg))
    inst.append(Instance('Message.parse header_only n=27', h_msg, (27, None, True), native=n_msg))
    for n in {'quick': (32,), 'thorough': (32, 36)}[tier]:
        for ft in known + [0, 'other']:
            inst.append(Instance(f'Message.parse n={n} first={ft}', h_msg, (n, ft), native=n_msg,
                                 engine_kw={'max_ticks': 400 + 40 * n}))
    for n in (28, 32):
        for ft in ((0, 'other', 43) if tier == 'quick' else known + [0, 'other']):
            if ft == 46:
                continue
            inst.append(Instance(f'Message.parse with keys n={n} first={ft}', h_msg, (n, ft, False, True), native=n_msg, engine_kw={'max_ticks': 400 + 40 * n}))
    for ct in (16,):
        for integ in {'quick': (12,), 'thorough': (2, 12, 14)}[tier]:
            for it in known + [0, 'other']:
                inst.append(Instance(f'keyed Message.parse ct={ct} integ={integ} inner={it}', h_keyed, (ct, integ, it, 8),
                                     engine_kw={'max_ticks': 2000},
                                     must_reach=[('checksum rejected', lambda o: o[0] == 'proto')]))
    # authentic Encrypted payloads of every short / odd body length: IV only, less than an IV, ciphertext not a multiple of the block
    for ct in {'quick': (-16, -1, 0, 1, 15, 17, 32), 'thorough': tuple(range(-16, 2)) + (8, 15, 17, 31, 32, 33, 48)}[tier]:
        for integ in {'quick': (12,), 'thorough': (2, 12, 14)}[tier]:
            inst.append(Instance(f'keyed Message.parse ct={ct} integ={integ} inner=any', h_keyed, (ct, integ, None, max(8, ct - 8)),
                                 engine_kw={'max_ticks': 2000, 'max_wall_s': 300}))
    # biggest first
    inst.sort(key=lambda i: (not i.name.startswith('keyed'), -((i.args[0] if isinstance(i.args[0], int) else i.args[1]) if i.args else 0)))
    return inst


def _replay_native(v):
    return common.native_replay_subprocess('C06', v)


def replay_file(path):
    """native replay: unshimmed modules.  exit 1 iff the violation reproduces"""
    global MODS
    MODS = common.load_repo(shim=False)
    v = json.load(open(path))
    name = v['instance']
    inp = v['inputs']

    def alarm(*a):
        raise TimeoutError('HANG')
    signal.signal(signal.SIGALRM, alarm)
    signal.alarm(10)
    m = MODS['message']
    if name.startswith('keyed'):
        import hmac, hashlib
        ct = int(name.split('ct=')[1].split()[0]); integ_id = int(name.split('integ=')[1].split()[0])
        cipher, integ, prf = _crypto(integ_id)
        sk_e, sk_a = bytes.fromhex(inp['sk_e']), bytes.fromhex(inp['sk_a'])
        crypto = MODS['crypto'].Crypto(cipher, sk_e, integ, sk_a, prf, b'p' * 32)
        hs = integ.hash_size
        body = bytearray(bytes.fromhex(inp['iv_ct_icv']))
        plain = next((bytes.fromhex(val) for k, val in inp.items() if k.startswith('aes_cbc_dec')), None)
        if plain is not None:
            body[16:16 + ct] = cipher.encrypt(sk_e, bytes(body[:16]), plain)
        total = 28 + 4 + len(body)
        hdr = bytes(8) + bytes([1] * 8) + bytes([46, 0x20, 37, 0x08]) + (3).to_bytes(4, 'big') + total.to_bytes(4, 'big')
        d = bytearray(hdr + bytes.fromhex(inp['inner_type']) + bytes([0]) + (4 + len(body)).to_bytes(2, 'big') + body)
        if plain is not None:
            d[-hs:] = integ.compute(sk_a, d[:-hs])
        fn = lambda: m.Message.parse(bytes(d), crypto=crypto)
    elif name.startswith('Message.parse with keys'):
        cipher, integ, prf = _crypto(12)
        crypto = MODS['crypto'].Crypto(cipher, b'e' * 32, integ, b'a' * 32, prf, b'p' * 32)
        fn = lambda: m.Message.parse(bytes.fromhex(inp['d']), crypto=crypto)
    elif name.startswith('work is linear'):   # both work harnesses
        return common.generic_replay_file(path, lambda: build_instances('quick'), lambda: None)
    elif name.startswith('Message.parse'):
        fn = lambda: m.Message.parse(bytes.fromhex(inp['d']), header_only='header_only' in name)
    else:
        cls = getattr(m, name.split('.')[0])
        fn = lambda: cls.parse(bytes.fromhex(inp['d']))
    try:
        cls_ = _classify(fn, MODS)
    except TimeoutError:
        print('REPRODUCED: parser did not terminate within 10 s')
        return 1
    signal.alarm(0)
    print('native outcome:', cls_)
    return 1 if cls_[0] == 'BAD' else 0


def classify_known(v):
    return None


def main(tier, seed):
    global MODS
    MODS = common.load_repo()
    m = MODS['message']
    chk = Check('C06', tier, seed,
                functions=common.src_hash(m.Message.parse, m.Message._parse_payloads, m.PayloadSK.decrypt, m.Proposal.parse,
                                          m.Transform.parse, m.PayloadSA.parse, m.PayloadTS.parse, m.TrafficSelector.parse,
                                          m.PayloadDELETE.parse, m.PayloadNOTIFY.parse, m.PayloadID.parse,
                                          m.PayloadAUTH.parse, m.PayloadKE.parse),
                bounds={'unit buffers': 'every byte string of the listed lengths per payload class',
                        'datagram': 'every byte string of length 0,27..32 (thorough: also 1,16,30, and 36 bytes with the first payload type fixed to each '
                                    'known type, 0 and "any other"); longer datagrams are outside the claim except through the per-unit harnesses',
                        'keyed': 'every (key, IV, ciphertext, ICV) with 16 bytes of ciphertext, 1 (thorough: 3) integrity '
                                 'algorithms, the decrypted body being arbitrary with Pad Length >= 8, i.e. inner payload chains of up to 7 bytes',
                        'step budget': '400 + 40 * len(buffer) engine ticks per path (struct calls + decisions); exceeding '
                                       'it is reported as non-termination/super-linear work',
                        'range cap': 'PayloadDELETE num_spis > 4 is cut (the loop is bounded by the 16-bit field, not by '
                                     'the input length; iterations only slice)'},
                assumptions=['struct/bytes/enum/dict models in symx.shims are exact (each falls through to the real '
                             'function on concrete arguments; one witness per path is re-run through the code with '
                             'concrete bytes and must give the same outcome class)',
                             'HMAC and AES-CBC are uninterpreted functions (arbitrary but functional; decrypt returns '
                             'arbitrary bytes of the ciphertext length; ValueError when length % 16 != 0)'],
                stubs=['message.unpack_from/pack/pack_into', 'enum.EnumType.__call__', 'Message.type_2_payload (SymDict)',
                       'Transform._transform_id_enums (SymDict)', 'message.range', 'message.ip_address', 'crypto.HMAC',
                       'crypto.Cipher.encrypt/decrypt'])
    chk.run(build_instances(tier))
    return chk.finish(classify=classify_known, replay=_replay_native)
