"""C03 - unprotected or forged messages cannot affect an IKE_SA that has keys.
One step of the real IkeSa.process_message from every key-bearing state (both roles, incl. REKEYED and the rekeyed
successor).  The delivered datagram is NOT authentic: (1) no Encrypted payload at all (cleartext payload shapes, arbitrary
header), (2) an Encrypted payload whose checksum field is arbitrary but different from the MAC, (3) protected with another
key, (4) the endpoint's own message reflected, (5) an authentic datagram with one arbitrary byte position overwritten by
an arbitrary different value, (6) truncations.  Oracle: the result is None or a protocol error (or the stored IKE_SA_INIT
response for a retransmitted IKE_SA_INIT request) and the snapshot of the IKE_SA - state, counters, CHILD_SAs, liveness
timer, caches, kernel requests - is unchanged."""
import json

from . import common, world, c08
from .common import Instance, Check

MODS = None


def endpoint(p, who):
    """'A'/'B' = the original IKE_SAs, 'A2'/'B2' = their rekeyed successors"""
    if who in ('A', 'B'):
        return (p.a, p.A, p.b) if who == 'A' else (p.b, p.B, p.a)
    if who == 'A2':
        return p.a.new_ike_sa, p.A, p.b.new_ike_sa
    return p.b.new_ike_sa, p.B, p.a.new_ike_sa


def build(who, state):
    p = world.Pair()
    if who in ('A2', 'B2'):
        # successor of a completed IKE_SA rekey initiated by A
        p.outstanding = p.to_state('A', 'DEL_AFTER_REKEY_IKE_SA_REQ_SENT')
    else:
        p.outstanding = p.to_state(who, state)
    me, E, peer = endpoint(p, who)
    return p, me, E, peer


def clear_datagram(p, me, shape):
    """a cleartext datagram (no SK payload) with the IKE_SA's SPIs"""
    m = MODS['message']
    P = m.Proposal
    T = m.Transform
    payloads = {
        'empty': [],
        'delete_ike': [m.PayloadDELETE(P.Protocol.IKE, [])],
        'delete_esp': [m.PayloadDELETE(P.Protocol.ESP, [me.child_sas[0].inbound_spi] if me.child_sas else [b'\1\2\3\4'])],
        'notify_auth_failed': [m.PayloadNOTIFY(P.Protocol.NONE, m.PayloadNOTIFY.Type.AUTHENTICATION_FAILED)],
        'notify_cookie': [m.PayloadNOTIFY(P.Protocol.NONE, m.PayloadNOTIFY.Type.COOKIE, b'', b'c' * 32)],
        'sa_nonce_ke': [m.PayloadSA([P(1, P.Protocol.IKE, b'12345678', [T(T.Type.ENCR, T.EncrId.ENCR_AES_CBC, 256),
                                                                        T(T.Type.INTEG, T.IntegId.AUTH_HMAC_SHA2_256_128),
                                                                        T(T.Type.PRF, T.PrfId.PRF_HMAC_SHA2_256),
                                                                        T(T.Type.DH, T.DhId.DH_19)])]),
                        m.PayloadNONCE(b'n' * 32), m.PayloadKE(19, b'k' * 64)],
        'child_sa': [m.PayloadSA([P(1, P.Protocol.ESP, b'\1\2\3\4', [T(T.Type.ENCR, T.EncrId.ENCR_AES_CBC, 256),
                                                                     T(T.Type.INTEG, T.IntegId.AUTH_HMAC_SHA2_256_128),
                                                                     T(T.Type.ESN, T.EsnId.NO_ESN)])]),
                     m.PayloadNONCE(b'n' * 32)],
    }[shape]
    msg = m.Message(spi_i=me.spi_i, spi_r=me.spi_r, major=2, minor=0, exchange_type=37, is_response=False,
                    can_use_higher_version=False, is_initiator=not me.is_initiator, message_id=0, payloads=payloads,
                    encrypted_payloads=[])
    return bytes(msg.to_bytes())


def judge(eng, me, E, s0, dpd0, ret, exc, allow_cached=None):
    from symx import core
    s1 = world.snapshot(me, E.kernel)
    diff, terms = world.snap_diff(s0, s1)
    cls = ['raised', type(exc).__name__] if exc is not None else ['returned', 'None' if ret is None else 'bytes']
    if exc is not None and not isinstance(exc, MODS['message'].IkeSaError):
        return {'class': cls, 'violation': f'forged message made process_message raise {type(exc).__name__}: {exc}'}
    if diff:
        return {'class': cls, 'violation': f'forged/unprotected message changed the IKE_SA: {diff}'}
    if terms:
        eng.prove(core.sym_and(*[t for _, t in terms]), f'forged/unprotected message changed the IKE_SA: {[k for k, _ in terms]}')
    same_dpd = (me.start_dpd_at.ms == dpd0.ms)
    eng.prove(same_dpd, 'forged/unprotected message re-armed the liveness (DPD) timer')
    if ret is not None:
        if allow_cached is None:
            return {'class': cls, 'violation': 'forged/unprotected message elicited a reply'}
        cond, cached = allow_cached
        eng.prove(cond, 'a reply was sent to an unprotected message that is not a retransmitted IKE_SA_INIT request')
        eng.prove(ret == cached, 'reply to a retransmitted IKE_SA_INIT request is not the stored response')
    return cls


def deliver(me, E, d):
    try:
        return E.call(me.process_message, d), None
    except Exception as ex:      # noqa - every exception is judged
        return None, ex


def h_clear(who, state, shape):
    from symx import core
    eng = core.engine()
    S = MODS['ikesa'].IkeSa.State
    p, me, E, peer = build(who, state)
    fp = None
    if shape == 'init_req':
        d0 = p.first_init_req()
    elif shape == 'notify_sym':
        # a cleartext notification of ARBITRARY type (16 bits) with 2 arbitrary data bytes
        d0 = clear_datagram(p, me, 'notify_auth_failed')
        d0 = core.SymBytes.lift(d0[:34]) + eng.sym_int('notify_type', 0, 0xFFFF).to_bytes(2, 'big') + d0[36:]
    elif shape == 'raw_payload':
        # one cleartext payload of ARBITRARY UNKNOWN type, arbitrary critical/reserved octet and 4 arbitrary body bytes
        d0 = clear_datagram(p, me, 'empty')
        crit = eng.sym_int('critical_octet', 0, 255)
        d0 = core.SymBytes.lift(d0[:24] + (36).to_bytes(4, 'big') + b'\0') + core.SymBytes([core.int_to_byte(crit)]) + b'\0\x08' + eng.sym_bytes('body', 4)
        fp = eng.sym_int('payload_type', 1, 255)
        # a type pyikev2 has no class for (the known ones: other shapes and C06); critical or not
        for known in MODS['message'].Message.type_2_payload:
            eng.assume(fp != int(known))
    else:
        d0 = clear_datagram(p, me, shape)
    exch = eng.sym_int('exch', 0, 255)
    flags = eng.sym_int('flags', 0, 255)
    if shape in ('raw_payload', 'notify_sym'):
        # the sender's role flag is the peer's (other values: the other shapes); request/response and the remaining bits arbitrary
        eng.assume(((flags & 0x08) != 0) != me.is_initiator)
    mid = eng.sym_int('mid', 0, 0xFFFFFFFF)
    d = world.restamp(d0, None, exchange=exch, flags=flags, mid=mid, first_payload=fp)
    world.ENV.now = world.ENV.now + 7          # the liveness timer would move if it were re-armed
    if me.state not in (S.INIT_RES_SENT, S.AUTH_REQ_SENT):
        # arbitrary counters: any history length (the stored response is then some encrypted response)
        me.my_msg_id = eng.sym_int('my_msg_id', 0, 0xFFFFFFF0)
        me.peer_msg_id = eng.sym_int('peer_msg_id', 0, 0xFFFFFFF0)
        if not hasattr(me, 'last_sent_response_data'):
            me.last_sent_response_data = b'<stored encrypted response>'
    s0 = world.snapshot(me, E.kernel)
    dpd0 = me.start_dpd_at
    peer0 = me.peer_msg_id
    state0 = me.state
    cached = getattr(me, 'last_sent_response_data', None)
    ret, exc = deliver(me, E, d)
    # the only reply ever allowed: the stored IKE_SA_INIT response for a retransmitted IKE_SA_INIT request
    retrans = core.sym_and(exch == 34, (flags & 0x20) == 0, mid == 0, peer0 == 1, ((flags & 0x08) != 0) != me.is_initiator)
    return judge(eng, me, E, s0, dpd0, ret, exc, allow_cached=(retrans, cached) if (cached is not None and state0 == S.INIT_RES_SENT) else None)


def forged_base(p, who, kind, eng, sym_header=True):
    """an authentic datagram of the peer (or the endpoint's own one for kind 'reflect') and the header overrides"""
    from symx import core
    me, E, peer = endpoint(p, who)
    if kind == 'reflect':
        d0 = p.outstanding if (who in ('A', 'B') and p.outstanding is not None and me.request is not None
                               and me.state.name.endswith('REQ_SENT')) else getattr(me, 'last_sent_response_data', None)
        if d0 is None:
            return None
        d0 = bytes(d0)
    else:
        if who in ('A2', 'B2'):
            # a DPD request of the successor's peer
            world.ENV.now = peer.start_dpd_at + 3600
            PE = p.B if who == 'A2' else p.A
            d0 = PE.call(peer.check_dead_peer_detection_timer)
        else:
            got = c08.peer_datagram(p, who, kind)
            if got is None:
                return None
            d0 = got[0]
        d0 = bytes(d0)
    if d0[16] != 46:
        return None         # not a protected message (IKE_SA_INIT): class (1) covers cleartext
    if not sym_header:
        return d0
    exch = eng.sym_int('exch', 0, 255)
    flags = eng.sym_int('flags', 0, 255)
    mid = eng.sym_int('mid', 0, 0xFFFFFFFF)
    return world.restamp(d0, None, exchange=exch, flags=flags, mid=mid)


def h_forged(who, state, kind, how):
    """how: 'icv' arbitrary checksum != MAC; 'otherkey' MAC under another key; 'reflect' own message, own key"""
    from symx import core
    eng = core.engine()
    c08.MODS = MODS
    p, me, E, peer = build(who, state)
    d = forged_base(p, who, 'reflect' if how == 'reflect' else kind, eng)
    if d is None or me.peer_crypto is None:
        return ['n/a']
    d = core.SymBytes.lift(d)
    integ = me.peer_crypto.integrity
    n = integ.hash_size
    true_mac = integ.compute(me.peer_crypto.sk_a, d[:-n])
    if how == 'icv':
        icv = eng.sym_bytes('icv', n)
    elif how == 'otherkey':
        other = eng.sym_bytes('other_sk_a', len(me.peer_crypto.sk_a))
        eng.assume(other != me.peer_crypto.sk_a)
        icv = integ.compute(other, d[:-n])
    else:
        icv = integ.compute(me.my_crypto.sk_a, d[:-n])
    # unforgeability axiom: a checksum not issued by the holder of the peer's key differs from the MAC
    eng.assume(core.SymBytes.lift(icv) != true_mac)
    d = core.SymBytes(d.items[:-n] + core.SymBytes.lift(icv).items, True)
    world.ENV.now = world.ENV.now + 7
    s0 = world.snapshot(me, E.kernel)
    dpd0 = me.start_dpd_at
    ret, exc = deliver(me, E, d)
    return judge(eng, me, E, s0, dpd0, ret, exc)


def h_tamper(who, state, kind, region):
    """authentic datagram with ONE byte, at an arbitrary position of `region`, replaced by an arbitrary different value"""
    from symx import core
    import z3
    eng = core.engine()
    c08.MODS = MODS
    p, me, E, peer = build(who, state)
    d0 = forged_base(p, who, kind, eng, sym_header=False)
    if d0 is None or me.peer_crypto is None:
        return ['n/a']
    L = len(d0)
    integ = me.peer_crypto.integrity
    n = integ.hash_size
    lo, hi = {'header': (0, 28), 'sk_header_iv': (28, 48), 'ciphertext': (48, L - n), 'icv': (L - n, L), 'any': (0, L)}[region]
    pos = eng.sym_int('pos', lo, hi - 1)
    val = eng.sym_int('val', 0, 255)
    orig = core.SymBytes.lift(d0)
    if isinstance(pos, int):        # concrete re-run
        eng.assume(d0[pos] != val)
        d = bytearray(d0)
        d[pos] = val
    else:
        items = []
        differs = []
        for i, b in enumerate(d0):
            if lo <= i < hi:
                t = z3.If(pos.t == i, z3.Extract(7, 0, val.t), z3.BitVecVal(b, 8))
                items.append(t)
                differs.append(z3.And(pos.t == i, z3.Extract(7, 0, val.t) != b))
            else:
                items.append(b)
        eng.assume(core._mk_bool(z3.Or(*differs)))
        d = core.SymBytes(items, True)
    # collision-freeness axiom for the MAC, relative to the one authentic (message, checksum) pair the adversary saw
    real_compute = integ.compute
    icv0 = d0[L - n:]

    def compute(key, data):
        tag = real_compute(key, data)
        if isinstance(data, core.SymBytes) and not data.is_concrete() and len(data) == L - n:
            same = data.eq_term(orig[:L - n])
            teq = core.SymBytes.lift(tag).eq_term(icv0)
            eng._add(same == teq)
        return tag
    integ.compute = compute
    world.ENV.now = world.ENV.now + 7
    s0 = world.snapshot(me, E.kernel)
    dpd0 = me.start_dpd_at
    ret, exc = deliver(me, E, d)
    return judge(eng, me, E, s0, dpd0, ret, exc)


def h_trunc(who, state, kind, cut):
    """authentic datagram cut to `cut` bytes (negative: from the end), header otherwise arbitrary"""
    from symx import core
    eng = core.engine()
    c08.MODS = MODS
    p, me, E, peer = build(who, state)
    d = forged_base(p, who, kind, eng)
    if d is None or me.peer_crypto is None:
        return ['n/a']
    d = core.SymBytes.lift(d)
    L = len(d)
    k = cut if cut >= 0 else L + cut
    if not (0 <= k < L):
        return ['n/a']
    d = core.SymBytes(d.items[:k], True)
    integ = me.peer_crypto.integrity
    n = integ.hash_size
    if k > n:
        # the truncated datagram's trailing bytes are not the MAC of what precedes them (collision-freeness)
        eng.assume(core.SymBytes.lift(integ.compute(me.peer_crypto.sk_a, d[:-n])) != d[-n:])
    world.ENV.now = world.ENV.now + 7
    s0 = world.snapshot(me, E.kernel)
    dpd0 = me.start_dpd_at
    ret, exc = deliver(me, E, d)
    return judge(eng, me, E, s0, dpd0, ret, exc)


def h_ctl(layout_kind, how, src=None):
    """controller level: a forged datagram carrying the SPIs of a listed IKE_SA must leave the table and the IKE_SA alone"""
    from symx import core
    eng = core.engine()
    S = MODS['ikesa'].IkeSa.State
    c = world.Ctl()
    ep = c.new_initiator()
    c.handshake(ep, upto=2 if layout_kind == 'half_open' else 4)
    e = ep.entry
    a = ep.obj
    exch = eng.sym_int('exch', 0, 255)
    flags = eng.sym_int('flags', 0, 255)
    mid = eng.sym_int('mid', 0, 0xFFFFFFFF)
    # IKE_SA_INIT requests create a new IKE_SA by design (C16); everything else is routed by SPI
    eng.assume(core.sym_not(core.sym_and(exch == 34, (flags & 0x20) == 0)))
    if how == 'cleartext':
        d0 = clear_datagram(None, e, 'delete_ike')
        d = world.restamp(d0, None, exchange=exch, flags=flags, mid=mid)
    else:
        # what the initiator would really send next, with an arbitrary checksum that is not the MAC
        if layout_kind == 'half_open':
            d0 = bytes(ep.call(a.process_message, ep.last_received))
        else:
            world.ENV.now = a.start_dpd_at + 3600
            d0 = bytes(ep.call(a.check_dead_peer_detection_timer))
        d = core.SymBytes.lift(world.restamp(d0, None, exchange=exch, flags=flags, mid=mid))
        integ = e.peer_crypto.integrity
        n = integ.hash_size
        icv = eng.sym_bytes('icv', n)
        eng.assume(core.SymBytes.lift(icv) != integ.compute(e.peer_crypto.sk_a, d[:-n]))
        d = core.SymBytes(d.items[:-n] + core.SymBytes.lift(icv).items, True)
    world.ENV.now = world.ENV.now + 7
    table0 = list(c.ctl.ike_sas)
    s0 = world.snapshot(e, c.E.kernel)
    dpd0 = e.start_dpd_at
    ret, exc = None, None
    try:
        ret = c.dispatch(d, peer_addr=src) if src is not None else c.dispatch(d)
    except Exception as ex:      # noqa
        exc = ex
    if len(c.ctl.ike_sas) != len(table0) or any(x is not y for x, y in zip(table0, c.ctl.ike_sas)):
        return {'class': ['ctl'], 'violation': 'a forged/unprotected datagram changed the IKE_SA table'}
    return judge(eng, e, c.E, s0, dpd0, ret, exc)


KEYED_A = tuple(s for s in world.ALL_STATES_A if s != 'INIT_REQ_SENT')
KEYED_B = world.ALL_STATES_B
FOREIGN = __import__('ipaddress').ip_address('203.0.113.9')
SHAPES = ('raw_payload', 'notify_sym', 'empty', 'delete_ike', 'delete_esp', 'notify_auth_failed', 'notify_cookie', 'sa_nonce_ke', 'child_sa', 'init_req')


def build_instances(tier):
    inst = []
    nat = common.native_of
    whos = [('A', s) for s in KEYED_A] + [('B', s) for s in KEYED_B] + [('A2', 'ESTABLISHED'), ('B2', 'ESTABLISHED')]
    reached = [('rejected or ignored', lambda o: o[0] in ('raised', 'returned'))]
    for who, st in whos:
        for shape in SHAPES:
            if tier == 'quick' and shape in ('notify_cookie', 'delete_esp') and st not in ('ESTABLISHED', 'INIT_RES_SENT', 'AUTH_REQ_SENT'):
                continue
            if tier == 'quick' and shape == 'notify_sym' and st not in ('ESTABLISHED', 'INIT_RES_SENT', 'AUTH_REQ_SENT', 'DPD_REQ_SENT', 'NEW_CHILD_REQ_SENT'):
                continue
            inst.append(Instance(f'cleartext {who} {st} {shape}', h_clear, (who, st, shape), native=nat(h_clear), must_reach=reached))
        kinds = ['response'] if st.endswith('REQ_SENT') else []
        if st not in ('INIT_RES_SENT', 'AUTH_REQ_SENT', 'REKEYED', 'DEL_AFTER_REKEY_IKE_SA_REQ_SENT'):
            kinds += ['dpd', 'new_child'] + (['del_child', 'rekey_ike', 'del_ike', 'rekey_child'] if tier == 'thorough' else [])
        if st == 'INIT_RES_SENT':
            kinds = ['auth_req']
        if who in ('A2', 'B2'):
            kinds = ['dpd']
        for kind in kinds:
            for how in ('icv', 'otherkey'):
                inst.append(Instance(f'forged {who} {st} <- {kind} {how}', h_forged, (who, st, kind, how), native=nat(h_forged)))
            regions = ('header', 'sk_header_iv', 'ciphertext', 'icv') if (tier == 'thorough' or kind in ('response', 'dpd', 'auth_req')) else ('any',)
            for region in regions:
                inst.append(Instance(f'tamper {who} {st} <- {kind} {region}', h_tamper, (who, st, kind, region), native=nat(h_tamper)))
            cuts = (0, 27, 28, 31, 32, 47, 48, 64, -33, -32, -17, -16, -15, -1) if tier == 'thorough' else (27, 28, 47, -17, -16, -1)
            for cut in cuts:
                inst.append(Instance(f'truncated {who} {st} <- {kind} cut={cut}', h_trunc, (who, st, kind, cut), native=nat(h_trunc)))
        inst.append(Instance(f'reflected {who} {st}', h_forged, (who, st, 'reflect', 'reflect'), native=nat(h_forged)))
    for lk in ('half_open', 'established'):
        for how in ('cleartext', 'icv'):
            inst.append(Instance(f'controller {lk} {how}', h_ctl, (lk, how), native=nat(h_ctl), must_reach=reached))
            # the same datagram arriving from an address that is not the peer's
            inst.append(Instance(f'controller {lk} {how} from a foreign address', h_ctl, (lk, how, FOREIGN), native=nat(h_ctl), must_reach=reached))
    return inst


def _load(shim):
    global MODS
    MODS = world.load(shim=shim)
    c08.MODS = MODS
    return MODS


def replay_file(path):
    return common.generic_replay_file(path, lambda: build_instances('thorough') + build_instances('quick'), lambda: _load(False))


def classify(v):
    return None


def main(tier, seed):
    _load(True)
    ik = MODS['ikesa'].IkeSa
    m = MODS['message']
    chk = Check('C03', tier, seed,
                functions=common.src_hash(ik.process_message, ik._process_request, ik._process_response, m.Message.parse,
                                          m.Message._parse_payloads, m.PayloadSK.decrypt, MODS['crypto'].Integrity.compute),
                bounds={'states': 'every IkeSa.State in which keys exist, both roles, plus both rekeyed successors (23 pre-states reached '
                                  'by the real code)',
                        'cleartext': '8 payload shapes without Encrypted payload; exchange type byte, flags byte and Message ID arbitrary; SPIs correct',
                        'forged': 'authentic datagram of the peer (kinds of C08) with arbitrary exchange type/flags/Message ID and (a) an '
                                  'arbitrary checksum field != MAC, (b) the MAC under any other key, (c) own datagram reflected',
                        'tamper': 'ONE byte at an arbitrary position (per region: header, SK header+IV, ciphertext, checksum) replaced by an '
                                  'arbitrary different value',
                        'truncation': 'listed cut points (quick 6, thorough 14) with arbitrary header fields',
                        'outside': 'multi-byte corruptions other than header fields + checksum; datagrams longer than the authentic one; '
                                   'cryptographic strength of HMAC (axioms below)'},
                assumptions=['unforgeability: a checksum field not computed with the peer key differs from the MAC of the datagram',
                             'collision-freeness relative to the one authentic (message, checksum) pair: MAC(d\') == checksum(d) iff d\' == d',
                             'MACs of one message under two different keys differ'],
                stubs=['crypto.HMAC (UF)', 'struct', 'enum lookup', 'kernel ghost', 'clock/randomness'])
    chk.run(build_instances(tier))
    return chk.finish(classify=classify, replay=lambda v: common.native_replay_subprocess('C03', v))
