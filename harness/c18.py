"""C18 - under load, no responder state or DH work without a valid cookie.
(a) responder IkeSa with a cookie secret: IKE_SA_INIT request with arbitrary initiator SPI, nonce, source address and 0..2
    COOKIE notifications with arbitrary data.  HMAC is uninterpreted: accepted <=> first cookie == HMAC(secret, SPIi|Ni|addr)
    as an independent spec term; otherwise the reply is exactly one COOKIE notification carrying that value, no
    Diffie-Hellman object is created and the IKE_SA ends.
(b) controller: threshold arbitrary against tables with k half-open entries: armed <=> half-open count exceeds the threshold;
    an armed, cookie-less request leaves no entry behind.
(c) initiator: on COOKIE the retried request is the previous one with the notification placed first, same SPI/nonce/KE,
    Message ID 0, and it is what is retransmitted and signed; the handshake then completes."""
import hashlib
import json

from . import common, world, c08
from .common import Instance, Check

MODS = None
PIN = ('secret', 'spi_i1', 'nonce1', 'addr1', 'spi_i2', 'nonce2', 'addr2')


def spy_dh():
    ik = MODS['ikesa']
    calls = []
    real = ik.DiffieHellman

    class Spy:
        @classmethod
        def from_group(cls, group):
            calls.append(group)
            return real.from_group(group)
    ik.DiffieHellman = Spy
    return calls, real


def _request(m, base, spi_i, nonce, cookies):
    payloads = [m.PayloadNOTIFY(m.Proposal.Protocol.NONE, m.PayloadNOTIFY.Type.COOKIE, b'', c) for c in cookies]
    for pl in base.payloads:
        payloads.append(m.PayloadNONCE(nonce) if pl.type == m.Payload.Type.NONCE else pl)
    return m.Message(spi_i=spi_i, spi_r=b'\0' * 8, major=2, minor=0, exchange_type=34, is_response=False, can_use_higher_version=False,
                     is_initiator=True, message_id=0, payloads=payloads, encrypted_payloads=[]).to_bytes()


def _respond(p, secret, spi_i, peer_addr, data):
    """a fresh responder IKE_SA armed with `secret` processes the request -> (IkeSa, reply, number of DH computations)"""
    ik = MODS['ikesa']
    b = ik.IkeSa(is_initiator=False, peer_spi=spi_i, configuration=p.configuration.get_ike_configuration(world.IP2, world.IP1),
                 my_addr=world.IP2, peer_addr=peer_addr, cookie_secret=secret)
    dh_calls, real_dh = spy_dh()
    try:
        reply = p.B.call(b.process_message, data)
    finally:
        ik.DiffieHellman = real_dh
    return b, reply, len(dh_calls)


def h_responder(n_cookies, nonce_len, cookie_len=32, version=4, variant='plain'):
    """The property does not fix the form of the cookie, only what it binds, so the reference is the responder itself: under one ARBITRARY
    secret, ISSUED(SPI, Ni, address) is the cookie the real responder puts into its COOKIE notification for a cookie-less request.
    (1) a request with arbitrary cookies is accepted iff its first cookie equals ISSUED of its own SPI, nonce and address ("returned unchanged"),
        a refusal is nothing but that one COOKIE notification, with no DH computation and no state;
    (2) ISSUED(triple1) == ISSUED(triple2) only if the triples are equal (HMAC collision-free: axiom) - the cookie binds all three."""
    from symx import core, shims
    import ipaddress
    eng = core.engine()
    shims.HMAC_UF.injective = True
    m, ik = MODS['message'], MODS['ikesa']
    S = ik.IkeSa.State
    p = world.Pair()
    base = m.Message.parse(bytes(p.init_req()))
    if variant == 'unwanted_ke_group':
        # the KE payload is in a group the responder would answer with INVALID_KE_PAYLOAD - but only to a peer that returned its cookie
        base.payloads = [m.PayloadKE(20, b'k' * 96) if x.type == m.Payload.Type.KE else x for x in base.payloads]
    elif variant == 'no_common_proposal':
        T = m.Transform
        bad = m.Proposal(1, m.Proposal.Protocol.IKE, b'', [T(T.Type.ENCR, T.EncrId.ENCR_3DES), T(T.Type.INTEG, T.IntegId.AUTH_HMAC_MD5_96),
                                                           T(T.Type.PRF, T.PrfId.PRF_HMAC_MD5), T(T.Type.DH, T.DhId.DH_2)])
        base.payloads = [m.PayloadSA([bad]) if x.type == m.Payload.Type.SA else x for x in base.payloads]
    secret = eng.sym_bytes('secret', 8)
    bits = 32 if version == 4 else 128
    cls_a = ipaddress.IPv4Address if version == 4 else ipaddress.IPv6Address
    P = eng.prove

    def triple(k):
        spi = eng.sym_bytes(f'spi_i{k}', 8)
        nonce = eng.sym_bytes(f'nonce{k}', nonce_len)
        a = eng.sym_int(f'addr{k}', 0, (1 << bits) - 1, width=bits + 8)
        return spi, nonce, a, (shims._mk_addr(cls_a, a) if not isinstance(a, int) else cls_a(a))

    def refusal(b, reply, dh, what):
        """-> the cookie of the COOKIE notification, or a violation dict"""
        if reply is None:
            return {'class': ['responder', 'silent'], 'violation': f'{what}: no reply at all'}
        if b.state != S.DELETED:
            return {'class': ['responder', 'accepted'], 'violation': f'{what}: accepted by a responder that demands cookies'}
        rep = m.Message.parse(reply)
        if len(rep.payloads) != 1 or rep.payloads[0].type != m.Payload.Type.NOTIFY:
            return {'class': ['responder', 'refused'], 'violation': f'{what}: the refusal carries something else than one notification'}
        n = rep.payloads[0]
        P(n.notification_type == m.PayloadNOTIFY.Type.COOKIE, f'{what}: the refusal is not a COOKIE notification')
        if dh:
            return {'class': ['responder', 'refused'], 'violation': f'{what}: Diffie-Hellman work was done for a request without a valid cookie'}
        if b.ike_sa_keyring is not None or b.child_sas:
            return {'class': ['responder', 'refused'], 'violation': f'{what}: state was kept for a request without a valid cookie'}
        return n.notification_data
    spi1, nonce1, a1, addr1 = triple(1)
    k1 = refusal(*_respond(p, secret, spi1, addr1, _request(m, base, spi1, nonce1, [])), 'request without a cookie')
    if isinstance(k1, dict):
        return k1
    L = core.SymBytes.lift
    # (2) binding
    spi2, nonce2, a2, addr2 = triple(2)
    k2 = refusal(*_respond(p, secret, spi2, addr2, _request(m, base, spi2, nonce2, [])), 'request without a cookie')
    if isinstance(k2, dict):
        return k2
    same = core.sym_and(L(spi1) == spi2, L(nonce1) == nonce2, a1 == a2)
    P(core.sym_or(same, L(k1) != k2) if len(k1) == len(k2) else True,
      'two requests that differ in initiator SPI, nonce or source address are issued the SAME cookie: it does not bind all three')
    if not n_cookies:
        return ['responder', 'refused']
    # (1) arbitrary cookies
    cookies = [eng.sym_bytes(f'cookie{i}', cookie_len if i == 0 else 32) for i in range(n_cookies)]
    unchanged = (L(cookies[0]) == k1) if len(cookies[0]) == len(k1) else False
    b, reply, dh = _respond(p, secret, spi1, addr1, _request(m, base, spi1, nonce1, cookies))
    if variant != 'plain' and b.state == S.DELETED and reply is not None and not dh:
        # with the right cookie such a request is answered INVALID_KE_PAYLOAD / NO_PROPOSAL_CHOSEN; without it, by a lone COOKIE
        rep = m.Message.parse(reply)
        kinds = [int(x.notification_type) for x in rep.payloads if x.type == m.Payload.Type.NOTIFY]
        P(core.sym_or(unchanged, kinds == [int(m.PayloadNOTIFY.Type.COOKIE)]),
          f'{variant}: a request WITHOUT the right cookie was answered with notifications {kinds} (the responder discloses its policy to an unverified source)')
        return ['responder', 'refused']
    if b.state == S.INIT_RES_SENT:
        P(unchanged, 'a request was accepted although its first cookie is not the cookie issued for its initiator SPI, nonce and source address')
        if reply is None or not dh:
            return {'class': ['responder', 'accepted'], 'violation': 'accepted request produced no IKE_SA_INIT response'}
        return ['responder', 'accepted']
    k = refusal(b, reply, dh, 'request with a wrong cookie')
    if isinstance(k, dict):
        return k
    P(core.sym_not(unchanged), 'the issued cookie, returned unchanged with the same SPI, nonce and address, was refused')
    P(L(k) == k1 if len(k) == len(k1) else False, 'the cookie issued for one and the same request changes from one refusal to the next')
    return ['responder', 'refused']


def h_spi_reuse():
    """controller under load (every request needs a cookie): a legitimate peer has completed the cookie round trip (its IKE_SA waits for IKE_AUTH);
    a request that REUSES its initiator SPI - other nonce, no cookie, from the same or another configured address - gets nothing but a COOKIE,
    causes no DH computation and changes nothing"""
    from symx import core
    eng = core.engine()
    m, ik = MODS['message'], MODS['ikesa']
    S = ik.IkeSa.State
    c = world.Ctl()
    c.ctl.cookie_threshold = -1
    ep = c.new_initiator()
    tsi, tsr = c.acquire_tss()
    m1 = ep.call(ep.obj.process_acquire, tsi, tsr, 1)
    r1 = c.dispatch(m1)                                   # COOKIE
    m1b = ep.call(ep.obj.process_message, r1)
    r2 = c.dispatch(m1b)                                  # IKE_SA_INIT response: the entry waits for IKE_AUTH
    entry = c.ctl.ike_sas[-1]
    if entry.state != S.INIT_RES_SENT:
        return ['n/a', entry.state.name]
    base = m.Message.parse(bytes(m1))
    nonce = eng.sym_bytes('nonce', 16)
    payloads = [m.PayloadNONCE(nonce) if x.type == m.Payload.Type.NONCE else x for x in base.payloads]
    forged = m.Message(spi_i=ep.obj.my_spi, spi_r=b'\0' * 8, major=2, minor=0, exchange_type=34, is_response=False, can_use_higher_version=False,
                       is_initiator=True, message_id=0, payloads=payloads, encrypted_payloads=[]).to_bytes()
    table0 = list(c.ctl.ike_sas)
    s0 = world.snapshot(entry, c.E.kernel)
    dh_calls, real_dh = spy_dh()
    try:
        reply = c.dispatch(forged)
    finally:
        ik.DiffieHellman = real_dh
    if reply is None:
        return {'class': ['spi_reuse'], 'violation': 'no reply at all'}
    rep = m.Message.parse(bytes(reply)) if isinstance(reply, (bytes, bytearray)) else m.Message.parse(reply)
    kinds = [int(x.type) for x in rep.payloads]
    if kinds != [int(m.Payload.Type.NOTIFY)] or int(rep.payloads[0].notification_type) != int(m.PayloadNOTIFY.Type.COOKIE):
        return {'class': ['spi_reuse'], 'violation': f'a cookie-less request reusing the initiator SPI of an exchange in progress was answered with payloads {kinds} '
                                                     f'instead of a lone COOKIE'}
    if dh_calls:
        return {'class': ['spi_reuse'], 'violation': 'Diffie-Hellman work for a cookie-less request'}
    if len(c.ctl.ike_sas) != len(table0) or any(x is not y for x, y in zip(table0, c.ctl.ike_sas)):
        return {'class': ['spi_reuse'], 'violation': 'the refused request changed the table'}
    diff, terms = world.snap_diff(s0, world.snapshot(entry, c.E.kernel))
    if diff:
        return {'class': ['spi_reuse'], 'violation': f'the refused request changed the IKE_SA of the legitimate exchange: {diff}'}
    return ['spi_reuse', 'cookie']


def h_threshold(k_half_open, k_established, history='none', same_spi=False):
    """same_spi: the half-open IKE_SAs all come from ONE source that keeps its initiator SPI (retransmissions of one request, or the request with
    another nonce): each of them cost the responder a DH computation and an IKE_SA, so each of them counts"""
    from symx import core
    eng = core.engine()
    m, ik = MODS['message'], MODS['ikesa']
    S = ik.IkeSa.State
    c = world.Ctl()
    c.ctl.cookie_threshold = 10 ** 6          # the history is built without cookies; the threshold under test is set afterwards
    first = None
    for i in range(k_half_open):
        if same_spi and first is not None:
            base = m.Message.parse(bytes(first.last_sent))
            if same_spi == 'nonce':
                base.payloads = [m.PayloadNONCE(bytes([i]) * 16) if x.type == m.Payload.Type.NONCE else x for x in base.payloads]
            c.dispatch(base.to_bytes())
            continue
        first = c.new_initiator()
        c.handshake(first, upto=2)
    for i in range(k_established):
        c.handshake(c.new_initiator(), upto=4)
    # IKE_SAs that came and went before: established and deleted by the peer / rekeyed (and the old one deleted)
    for h in history.split('+'):
        if h == 'none':
            continue
        e2 = c.new_initiator()
        c.handshake(e2, upto=4)
        a2 = e2.obj
        if h == 'deleted':
            world.ENV.now = a2.delete_ike_sa_at + 3600
            dreq = e2.call(a2.check_rekey_ike_sa_timer)
            e2.call(a2.process_message, c.dispatch(dreq))
        elif h == 'rekeyed':
            c.rekey_ike(e2, deliver_delete=True)
            k_established += 1
    thr = eng.sym_int('threshold', 0, 64)
    c.ctl.cookie_threshold = thr
    ep = c.new_initiator()
    tsi, tsr = c.acquire_tss()
    m1 = ep.call(ep.obj.process_acquire, tsi, tsr, 1)
    table0 = list(c.ctl.ike_sas)
    half0 = sum(1 for e in table0 if e.state < S.ESTABLISHED)
    assert half0 == k_half_open
    dh_calls, real_dh = spy_dh()
    try:
        reply = c.dispatch(m1)
    finally:
        ik.DiffieHellman = real_dh
    rep = m.Message.parse(reply)
    cookie = rep.get_notifies(m.PayloadNOTIFY.Type.COOKIE)
    table1 = list(c.ctl.ike_sas)
    P = eng.prove
    if cookie:
        # armed: even the most eager reading (the new half-open IKE_SA counts) needs half0 + 1 > threshold
        P(half0 + 1 > thr, 'a cookie was demanded although the number of half-open IKE_SAs does not exceed the threshold')
        if len(rep.payloads) != 1:
            return {'class': ['threshold', 'armed'], 'violation': 'COOKIE reply carries other payloads'}
        if dh_calls:
            return {'class': ['threshold', 'armed'], 'violation': 'Diffie-Hellman work before the cookie was returned'}
        if len(table1) != len(table0) or any(x is not y for x, y in zip(table0, table1)):
            return {'class': ['threshold', 'armed'], 'violation': 'the refused request left an IKE_SA behind'}
        # the initiator retries with the cookie and completes
        m1b = ep.call(ep.obj.process_message, reply)
        m2 = c.dispatch(m1b)
        m3 = ep.call(ep.obj.process_message, m2)
        m4 = c.dispatch(m3)
        r = ep.call(ep.obj.process_message, m4)
        if r is not None or ep.obj.state != S.ESTABLISHED or c.ctl.ike_sas[-1].state != S.ESTABLISHED:
            return {'class': ['threshold', 'armed'], 'violation': 'the handshake did not complete after the cookie round trip'}
        return ['threshold', 'armed']
    # not armed: even the laziest reading (the new IKE_SA does not count) must not have exceeded the threshold
    P(core.sym_not(half0 > thr), 'no cookie was demanded although the half-open IKE_SAs exceed the threshold')
    if len(table1) != len(table0) + 1:
        return {'class': ['threshold', 'open'], 'violation': 'accepted IKE_SA_INIT request did not create exactly one IKE_SA'}
    return ['threshold', 'open']


def h_spread(k1, k2):
    """the responder serves TWO configured connections (peers 192.168.0.1 and 192.168.0.3); k1 half-open IKE_SAs come from the first, k2 from the
    second; then one more request without a cookie from the first peer, with an arbitrary threshold: the half-open IKE_SAs that count are ALL of
    them (the statement: "the number of half-open IKE_SAs"), whichever connection they belong to"""
    import copy
    from ipaddress import ip_address
    from symx import core
    eng = core.engine()
    m, ik, cf, ic = MODS['message'], MODS['ikesa'], MODS['configuration'], MODS['ikesacontroller']
    S = ik.IkeSa.State
    IP3 = ip_address('192.168.0.3')
    c = world.Ctl()
    d = c.confdict
    d['carol'] = copy.deepcopy(d['alice'])
    d['carol'].update(my_addr=str(IP3))
    d['bob_carol'] = copy.deepcopy(d['bob'])
    d['bob_carol'].update(peer_addr=str(IP3))
    c.configuration = cf.Configuration([world.IP1, world.IP2, IP3], d)
    with c.E:
        c.ctl = ic.IkeSaController(my_addrs=[world.IP2], configuration=c.configuration)
    c.E.obj = c.ctl
    c.ctl.cookie_threshold = 10 ** 6
    tsi, tsr = c.acquire_tss()

    def first_request(src):
        a = ik.IkeSa(is_initiator=True, peer_spi=b'\0' * 8, configuration=c.configuration.get_ike_configuration(src, world.IP2), my_addr=src, peer_addr=world.IP2)
        ep = world.Endpoint(f'I{len(c.initiators)}', a)
        c.initiators.append(ep)
        return ep.call(a.process_acquire, tsi, tsr, 1)
    for src, k in ((world.IP1, k1), (IP3, k2)):
        for i in range(k):
            if c.dispatch(first_request(src), peer_addr=src) is None:
                return {'class': ['spread'], 'violation': 'an IKE_SA_INIT request below the threshold got no answer'}
    thr = eng.sym_int('threshold', 0, 64)
    c.ctl.cookie_threshold = thr
    table0 = list(c.ctl.ike_sas)
    half0 = sum(1 for e in table0 if e.state < S.ESTABLISHED)
    assert half0 == k1 + k2
    m1 = first_request(world.IP1)
    dh_calls, real_dh = spy_dh()
    try:
        reply = c.dispatch(m1, peer_addr=world.IP1)
    finally:
        ik.DiffieHellman = real_dh
    rep = m.Message.parse(reply)
    table1 = list(c.ctl.ike_sas)
    if rep.get_notifies(m.PayloadNOTIFY.Type.COOKIE):
        eng.prove(half0 + 1 > thr, 'a cookie was demanded although the number of half-open IKE_SAs does not exceed the threshold')
        if len(rep.payloads) != 1 or dh_calls or len(table1) != len(table0):
            return {'class': ['spread', 'armed'], 'violation': 'the COOKIE reply carries other payloads, cost a DH computation or left an IKE_SA behind'}
        return ['spread', 'armed']
    eng.prove(core.sym_not(half0 > thr), f'no cookie was demanded although the half-open IKE_SAs ({k1} of one connection + {k2} of another) exceed the threshold: '
                                         f'a full reply, a DH computation and an IKE_SA for a request without cookie')
    return ['spread', 'open']


def h_initiator(cookie_len, second=None):
    """second: a further COOKIE response arrives after the retry was sent - 'same' = a duplicate (the responder answered a retransmission of the
    cookie-less request as well), 'other' = another cookie (the responder changed its secret): the initiator's request is again the original
    request with exactly that one cookie placed first"""
    from symx import core
    eng = core.engine()
    m, ik = MODS['message'], MODS['ikesa']
    S = ik.IkeSa.State
    p = world.Pair()
    m1 = bytes(p.init_req())
    a = p.a
    cookie = eng.sym_bytes('cookie', cookie_len)
    spi_r = eng.sym_bytes('spi_r', 8)
    P = eng.prove

    def challenge(ck):
        res = m.Message(spi_i=a.my_spi, spi_r=spi_r, major=2, minor=0, exchange_type=34, is_response=True, can_use_higher_version=False,
                        is_initiator=False, message_id=0,
                        payloads=[m.PayloadNOTIFY(m.Proposal.Protocol.NONE, m.PayloadNOTIFY.Type.COOKIE, b'', ck)], encrypted_payloads=[])
        return p.A.call(a.process_message, res.to_bytes())

    def expected(ck):
        # expected retry: header of m1 (length adjusted, first payload NOTIFY) + cookie notify + the payload chain of m1
        n = len(ck)
        notify = bytes([m1[16], 0]) + (4 + 4 + n).to_bytes(2, 'big') + bytes([0, 0]) + (16390).to_bytes(2, 'big')
        total = len(m1) + 8 + n
        return core.SymBytes(list(m1[:16]) + [41] + list(m1[17:24]) + list(total.to_bytes(4, 'big')) + list(notify)) + ck + m1[28:]
    r = challenge(cookie)
    if r is None:
        return {'class': ['initiator'], 'violation': 'no retry after a COOKIE notification'}
    want = expected(cookie)
    P(core.SymBytes.lift(r) == want, 'the retried request is not the previous request with the COOKIE notification placed first')
    P(a.my_msg_id == 0, 'the retried IKE_SA_INIT request does not reuse Message ID 0')
    P(core.SymBytes.lift(a.ike_sa_init_req_data) == want, 'the bytes kept for AUTH are not the retried request')
    if second is not None:
        cookie2 = cookie if second == 'same' else eng.sym_bytes('cookie2', cookie_len)
        r2 = challenge(cookie2)
        L = core.SymBytes.lift
        if second == 'same':
            # a duplicate of a response that was already acted upon (the responder answered a retransmission too, or the network duplicated it) must
            # not change the exchange: the responder is about to answer the retry that is already on its way
            if r2 is not None:
                P(L(r2) == want if len(r2) == len(want) else False,
                  'a duplicate of the COOKIE response changed the request: it is no longer the request with the cookie placed first')
            P(L(a.ike_sa_init_req_data) == want if len(a.ike_sa_init_req_data) == len(want) else False,
              'a duplicate of the COOKIE response changed the bytes kept for AUTH: the answer to the retry already sent cannot be authenticated any more')
        else:
            # another cookie: the new one comes first; the previous one is either replaced (RFC 7296 2.6) or still follows it
            n = cookie_len
            notify = lambda first: bytes([first, 0]) + (8 + n).to_bytes(2, 'big') + bytes([0, 0]) + (16390).to_bytes(2, 'big')
            total = len(m1) + 2 * (8 + n)
            stacked = core.SymBytes(list(m1[:16]) + [41] + list(m1[17:24]) + list(total.to_bytes(4, 'big')) + list(notify(41))) + cookie2 + \
                core.SymBytes(list(notify(m1[16]))) + cookie + m1[28:]
            replaced = expected(cookie2)
            if r2 is None:
                return {'class': ['initiator'], 'violation': 'no retry after a second, different COOKIE notification'}
            sent = L(r2)
            P(core.sym_or(sent == replaced if len(sent) == len(replaced) else False, sent == stacked if len(sent) == len(stacked) else False),
              'after a second, different COOKIE response the request is not the original (or previous) request with the new cookie placed first')
            P(L(a.ike_sa_init_req_data) == sent if len(a.ike_sa_init_req_data) == len(sent) else False,
              'after a second COOKIE response the bytes kept for AUTH are not the request that was sent')
            want = sent
    world.ENV.now = a.retransmit_at + 1
    rt = p.A.call(a.check_retransmission_timer)
    if rt is None:
        return {'class': ['initiator'], 'violation': 'retried request is not retransmitted'}
    P(core.SymBytes.lift(rt) == want if len(rt) == len(want) else False, 'the retransmission after a COOKIE retry is not the retried request')
    if a.state != S.INIT_REQ_SENT:
        return {'class': ['initiator'], 'violation': f'state {a.state.name} after COOKIE'}
    return ['initiator', 'retry']


def build_instances(tier):
    inst = []
    nat = common.native_of
    for n in (0, 1, 2):
        for nl in ((16, 32) if tier == 'quick' else (16, 17, 32, 64, 255, 256)):
            inst.append(Instance(f'responder cookies={n} nonce_len={nl}', h_responder, (n, nl), pin=PIN,
                                 must_reach=[('refused', lambda o: o == ['responder', 'refused'])] +
                                            ([('accepted', lambda o: o[:2] == ['responder', 'accepted'])] if n else [])))
            if nl == 16:
                inst.append(Instance(f'responder cookies={n} nonce_len={nl} IPv6', h_responder, (n, nl, 32, 6), pin=PIN,
                                     must_reach=[('refused', lambda o: o == ['responder', 'refused'])] +
                                                ([('accepted', lambda o: o[:2] == ['responder', 'accepted'])] if n else [])))
    for variant in ('unwanted_ke_group', 'no_common_proposal'):
        for n in (0, 1):
            inst.append(Instance(f'responder cookies={n} nonce_len=16 {variant}', h_responder, (n, 16, 32, 4, variant), pin=PIN,
                                 must_reach=[('refused', lambda o: o == ['responder', 'refused'])]))
    inst.append(Instance('request reusing the SPI of an exchange in progress', h_spi_reuse, (), native=nat(h_spi_reuse),
                         must_reach=[('cookie', lambda o: o == ['spi_reuse', 'cookie'])]))
    for cl in ((1, 31, 33) if tier == 'quick' else (1, 2, 8, 16, 20, 31, 33, 48, 64)):
        inst.append(Instance(f'responder cookies=1 nonce_len=16 cookie_len={cl}', h_responder, (1, 16, cl), pin=PIN,
                             must_reach=[('refused', lambda o: o == ['responder', 'refused'])]))
    for k in ((0, 1, 2, 3) if tier == 'quick' else range(0, 13)):
        for ke in ((0, 1) if tier == 'quick' else (0, 1, 3)):
            inst.append(Instance(f'threshold half_open={k} established={ke}', h_threshold, (k, ke), native=nat(h_threshold),
                                 must_reach=[('armed', lambda o: o == ['threshold', 'armed']), ('open', lambda o: o == ['threshold', 'open'])]))
    for hist in (('deleted', 'deleted+deleted+deleted', 'rekeyed') if tier == 'quick' else
                 ('deleted', 'deleted+deleted', 'deleted+deleted+deleted', 'rekeyed', 'rekeyed+deleted', 'rekeyed+rekeyed')):
        for k in ((1, 2) if tier == 'quick' else (0, 1, 2, 5)):
            inst.append(Instance(f'threshold half_open={k} history={hist}', h_threshold, (k, 0, hist), native=nat(h_threshold),
                                 must_reach=[('armed', lambda o: o == ['threshold', 'armed']), ('open', lambda o: o == ['threshold', 'open'])]))
    for k1, k2 in (((1, 1), (2, 1), (0, 2)) if tier == 'quick' else ((1, 1), (2, 1), (0, 2), (3, 3), (5, 5), (1, 6))):
        inst.append(Instance(f'threshold half_open={k1}+{k2} spread over two connections', h_spread, (k1, k2), native=nat(h_spread),
                             must_reach=[('armed', lambda o: o == ['spread', 'armed']), ('open', lambda o: o == ['spread', 'open'])]))
    for mode in ('retransmitted', 'nonce'):
        for k in ((2, 3) if tier == 'quick' else (2, 3, 5, 8, 12)):
            inst.append(Instance(f'threshold half_open={k} one source, one initiator SPI ({mode})', h_threshold, (k, 1, 'none', mode), native=nat(h_threshold),
                                 must_reach=[('armed', lambda o: o == ['threshold', 'armed']), ('open', lambda o: o == ['threshold', 'open'])]))
    for cl in ((1, 32) if tier == 'quick' else (1, 8, 20, 32, 64)):
        inst.append(Instance(f'initiator cookie_len={cl}', h_initiator, (cl,), native=nat(h_initiator)))
        for second in ('same', 'other'):
            inst.append(Instance(f'initiator cookie_len={cl} second COOKIE response: {second}', h_initiator, (cl, second), native=nat(h_initiator)))
    return inst


def _load(shim):
    global MODS
    MODS = world.load(shim=shim)
    c08.MODS = MODS
    return MODS


def replay_file(path):
    return common.generic_replay_file(path, lambda: build_instances('thorough') + build_instances('quick'), lambda: _load(False))


def main(tier, seed):
    _load(True)
    ik, ic = MODS['ikesa'].IkeSa, MODS['ikesacontroller'].IkeSaController
    chk = Check('C18', tier, seed,
                functions=common.src_hash(ik._process_ike_sa_negotiation_request, ik.process_ike_sa_init_request, ik.process_ike_sa_init_response,
                                          ik._process_request, ic.dispatch_message, MODS['message'].PayloadNOTIFY.from_exception,
                                          ik.check_retransmission_timer),
                bounds={'responder': 'any 8-byte secret, initiator SPI, nonce (lengths 16, 32; thorough also 17, 64, 255, 256), IPv4 source address; '
                                     '0, 1 or 2 COOKIE notifications of 32 arbitrary bytes each',
                        'threshold': 'any threshold 0..64 against tables with 0..3 (thorough 0..12) half-open and 0..1 (0,1,3) established IKE_SAs, '
                                     'also after histories in which 1..3 IKE_SAs were established and then deleted or rekeyed',
                        'initiator': 'any cookie of length 1, 32 (thorough 1, 8, 20, 32, 64), any responder SPI',
                        'outside': 'IPv6 source addresses; cookies of other lengths on the responder side (compared as whole byte strings); '
                                   'secret rotation (not implemented)'},
                assumptions=['HMAC-SHA256 is an uninterpreted function (functional consistency); that a cookie bound to (SPI, nonce, address) cannot '
                             'be transplanted follows from collision-freeness, which is an axiom here',
                             '"exceeds the threshold" is accepted in both readings (with or without counting the IKE_SA being created)'],
                stubs=['ikesa.HMAC (UF)', 'struct', 'enum lookup', 'kernel ghost', 'clock/randomness', 'DiffieHellman spy (pass-through)'])
    chk.run(build_instances(tier))
    return chk.finish(replay=lambda v: common.native_replay_subprocess('C18', v))
