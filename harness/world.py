"""Two-endpoint world for the state-machine harnesses (C03, C08, C09, C10, C13, C16, C18 ...).

* a deterministic environment (clock, randomness) is installed into the namespaces of the freshly imported /repo
  modules - these are environment stubs, not C-boundary shims, and are kept in native replays as well;
* `Xfrm.create_sa` / `Xfrm.delete_sa` / flush / `create_policy` are replaced by a recorder that keeps a ghost SAD
  (the ctypes encoding below them is C14's business); a kernel refusal can be injected at the f-th request;
* real `IkeSa` / `IkeSaController` objects are driven natively (concrete crypto, ECDH P-256) to every protocol state;
* `authentic()` re-stamps a real datagram with an arbitrary (symbolic) header and the checksum the sender's keys
  give for it: "any message the peer could have sent with that header".
"""
import warnings
warnings.filterwarnings('ignore', message='.*FFDH.*')
warnings.filterwarnings('ignore', message='.*Diffie-Hellman over finite fields.*')
import hashlib
import types
from ipaddress import ip_address, ip_network

from . import common

MODS = None
ENV = None


# ----------------------------------------------------------------------------- deterministic environment
class Dur:
    """a duration in milliseconds (int or SymInt)"""
    __slots__ = ('ms',)

    def __init__(self, ms):
        self.ms = ms

    def __int__(self):
        return int(self.ms // 1000)

    def __symint__(self):
        return self.ms // 1000

    def __add__(self, o):
        if isinstance(o, T):
            return T(o.ms + self.ms)
        return Dur(self.ms + _ms(o))

    __radd__ = __add__

    def __sub__(self, o):
        return Dur(self.ms - _ms(o))

    def __rsub__(self, o):
        return Dur(_ms(o) - self.ms)

    def __mul__(self, k):
        return Dur(self.ms * k)

    __rmul__ = __mul__

    def __lt__(self, o): return self.ms < _ms(o)
    def __le__(self, o): return self.ms <= _ms(o)
    def __gt__(self, o): return self.ms > _ms(o)
    def __ge__(self, o): return self.ms >= _ms(o)

    def __repr__(self):
        return f'Dur({self.ms}ms)'


def _ms(x):
    if isinstance(x, Dur):
        return x.ms
    if isinstance(x, T):
        raise TypeError('instant used as a duration')
    if isinstance(x, float):
        return int(round(x * 1000))
    return x * 1000


class T:
    """an instant in milliseconds; `+ n` adds n SECONDS (the constants of the code are in seconds)"""
    __slots__ = ('ms',)

    def __init__(self, ms):
        self.ms = ms

    def __add__(self, o):
        return T(self.ms + _ms(o))

    __radd__ = __add__

    def __sub__(self, o):
        if isinstance(o, T):
            return Dur(self.ms - o.ms)
        return T(self.ms - _ms(o))

    def _o(self, o):
        return o.ms if isinstance(o, T) else _ms(o)

    def __lt__(self, o): return self.ms < self._o(o)
    def __le__(self, o): return self.ms <= self._o(o)
    def __gt__(self, o): return self.ms > self._o(o)
    def __ge__(self, o): return self.ms >= self._o(o)
    def __eq__(self, o): return self.ms == self._o(o) if isinstance(o, (T, int, float)) else False
    def __ne__(self, o): return self.ms != self._o(o) if isinstance(o, (T, int, float)) else True
    __hash__ = None

    def __repr__(self):
        return f'T({self.ms}ms)'


class Env:
    def __init__(self):
        self.reset()

    def reset(self, seed=b'symx'):
        self.seed = seed
        self.ctr = 0
        self.now = T(1_000_000_000)        # ms
        self.uniform_hook = None           # f(a, b) -> Dur ; default: lower bound
        self.randint_hook = None
        self.urandom_hook = None           # f(n) -> bytes-like or None

    def urandom(self, n):
        if self.urandom_hook is not None:
            r = self.urandom_hook(n)
            if r is not None:
                return r
        out = b''
        while len(out) < n:
            self.ctr += 1
            out += hashlib.sha256(self.seed + self.ctr.to_bytes(8, 'big')).digest()
        return out[:n]

    def plain(self, n):
        """deterministic bytes that bypass the hook (private DH values of the concrete worlds)"""
        out = b''
        while len(out) < n:
            self.ctr += 1
            out += hashlib.sha256(b'dh' + self.seed + self.ctr.to_bytes(8, 'big')).digest()
        return out[:n]

    def time(self):
        return self.now

    def uniform(self, a, b):
        if self.uniform_hook is not None:
            return self.uniform_hook(a, b)
        return Dur(a * 1000)

    def randint(self, a, b):
        if self.randint_hook is not None:
            return self.randint_hook(a, b)
        return a


class _DetEc:
    """cryptography's `ec` module with a deterministic private-key generator: counterexamples that depend on derived keys replay identically in
    another process (the library draws from OpenSSL's generator, which os.urandom does not control)"""

    def __init__(self, real):
        self._real = real

    def __getattr__(self, name):
        return getattr(self._real, name)

    def generate_private_key(self, curve, backend=None):
        n = int.from_bytes(ENV.plain(curve.key_size // 8 + 8), 'big')
        return self._real.derive_private_key(n % ((1 << (curve.key_size - 1)) - 1) + 1, curve)


class _DetPN:
    def __init__(self, real_mod, p, g):
        self._mod, self._real, self.p, self.g = real_mod, real_mod.DHParameterNumbers(p, g), p, g

    def parameters(self, backend=None):
        return self

    def generate_private_key(self):
        x = int.from_bytes(ENV.plain(32), 'big') + 2
        return self._mod.DHPrivateNumbers(x, self._mod.DHPublicNumbers(pow(self.g, x, self.p), self._real)).private_key()


class _DetDh:
    def __init__(self, real):
        self._real = real

    def __getattr__(self, name):
        return getattr(self._real, name)

    def DHParameterNumbers(self, p, g, q=None):
        return _DetPN(self._real, p, g)

    def DHPublicNumbers(self, y, pn):
        return self._real.DHPublicNumbers(y, pn._real if isinstance(pn, _DetPN) else pn)


class _SysRandom:
    def randrange(self, a, b=None):
        # nonce length: fixed (the codec harnesses cover every length)
        return a if b is not None else 0


def install_env(mods):
    """replace clock and randomness in the /repo module namespaces by the deterministic environment"""
    global ENV, MODS
    MODS = mods
    ENV = Env()
    import os as _os
    import random as _random
    import time as _time
    fake_os = types.SimpleNamespace(**{k: getattr(_os, k) for k in ('getpid', 'strerror')})
    fake_os.urandom = lambda n: ENV.urandom(n)
    fake_time = types.SimpleNamespace(time=lambda: ENV.time())
    fake_random = types.SimpleNamespace(uniform=lambda a, b: ENV.uniform(a, b), randint=lambda a, b: ENV.randint(a, b))
    for name in ('ikesa', 'message', 'crypto', 'ikesacontroller'):
        if name in mods:
            mods[name].os = fake_os
    cr = mods.get('crypto')
    if cr is not None and hasattr(cr, 'ec') and not isinstance(cr.ec, _DetEc):
        cr.ec = _DetEc(cr.ec)
    if cr is not None and hasattr(cr, 'dh') and not isinstance(cr.dh, _DetDh):
        cr.dh = _DetDh(cr.dh)
    if cr is not None and hasattr(cr, 'secrets'):
        # a tree that draws private exponents itself: deterministic as well
        cr.secrets = types.SimpleNamespace(randbelow=lambda n: int.from_bytes(ENV.plain(n.bit_length() // 8 + 8), 'big') % n,
                                           token_bytes=lambda n=32: ENV.plain(n))
    mods['ikesa'].time = fake_time
    mods['ikesa'].random = fake_random
    mods['xfrm'].random = fake_random
    # any other module of the tree that imported the clock (a changed tree may do so) gets the same virtual clock
    for mod in mods.values():
        if getattr(mod, 'time', None) is _time:
            mod.time = fake_time
    mods['message'].SystemRandom = _SysRandom
    mods['ikesa'].json = _Json
    mods['ikesa'].traceback = types.SimpleNamespace(print_exc=lambda *a, **k: None)
    return ENV


class _Json:
    """json.dumps that tolerates the proxies (placeholder values) and otherwise behaves like the real one"""
    @staticmethod
    def dumps(obj, **kw):
        import json
        from symx import core

        def conv(x):
            if isinstance(x, core.SymBool):
                return True
            if isinstance(x, core.SymInt):
                return 0
            if isinstance(x, dict):
                return {conv(k) if not isinstance(k, str) else k: conv(v) for k, v in x.items()}
            if isinstance(x, (list, tuple)):
                return [conv(i) for i in x]
            return x
        return json.dumps(conv(obj), **{k: v for k, v in kw.items() if k != 'indent'})


# ----------------------------------------------------------------------------- kernel ghost
class Kernel:
    """ghost SAD/SPD fed by the Python-level arguments of Xfrm.create_sa/delete_sa/create_policy/flush_*"""

    def __init__(self):
        self.sad = {}           # (str(daddr), proto, spi-bytes) -> dict of the create_sa arguments
        self.spd = []
        self.log = []           # every request in order
        self.fail_at = None     # index (0-based, over SA requests of this step) at which the kernel refuses
        self.n_req = 0
        self.n_eexist = 0       # NEWSA requests refused because the SA exists

    def _fails(self):
        """wire-level kernel: is this SA request the one that is refused?"""
        i = self.n_req
        self.n_req += 1
        return bool(self.fail_at is not None and self.fail_at == i)

    def _maybe_fail(self, what):
        i = self.n_req
        self.n_req += 1
        if self.fail_at is not None and self.fail_at == i:
            raise MODS['xfrm'].NetlinkError(f'injected kernel refusal at request {i} ({what})')

    def create_sa(self, src_selector, dst_selector, src_port, dst_port, spi, ip_proto, ipsec_proto, mode, src, dst,
                  enc_algorithm, sk_e, auth_algorithm, sk_a, lifetime=-1):
        self._check_spi(spi)
        rec = dict(op='NEWSA', src_selector=src_selector, dst_selector=dst_selector, src_port=src_port, dst_port=dst_port,
                   spi=spi, ip_proto=ip_proto, ipsec_proto=ipsec_proto, mode=mode, src=src, dst=dst,
                   enc_algorithm=enc_algorithm, sk_e=sk_e, auth_algorithm=auth_algorithm, sk_a=sk_a, lifetime=lifetime)
        self.log.append(rec)
        self._maybe_fail('NEWSA')
        if self.key(dst, ipsec_proto, spi) in self.sad:
            # XFRM_MSG_NEWSA for an SA that exists (same destination, protocol, SPI): EEXIST, the SA that is there stays as it is
            self.n_eexist += 1
            raise MODS['xfrm'].NetlinkError(f'EEXIST: an SA for {dst}/{ipsec_proto}/{spi!r} exists')
        self.sad[self.key(dst, ipsec_proto, spi)] = rec

    @staticmethod
    def _check_spi(spi):
        # what the real request builders do (xfrm_id.spi is a 4-byte array): any other size is a TypeError of ctypes, before anything is sent
        if len(spi) != 4:
            raise TypeError(f'incompatible types, c_ubyte_Array_{len(spi)} instance instead of c_ubyte_Array_4 instance')

    def delete_sa(self, daddr, proto, spi):
        self._check_spi(spi)
        self.log.append(dict(op='DELSA', daddr=daddr, proto=proto, spi=spi))
        k = self.key(daddr, proto, spi)
        try:
            self._maybe_fail('DELSA')
        except MODS['xfrm'].NetlinkError:
            # the only refusal of XFRM_MSG_DELSA after which the daemon CAN be consistent: the SA had already vanished
            # from the kernel (hard-expired there) - ESRCH.  The real delete_sa logs the error and goes on.
            self.sad.pop(k, None)
            return
        self.sad.pop(k, None)

    @staticmethod
    def key(daddr, proto, spi):
        from symx import core
        if isinstance(spi, core.SymBytes):
            spi = spi.lower()
        return (str(daddr), int(proto), bytes(spi) if not isinstance(spi, core.SymBytes) else spi)

    def flush_sas(self):
        self.log.append(dict(op='FLUSHSA'))
        self.sad.clear()

    def flush_policies(self):
        self.log.append(dict(op='FLUSHPOLICY'))
        self.spd.clear()

    def create_policy(self, src_selector, dst_selector, src_port, dst_port, ip_proto, direction, ipsec_proto, mode, src, dst,
                      index=0):
        rec = dict(op='NEWPOLICY', src_selector=src_selector, dst_selector=dst_selector, src_port=src_port,
                   dst_port=dst_port, ip_proto=ip_proto, direction=direction, ipsec_proto=ipsec_proto, mode=mode, src=src,
                   dst=dst, index=index)
        self.log.append(rec)
        self.spd.append(rec)


class WireSock:
    """the netlink socket of the WIRE-level kernel: the REAL request builders and reply handling of xfrm.py / netlink.py run (real ctypes,
    concrete values); the request is decoded with the kernel ABI table, the ghost SAD/SPD is updated, and the kernel's reply is an NLMSG_ERROR
    message with the request's sequence number, the kernel's own port id and errno 0 (ack), EEXIST (refused NEWSA) or ESRCH (DELSA of an SA
    that is not there - also the reading of an injected DELSA refusal)"""

    def __init__(self, kernel):
        self.k = kernel
        self.reply = b''

    def send(self, data):
        import struct
        from . import klayout
        T = klayout.table()
        K = T['const']
        data = bytes(data)
        ln, ty, fl, seq, pid = struct.unpack_from('=IHHII', data, 0)
        hl = T['nlmsghdr']['__size']
        k = self.k
        err = 0
        if ty == K['XFRM_MSG_NEWSA']:
            U, I = T['xfrm_usersa_info'], T['xfrm_id']
            fam = struct.unpack_from('=H', data, hl + U['family'][0])[0]
            n = 4 if fam == K['AF_INET'] else 16
            off = hl + U['id'][0]
            daddr = ip_address(data[off + I['daddr'][0]:off + I['daddr'][0] + n])
            spi = data[off + I['spi'][0]:off + I['spi'][0] + 4]
            proto = data[off + I['proto'][0]]
            rec = dict(op='NEWSA', spi=spi, dst=daddr, ipsec_proto=proto, raw=data)
            k.log.append(rec)
            if k._fails():
                err = -17
            elif k.key(daddr, proto, spi) in k.sad:
                # an SA with this destination, protocol and SPI exists: EEXIST, the existing SA stays as it is
                k.n_eexist += 1
                err = -17
            else:
                k.sad[k.key(daddr, proto, spi)] = rec
        elif ty == K['XFRM_MSG_DELSA']:
            D = T['xfrm_usersa_id']
            fam = struct.unpack_from('=H', data, hl + D['family'][0])[0]
            n = 4 if fam == K['AF_INET'] else 16
            daddr = ip_address(data[hl + D['daddr'][0]:hl + D['daddr'][0] + n])
            spi = data[hl + D['spi'][0]:hl + D['spi'][0] + 4]
            proto = data[hl + D['proto'][0]]
            k.log.append(dict(op='DELSA', daddr=daddr, proto=proto, spi=spi))
            key = k.key(daddr, proto, spi)
            if k._fails() or key not in k.sad:
                err = -3
            k.sad.pop(key, None)
        elif ty == K['XFRM_MSG_FLUSHSA']:
            k.log.append(dict(op='FLUSHSA'))
            k.sad.clear()
        elif ty == K['XFRM_MSG_FLUSHPOLICY']:
            k.log.append(dict(op='FLUSHPOLICY'))
            k.spd.clear()
        elif ty == K['XFRM_MSG_NEWPOLICY']:
            rec = dict(op='NEWPOLICY', raw=data)
            k.log.append(rec)
            k.spd.append(rec)
        else:
            err = -95
        # the kernel answers from ITS port (0 for the kernel itself is what the header says; the socket's own port id is what matters to nobody)
        self.reply = struct.pack('=IHHII', 36, K['NLMSG_ERROR'], 0, seq, 0x7F000001) + struct.pack('=i', err) + data[:16]

    def recv(self, n):
        r, self.reply = self.reply, b''
        return r

    def close(self):
        pass


class KernelSwitch:
    """Xfrm.* are class-level: the switch routes the calls to the kernel of the endpoint that is currently running"""

    def __init__(self):
        self.current = None
        self.orig = None

    def install(self, xfrm_mod, wire=False):
        X = xfrm_mod.Xfrm
        sw = self
        names = ('create_sa', 'delete_sa', 'flush_sas', 'flush_policies', 'create_policy', 'send_recv', '_get_socket')
        if self.orig is None or self.orig[0] is not xfrm_mod:
            self.orig = (xfrm_mod, {n: X.__dict__[n] for n in names if n in X.__dict__})
        if wire:
            # the real request builders and the real reply handling; only the socket is the model
            for n, f in self.orig[1].items():
                setattr(X, n, f)
            for n in names:
                if n not in self.orig[1] and n in X.__dict__:
                    delattr(X, n)
            X._get_socket = classmethod(lambda cls, groups=0: WireSock(sw.current))
            return
        X.create_sa = classmethod(lambda cls, *a, **k: sw.current.create_sa(*a, **k))
        X.delete_sa = classmethod(lambda cls, *a, **k: sw.current.delete_sa(*a, **k))
        X.flush_sas = classmethod(lambda cls: sw.current.flush_sas())
        X.flush_policies = classmethod(lambda cls: sw.current.flush_policies())
        X.create_policy = classmethod(lambda cls, *a, **k: sw.current.create_policy(*a, **k))

        def _no_netlink(cls, *a, **k):
            raise AssertionError('Xfrm.send_recv reached although the kernel ghost is installed')
        X.send_recv = classmethod(_no_netlink)


SWITCH = KernelSwitch()


# ----------------------------------------------------------------------------- configuration and endpoints
IP1, IP2 = ip_address('192.168.0.1'), ip_address('192.168.0.2')


def conf_dict(dh_ike=('ecp256',), child_dh=(), mode='transport', ipsec_proto='esp', encr=('aes256', 'aes128'), lifetime=5,
              dpd=60, ike_lifetime=900, extra_protect=False, dh_ike_b=None, child_dh_b=None, ike_encr=None, ike_integ=None, child_integ=None):
    def protect(index, peer_port, cdh=child_dh):
        p = {'index': index, 'ip_proto': 'tcp', 'mode': mode, 'lifetime': lifetime, 'peer_port': peer_port,
             'ipsec_proto': ipsec_proto, 'encr': list(encr)}
        if cdh:
            p['dh'] = list(cdh)
        if child_integ:
            p['integ'] = list(child_integ)
        return p
    d = {
        'alice': {'my_addr': str(IP1), 'peer_addr': str(IP2),
                  'my_auth': {'id': 'alice@openikev2', 'psk': 'testing'}, 'peer_auth': {'id': 'bob@openikev2', 'psk': 'testing2'},
                  'dh': list(dh_ike), 'integ': ['sha256'], 'prf': ['sha256'], 'dpd': dpd, 'lifetime': ike_lifetime,
                  'protect': [protect(1, 0)]},
        'bob': {'my_addr': str(IP2), 'peer_addr': str(IP1),
                'my_auth': {'id': 'bob@openikev2', 'psk': 'testing2'}, 'peer_auth': {'id': 'alice@openikev2', 'psk': 'testing'},
                'dh': list(dh_ike_b or dh_ike), 'integ': ['sha256'], 'prf': ['sha256'], 'dpd': dpd, 'lifetime': ike_lifetime,
                'protect': [protect(2, 23, child_dh_b if child_dh_b is not None else child_dh)]},
    }
    if ike_encr:
        d['alice']['encr'] = list(ike_encr)
        d['bob']['encr'] = list(ike_encr)
    if ike_integ:
        d['alice']['integ'] = list(ike_integ)
        d['bob']['integ'] = list(ike_integ)
    if extra_protect:
        d['alice']['protect'].append({'index': 3, 'ip_proto': 'udp', 'mode': mode, 'lifetime': lifetime, 'peer_port': 0,
                                      'ipsec_proto': ipsec_proto, 'encr': list(encr)})
        d['bob']['protect'].append({'index': 4, 'ip_proto': 'udp', 'mode': mode, 'lifetime': lifetime, 'peer_port': 0,
                                    'ipsec_proto': ipsec_proto, 'encr': list(encr)})
    return d


class Endpoint:
    """one IkeSa (or IkeSaController) together with its kernel ghost"""

    def __init__(self, name, obj):
        self.name, self.obj = name, obj
        self.kernel = Kernel()

    def __enter__(self):
        self.prev = SWITCH.current
        SWITCH.current = self.kernel
        return self.obj

    def __exit__(self, *a):
        SWITCH.current = self.prev

    def call(self, fn, *a, **k):
        with self:
            return fn(*a, **k)


class Pair:
    """Alice (original initiator) and Bob (original responder) at IkeSa level"""

    def __init__(self, env_setup=None, **conf_kw):
        ik, cf = MODS['ikesa'], MODS['configuration']
        ENV.reset()
        if env_setup is not None:
            env_setup(ENV)
        self.confdict = conf_dict(**conf_kw)
        self.configuration = cf.Configuration([IP1, IP2], self.confdict)
        a = ik.IkeSa(is_initiator=True, peer_spi=b'\0' * 8, configuration=self.configuration.get_ike_configuration(IP1, IP2),
                     my_addr=IP1, peer_addr=IP2)
        b = ik.IkeSa(is_initiator=False, peer_spi=a.my_spi, configuration=self.configuration.get_ike_configuration(IP2, IP1),
                     my_addr=IP2, peer_addr=IP1)
        self.A, self.B = Endpoint('A', a), Endpoint('B', b)
        self.a, self.b = a, b

    def ep(self, ike_sa):
        return self.A if ike_sa in (self.a, getattr(self.a, 'new_ike_sa', None)) or ike_sa is self.A.obj else self.B

    # ---- native drivers
    def acquire_tss(self):
        m = MODS['message']
        TS = m.TrafficSelector
        return (TS.from_network(ip_network('192.168.0.1/32'), 8765, TS.IpProtocol.TCP),
                TS.from_network(ip_network('192.168.0.2/32'), 23, TS.IpProtocol.TCP))

    def acquire_tss_rev(self):
        m = MODS['message']
        TS = m.TrafficSelector
        return (TS.from_network(ip_network('192.168.0.2/32'), 23, TS.IpProtocol.TCP),
                TS.from_network(ip_network('192.168.0.1/32'), 8765, TS.IpProtocol.TCP))

    def send(self, to, data):
        """deliver a datagram to endpoint `to` ('A'/'B'); returns its reply"""
        e = self.A if to == 'A' else self.B
        with e as o:
            return o.process_message(data)

    def first_init_req(self):
        return bytes(self.a.ike_sa_init_req_data)

    def init_req(self):
        tsi, tsr = self.acquire_tss()
        return self.A.call(self.a.process_acquire, tsi, tsr, 1)

    def establish(self):
        """full initial exchange (including COOKIE / INVALID_KE_PAYLOAD round trips); returns the datagrams"""
        msgs = [self.init_req()]
        to = 'B'
        while True:
            r = self.send(to, msgs[-1])
            if r is None:
                break
            msgs.append(r)
            to = 'A' if to == 'B' else 'B'
            if self.b.state == MODS['ikesa'].IkeSa.State.DELETED and to == 'A':
                # the responder ended (COOKIE / INVALID_KE_PAYLOAD): a fresh responder IKE_SA answers the retry
                secret = self.b.cookie_secret
                ik = MODS['ikesa']
                self.b = ik.IkeSa(is_initiator=False, peer_spi=self.a.my_spi, my_addr=IP2, peer_addr=IP1,
                                  configuration=self.b.configuration, cookie_secret=secret)
                self.B.obj = self.b
            assert len(msgs) < 12
        S = MODS['ikesa'].IkeSa.State
        assert self.a.state == S.ESTABLISHED and self.b.state == S.ESTABLISHED, (self.a.state, self.b.state)
        assert len(self.a.child_sas) == 1 and len(self.b.child_sas) == 1
        return msgs

    def to_state(self, who, state_name):
        """drive endpoint `who` ('A' = original initiator, 'B' = original responder) natively into `state_name`.
        Returns the datagram last sent by `who` (its outstanding request, if any) and the datagram the peer would answer
        with is NOT delivered.  The other endpoint is left wherever the history put it."""
        S = MODS['ikesa'].IkeSa.State
        me, peer = (self.a, self.b) if who == 'A' else (self.b, self.a)
        E = self.A if who == 'A' else self.B
        other = 'B' if who == 'A' else 'A'
        st = S[state_name]
        if st == S.INITIAL:
            return None
        if who == 'A' and st == S.INIT_REQ_SENT:
            return self.init_req()
        if who == 'B' and st == S.INIT_RES_SENT:
            return self.send('B', self.init_req())
        if who == 'A' and st == S.AUTH_REQ_SENT:
            return self.send('A', self.send('B', self.init_req()))
        if st in (S.INIT_REQ_SENT, S.INIT_RES_SENT, S.AUTH_REQ_SENT):
            raise ValueError(f'{who} cannot be in {state_name}')
        self.establish()
        if st == S.ESTABLISHED:
            return None
        tsi, tsr = self.acquire_tss() if who == 'A' else self.acquire_tss_rev()
        idx = 1 if who == 'A' else 2
        if st == S.NEW_CHILD_REQ_SENT:
            return E.call(me.process_acquire, tsi, tsr, idx)
        if st == S.REK_CHILD_REQ_SENT:
            return E.call(me.process_expire, me.child_sas[0].inbound_spi, False)
        if st == S.DEL_CHILD_REQ_SENT:
            return E.call(me.process_expire, me.child_sas[0].inbound_spi, True)
        if st == S.DPD_REQ_SENT:
            ENV.now = me.start_dpd_at + 3600
            return E.call(me.check_dead_peer_detection_timer)
        if st == S.REK_IKE_SA_REQ_SENT:
            ENV.now = me.rekey_ike_sa_at + 10
            return E.call(me.check_rekey_ike_sa_timer)
        if st == S.DEL_IKE_SA_REQ_SENT:
            ENV.now = me.delete_ike_sa_at + 3600
            return E.call(me.check_rekey_ike_sa_timer)
        if st in (S.DEL_AFTER_REKEY_IKE_SA_REQ_SENT, S.REKEYED):
            # `who` rekeys the IKE_SA; its peer answers; who -> DEL_AFTER_REKEY..., peer -> REKEYED
            if st == S.REKEYED:
                # the endpoint that must be REKEYED is the responder of the rekey: let the other side initiate
                init, resp, IE, RE_name = peer, me, (self.B if who == 'A' else self.A), who
            else:
                init, resp, IE, RE_name = me, peer, E, other
            ENV.now = init.rekey_ike_sa_at + 10
            req = IE.call(init.check_rekey_ike_sa_timer)
            res = self.send(RE_name, req)
            dele = self.send('A' if init is self.a else 'B', res)
            assert init.state == S.DEL_AFTER_REKEY_IKE_SA_REQ_SENT and resp.state == S.REKEYED, (init.state, resp.state)
            self.rekey_request, self.rekey_response, self.rekey_delete = req, res, dele
            return dele if st == S.DEL_AFTER_REKEY_IKE_SA_REQ_SENT else res
        raise ValueError(state_name)


ALL_STATES_A = ('INIT_REQ_SENT', 'AUTH_REQ_SENT', 'ESTABLISHED', 'NEW_CHILD_REQ_SENT', 'REK_CHILD_REQ_SENT',
                'REK_IKE_SA_REQ_SENT', 'DEL_CHILD_REQ_SENT', 'DEL_IKE_SA_REQ_SENT', 'DEL_AFTER_REKEY_IKE_SA_REQ_SENT',
                'DPD_REQ_SENT', 'REKEYED')
ALL_STATES_B = ('INIT_RES_SENT', 'ESTABLISHED', 'NEW_CHILD_REQ_SENT', 'REK_CHILD_REQ_SENT', 'REK_IKE_SA_REQ_SENT',
                'DEL_CHILD_REQ_SENT', 'DEL_IKE_SA_REQ_SENT', 'DEL_AFTER_REKEY_IKE_SA_REQ_SENT', 'DPD_REQ_SENT', 'REKEYED')


# ----------------------------------------------------------------------------- authentic datagrams with a symbolic header
def restamp(data, crypto, spi_i=None, spi_r=None, exchange=None, flags=None, mid=None, first_payload=None):
    """`data`: a real datagram; returns it with the given header fields replaced (ints / SymInt / bytes / SymBytes) and,
    when `crypto` (the sender's keys) is given, with the checksum the sender would compute for the new header."""
    from symx import core
    items = list(core.SymBytes.lift(data).items)

    def put(off, val, n):
        if val is None:
            return
        if isinstance(val, (bytes, bytearray, core.SymBytes)):
            its = core.SymBytes.lift(val).items
        elif isinstance(val, core.SymInt):
            its = val.to_bytes(n, 'big').items if n > 1 else [core.int_to_byte(val)]
        else:
            its = list(int(val).to_bytes(n, 'big'))
        assert len(its) == n
        items[off:off + n] = its
    put(0, spi_i, 8)
    put(8, spi_r, 8)
    put(16, first_payload, 1)
    put(18, exchange, 1)
    put(19, flags, 1)
    put(20, mid, 4)
    d = core.SymBytes(items, True)
    if crypto is not None:
        n = crypto.integrity.hash_size
        icv = crypto.integrity.compute(crypto.sk_a, d[:-n])
        d.items[-n:] = core.SymBytes.lift(icv).items
    return d.lower()


def snapshot(ike_sa, kernel):
    """everything an ineffective message must leave untouched (start_dpd_at separately)"""
    return dict(
        state=ike_sa.state, my_msg_id=ike_sa.my_msg_id, peer_msg_id=ike_sa.peer_msg_id,
        child_sas=list(ike_sa.child_sas), last=getattr(ike_sa, 'last_sent_response_data', None), request=ike_sa.request,
        pending=list(ike_sa.pending_events), klog=len(kernel.log), sad=dict(kernel.sad), new_ike_sa=ike_sa.new_ike_sa,
        retransmit_at=ike_sa.retransmit_at, retransmissions=ike_sa.retransmissions, keyring=ike_sa.ike_sa_keyring,
        my_crypto=ike_sa.my_crypto, peer_crypto=ike_sa.peer_crypto, peer_spi=ike_sa.peer_spi, my_spi=ike_sa.my_spi,
        creating=ike_sa.creating_child_sa, rekeying=ike_sa.rekeying_child_sa, deleting=ike_sa.deleting_child_sa,
        rekey_at=ike_sa.rekey_ike_sa_at, delete_at=ike_sa.delete_ike_sa_at, chosen=ike_sa.chosen_proposal,
        init_req=ike_sa.ike_sa_init_req_data, init_res=ike_sa.ike_sa_init_res_data, my_addr=ike_sa.my_addr, peer_addr=ike_sa.peer_addr)


def snap_diff(s0, s1):
    """-> list of field names that differ (identity for objects, value for scalars/bytes); symbolic comparisons are returned
    as terms in a second list"""
    from symx import core
    diff, terms = [], []
    for k in s0:
        a, b = s0[k], s1[k]
        if a is b:
            continue
        if isinstance(a, (core.SymInt, core.SymBytes)) or isinstance(b, (core.SymInt, core.SymBytes)):
            terms.append((k, a == b))
            continue
        if isinstance(a, T) and isinstance(b, T):
            r = (a.ms == b.ms)
            if isinstance(r, bool):
                if not r:
                    diff.append(k)
            else:
                terms.append((k, r))
            continue
        try:
            same = (a == b)
        except Exception:
            same = False
        if not isinstance(same, bool):
            terms.append((k, same))
        elif not same:
            diff.append(k)
    return diff, terms


def load(shim=True, wire=False):
    """fresh import of /repo + C-boundary shims (optional) + environment + kernel ghost (wire=True: the ghost sits behind the netlink socket,
    the real xfrm.py / netlink.py request builders and error handling run)"""
    global _DEFAULT
    mods = common.load_repo(shim=shim)
    install_env(mods)
    SWITCH.install(mods['xfrm'], wire=wire)
    if wire:
        wire_env(mods)
    _DEFAULT = (mods, wire)
    return mods


_DEFAULT = None


def reset_between_instances():
    """instances share worker processes: whatever one of them switched (kernel model level, axioms of the uninterpreted functions) is put back to
    the check's default before the next one starts"""
    from symx import shims
    shims.HMAC_UF.injective = False
    shims.HMAC_UF.link_concrete = False
    if _DEFAULT is not None:
        mods, wire = _DEFAULT
        SWITCH.install(mods['xfrm'], wire=wire)
        if wire:
            wire_env(mods)


def wire_env(mods):
    """what netlink.py reads from the process when it builds a request header"""
    mods['netlink'].os = types.SimpleNamespace(getpid=lambda: 4242, strerror=__import__('os').strerror)
    mods['netlink'].time = types.SimpleNamespace(time=lambda: 1700000000.0 + ENV.now.ms / 1000.0)


# ----------------------------------------------------------------------------- controller level
class Ctl:
    """an IkeSaController for IP2 (with its kernel ghost) and bare IkeSa initiators at IP1 that talk to it"""

    def __init__(self, **conf_kw):
        cf, ic = MODS['configuration'], MODS['ikesacontroller']
        ENV.reset()
        self.confdict = conf_dict(**conf_kw)
        self.configuration = cf.Configuration([IP1, IP2], self.confdict)
        self.E = Endpoint('C', None)
        with self.E:
            self.ctl = ic.IkeSaController(my_addrs=[IP2], configuration=self.configuration)
        self.E.obj = self.ctl
        self.initiators = []

    def new_initiator(self):
        ik = MODS['ikesa']
        a = ik.IkeSa(is_initiator=True, peer_spi=b'\0' * 8, configuration=self.configuration.get_ike_configuration(IP1, IP2),
                     my_addr=IP1, peer_addr=IP2)
        ep = Endpoint(f'I{len(self.initiators)}', a)
        self.initiators.append(ep)
        return ep

    def dispatch(self, data, my_addr=IP2, peer_addr=IP1):
        with self.E:
            return self.ctl.dispatch_message(data, my_addr, peer_addr)

    def acquire_tss(self):
        TS = MODS['message'].TrafficSelector
        return (TS.from_network(ip_network('192.168.0.1/32'), 8765, TS.IpProtocol.TCP),
                TS.from_network(ip_network('192.168.0.2/32'), 23, TS.IpProtocol.TCP))

    def handshake(self, ep, upto=4):
        """drive initiator `ep` against the controller; upto = number of datagrams exchanged (1..4) -> the entry created"""
        tsi, tsr = self.acquire_tss()
        m1 = ep.call(ep.obj.process_acquire, tsi, tsr, 1)
        ep.last_sent = m1
        if upto < 1:
            return None
        n0 = len(self.ctl.ike_sas)
        m2 = self.dispatch(m1)
        entry = self.ctl.ike_sas[-1] if len(self.ctl.ike_sas) > n0 else None
        ep.entry = entry
        if upto < 3 or m2 is None:
            ep.last_received = m2
            return entry
        m3 = ep.call(ep.obj.process_message, m2)
        ep.last_sent = m3
        if upto < 4:
            return entry
        m4 = self.dispatch(m3)
        r = ep.call(ep.obj.process_message, m4)
        assert r is None
        return entry

    def rekey_ike(self, ep, deliver_delete=False):
        """initiator `ep` rekeys its IKE_SA: controller entry -> REKEYED with the successor registered"""
        a = ep.obj
        ENV.now = a.rekey_ike_sa_at + 10
        req = ep.call(a.check_rekey_ike_sa_timer)
        ep.rekey_req = req
        res = self.dispatch(req)
        dele = ep.call(a.process_message, res)
        ep.rekey_delete = dele
        if deliver_delete:
            r = self.dispatch(dele)
            ep.call(a.process_message, r)
        return req, res, dele


# ----------------------------------------------------------------------------- two controllers
class Net:
    """two real IkeSaControllers (A at IP1, B at IP2), each with its kernel ghost"""

    def __init__(self, env_setup=None, **conf_kw):
        cf, ic = MODS['configuration'], MODS['ikesacontroller']
        ENV.reset()
        if env_setup is not None:
            env_setup(ENV)
        self.confdict = conf_dict(**conf_kw)
        self.configuration = cf.Configuration([IP1, IP2], self.confdict)
        self.A, self.B = Endpoint('A', None), Endpoint('B', None)
        with self.A:
            self.A.obj = ic.IkeSaController(my_addrs=[IP1], configuration=self.configuration)
        with self.B:
            self.B.obj = ic.IkeSaController(my_addrs=[IP2], configuration=self.configuration)
        self.a, self.b = self.A.obj, self.B.obj

    def ep(self, name):
        return self.A if name == 'A' else self.B

    def addr(self, name):
        return IP1 if name == 'A' else IP2

    def dispatch(self, to, data):
        """deliver a datagram to controller `to`; -> reply"""
        e = self.ep(to)
        other = 'B' if to == 'A' else 'A'
        with e as ctl:
            return ctl.dispatch_message(data, self.addr(to), self.addr(other))

    def acquire(self, who, index=None, sport=8765, dport=23):
        """kernel ACQUIRE at controller `who` -> request datagram"""
        import socket
        x = MODS['xfrm']
        me, peer = self.addr(who), self.addr('B' if who == 'A' else 'A')
        if index is None:
            index = 1 if who == 'A' else 2
        if who == 'B':
            sport, dport = dport, sport
        acq = x.XfrmUserAcquire(id=x.XfrmId(daddr=x.XfrmAddress.from_ipaddr(peer)), saddr=x.XfrmAddress.from_ipaddr(me),
                                sel=x.XfrmSelector(saddr=x.XfrmAddress.from_ipaddr(me), sport=sport, daddr=x.XfrmAddress.from_ipaddr(peer),
                                                   dport=dport, proto=6, family=socket.AF_INET),
                                policy=x.XfrmUserPolicyInfo(index=index << 3 | 1))
        with self.ep(who) as ctl:
            req, _, _ = ctl.process_acquire(acq, {x.XFRMA_TMPL: x.XfrmUserTmpl(family=socket.AF_INET)})
        return req

    def expire(self, who, spi, hard):
        import types as _t
        exp = _t.SimpleNamespace(state=_t.SimpleNamespace(id=_t.SimpleNamespace(spi=spi)), hard=hard)
        with self.ep(who) as ctl:
            req, _, _ = ctl.process_expire(exp)
        return req

    def pump(self, to, data, max_msgs=12, on_step=None):
        """deliver `data` to `to` and keep exchanging replies until silence; -> list of (receiver, datagram)"""
        trace = []
        while data is not None:
            trace.append((to, data))
            data = self.dispatch(to, data)
            if on_step is not None:
                on_step(to)
            to = 'B' if to == 'A' else 'A'
            assert len(trace) < max_msgs
        return trace

    def establish(self):
        req = self.acquire('A')
        self.pump('B', req)
        S = MODS['ikesa'].IkeSa.State
        assert len(self.a.ike_sas) == 1 and len(self.b.ike_sas) == 1
        assert self.a.ike_sas[0].state == S.ESTABLISHED and self.b.ike_sas[0].state == S.ESTABLISHED
        return self.a.ike_sas[0], self.b.ike_sas[0]


def sad_invariant(ctl, kernel):
    """ghost SAD == inbound+outbound SAs of the CHILD_SAs of the IKE_SAs the controller holds -> list of complaints"""
    P = MODS['message'].Proposal.Protocol
    want = {}
    for e in ctl.ike_sas:
        for ch in e.child_sas:
            proto = 50 if ch.proposal.protocol_id == P.ESP else 51
            want[Kernel.key(e.peer_addr, proto, ch.outbound_spi)] = ('out', ch)
            want[Kernel.key(e.my_addr, proto, ch.inbound_spi)] = ('in', ch)
    have = set(kernel.sad)
    bad = []
    extra, missing = have - set(want), set(want) - have
    if extra:
        bad.append(f'{len(extra)} kernel SA(s) installed but not tracked by any held IKE_SA (orphans): '
                   + ', '.join(f'{k[0]}/{k[1]}/{k[2].hex() if isinstance(k[2], bytes) else k[2]}' for k in sorted(extra, key=str)))
    if missing:
        bad.append(f'{len(missing)} SA(s) of tracked CHILD_SAs are not in the kernel: '
                   + ', '.join(f'{k[0]}/{k[1]}/{k[2].hex() if isinstance(k[2], bytes) else k[2]}' for k in sorted(missing, key=str)))
    return bad


# ----------------------------------------------------------------------------- the real main_loop, driven by a script
class LoopEnd(BaseException):
    """raised by the scripted select() when the script is exhausted: the only way out of `while True`"""


class LoopWedged(BaseException):
    """the daemon keeps calling select() with arguments the real select() rejects: it never waits for an event again"""


class FakeSock:
    def __init__(self, loop, kind, family=None):
        self.loop, self.kind, self.family = loop, kind, family
        self.addr = None
        self.sent = []
        self.closed = False

    def bind(self, addr):
        self.addr = addr
        if self.kind == 'udp':
            self.loop.udp[addr[0]] = self

    def listen(self, *a):
        pass

    def setsockopt(self, *a):
        pass

    def close(self):
        self.closed = True

    # --- UDP
    def _one_read(self):
        # select() announced ONE datagram on one socket: a second read in the same iteration, or a read of a socket that was not announced,
        # would block the daemon for good
        lp = self.loop
        if self.kind == 'conn':
            return          # the accepted status connection (its blocking behaviour is outside the model)
        announced = {'udp': 'udp', 'xfrm': 'xfrm'}.get(self.kind)
        if lp.current is None or lp.current.get('kind') != announced or lp.read_done:
            raise LoopWedged(f'blocking read: the daemon reads the {self.kind} socket although select() announced no (further) datagram on it')
        lp.read_done = True

    def recvfrom(self, n):
        self._one_read()
        ev = self.loop.current
        return ev['data'], (ev['src'], ev.get('sport', 500))

    def sendto(self, data, dst):
        self.loop.n_sendto += 1
        f = self.loop.send_fault
        if f is not None and f(self.loop.n_sendto - 1, data, dst):
            raise self.loop.send_exc('injected transmission failure')
        self.loop.outbox.append((self.addr[0] if self.addr else None, dst, data))

    # --- netlink
    def recv(self, n):
        self._one_read()
        return self.loop.current.get('data', b'')

    # --- control
    def accept(self):
        conn = FakeSock(self.loop, 'conn')
        self.loop.conns.append(conn)
        return conn, ('127.0.0.1', 1)

    def sendall(self, data):
        self.sent.append(data)


class Loop:
    """runs IkeSaController.main_loop over scripted events.  events: dicts {'kind': 'udp'|'xfrm'|'control'|'tick', ...};
    one event per loop iteration; the clock advances by `tick_s` seconds per iteration."""

    def __init__(self, endpoint, tick_s=1):
        self.E = endpoint
        self.ctl = endpoint.obj
        self.udp = {}
        self.outbox = []
        self.conns = []
        self.n_sendto = 0
        self.send_fault = None
        self.send_exc = OSError
        self.tick_s = tick_s
        self.iterations = 0
        self.bad_select = 0
        self.current = None
        self.read_done = False
        self.on_iteration = None

    def run(self, events):
        import socket as _socket
        ic, x = MODS['ikesacontroller'], MODS['xfrm']
        self.events = list(events)
        self.xfrm_sock = FakeSock(self, 'xfrm')
        self.control = None
        loop = self

        def mk_socket(family=None, type_=None, proto=0):
            if type_ == _socket.SOCK_STREAM:
                loop.control = FakeSock(loop, 'control')
                return loop.control
            return FakeSock(loop, 'udp', family)
        fake = types.SimpleNamespace(socket=mk_socket, AF_INET=_socket.AF_INET, AF_INET6=_socket.AF_INET6, SOCK_DGRAM=_socket.SOCK_DGRAM,
                                     SOCK_STREAM=_socket.SOCK_STREAM, SOL_SOCKET=_socket.SOL_SOCKET, SO_REUSEADDR=_socket.SO_REUSEADDR,
                                     gaierror=_socket.gaierror, error=_socket.error)

        def select(rlist, wlist, xlist, timeout=None):
            # the contract of the real select(): the timeout is None or a non-negative number (checked before anything is waited for)
            if timeout is not None:
                if not isinstance(timeout, (int, float, Dur)):
                    loop.bad_select += 1
                    if loop.bad_select > 100:
                        raise LoopWedged('select() was called 100 times in a row with a timeout that is not a number: main_loop spins without waiting for events')
                    raise TypeError('timeout must be a float or None')
                if timeout < 0:
                    loop.bad_select += 1
                    if loop.bad_select > 100:
                        raise LoopWedged('select() was called 100 times in a row with a negative timeout (ValueError each time): main_loop spins without '
                                         'ever waiting for an event again')
                    raise ValueError('timeout must be non-negative')
            loop.bad_select = 0
            if loop.on_iteration is not None and loop.iterations:
                loop.on_iteration(loop)
            if not loop.events:
                raise LoopEnd()
            loop.iterations += 1
            ENV.now = ENV.now + loop.tick_s
            ev = loop.events.pop(0)
            if callable(ev):
                ev = ev(loop)           # late-bound event (e.g. the reply to what the daemon sent meanwhile)
                if ev is None:
                    ev = {'kind': 'tick'}
            loop.current = ev
            loop.read_done = False
            k = ev['kind']
            if k == 'udp':
                return [loop.udp[str(ev['dst'])]], [], []
            if k == 'xfrm':
                return [loop.xfrm_sock], [], []
            if k == 'control':
                return [loop.control], [], []
            return [], [], []
        saved = (ic.socket, ic.select, x.Xfrm.__dict__.get('get_socket'))
        ic.socket, ic.select = fake, select
        x.Xfrm.get_socket = classmethod(lambda cls: loop.xfrm_sock)
        try:
            with self.E:
                try:
                    self.ctl.main_loop()
                except LoopEnd:
                    return True
            return False
        finally:
            ic.socket, ic.select = saved[0], saved[1]
            if saved[2] is not None:
                x.Xfrm.get_socket = saved[2]


def acquire_bytes(me, peer, index, sport=8765, dport=23, proto=6):
    """a kernel XFRM_MSG_ACQUIRE as it arrives on the netlink socket"""
    import socket
    from ctypes import sizeof
    x, nl = MODS['xfrm'], MODS['netlink']
    acq = x.XfrmUserAcquire(id=x.XfrmId(daddr=x.XfrmAddress.from_ipaddr(peer)), saddr=x.XfrmAddress.from_ipaddr(me),
                            sel=x.XfrmSelector(saddr=x.XfrmAddress.from_ipaddr(me), sport=sport, daddr=x.XfrmAddress.from_ipaddr(peer),
                                               dport=dport, proto=proto, family=socket.AF_INET),
                            policy=x.XfrmUserPolicyInfo(index=index << 3 | 1))
    attr = x.Xfrm._attribute_factory(x.XFRMA_TMPL, x.XfrmUserTmpl(family=socket.AF_INET))
    body = bytes(acq) + bytes(attr)
    hdr = nl.NetlinkHeader(length=sizeof(nl.NetlinkHeader) + len(body), type=x.XFRM_MSG_ACQUIRE, seq=1, pid=0, flags=0)
    return bytes(hdr) + body


def expire_bytes(spi, hard):
    from ctypes import sizeof
    x, nl = MODS['xfrm'], MODS['netlink']
    exp = x.XfrmUserExpire(state=x.XfrmUserSaInfo(id=x.XfrmId(spi=x.create_byte_array(spi))), hard=1 if hard else 0)
    body = bytes(exp)
    hdr = nl.NetlinkHeader(length=sizeof(nl.NetlinkHeader) + len(body), type=x.XFRM_MSG_EXPIRE, seq=1, pid=0, flags=0)
    return bytes(hdr) + body
