"""C07 - encrypted payloads round-trip; the checksum covers header..ciphertext; padding is correct.
Symbolic: keys, IV, every plaintext byte, header fields.  AES-CBC and HMAC are uninterpreted functions, so what is
decided is what the real code feeds to them and what it compares."""
import json

from . import common
from .common import Instance, Check

MODS = None
INTEG = {2: ('sha1', 12, 20), 12: ('sha256', 16, 32), 14: ('sha512', 32, 64)}


def h_sk(k, integ_id, keylen):
    from symx import core
    import z3
    eng = core.engine()
    m, c = MODS['message'], MODS['crypto']
    T = m.Transform
    cipher = c.Cipher(T(T.Type.ENCR, T.EncrId.ENCR_AES_CBC, keylen))
    integ = c.Integrity(T(T.Type.INTEG, integ_id))
    prf = c.Prf(T(T.Type.PRF, T.PrfId.PRF_HMAC_SHA2_256))
    hname, hs, ks = INTEG[integ_id]
    sk_e, sk_a = eng.sym_bytes('sk_e', keylen // 8), eng.sym_bytes('sk_a', ks)
    crypto = c.Crypto(cipher, sk_e, integ, sk_a, prf, b'p' * 32)
    iv = eng.sym_bytes('iv', 16)
    spi_i, spi_r = eng.sym_bytes('spi_i', 8), eng.sym_bytes('spi_r', 8)
    mid = eng.sym_int('msg_id', 0, 0xFFFFFFFF)
    payloads = []
    body = None
    if k > 0:
        body = eng.sym_bytes('vendor', k)
        payloads = [m.PayloadVENDOR(body)]
    clear_len = (4 + k) if k else 0
    msg = m.Message(spi_i, spi_r, 2, 0, m.Message.Exchange.INFORMATIONAL, False, False, True, mid, [], payloads,
                    crypto=crypto, iv=iv)
    data = msg.to_bytes()
    P = eng.prove
    encs = [x for x in eng.uf_log if x[0] == 'aes_cbc_enc']
    macs = [x for x in eng.uf_log if x[0] == 'hmac']
    if len(encs) != 1 or len(macs) != 1:
        return {'class': ['gen'], 'violation': f'expected one encryption and one MAC call, saw {len(encs)}/{len(macs)}'}
    _, (ekey, eiv, plain), ct = encs[0]
    _, (dname, mkey, mdata), tag = macs[0]
    pad = len(plain) - clear_len - 1
    ok = True
    ok &= P(len(plain) % 16 == 0 and 0 <= pad <= 15, 'plaintext is not padded to a whole number of blocks with minimal padding')
    ok &= P(plain[-1] == pad, 'Pad Length octet wrong')
    if k:
        ok &= P(plain[4:4 + k] == body, 'payload bytes are not at the start of the plaintext')
        ok &= P(core.sym_and(plain[0] == 0, plain[2] == 0, plain[3] == 4 + k), 'inner generic payload header wrong')
    ok &= P(core.sym_and(ekey == sk_e, eiv == iv), 'cipher called with another key/IV')
    total = 28 + 4 + 16 + len(plain) + hs
    ok &= P(len(data) == total, 'datagram length')
    ok &= P(data[24:28] == total.to_bytes(4, 'big'), 'header Length field != datagram length')
    ok &= P(core.sym_and(data[0:8] == spi_i, data[8:16] == spi_r, data[16] == 46, data[17] == 0x20, data[18] == 37,
                         data[19] == 0x08, data[20:24] == mid.to_bytes(4, 'big')), 'header fields')
    ok &= P(core.sym_and(data[28] == (43 if k else 0), data[30:32] == (4 + 16 + len(plain) + hs).to_bytes(2, 'big')),
            'SK generic header (next payload = first inner payload, length)')
    ok &= P(core.sym_and(data[32:48] == iv, data[48:48 + len(plain)] == ct), 'IV / ciphertext placement')
    ok &= P(dname == hname and mkey == sk_a, 'MAC key / algorithm')
    ok &= P(len(mdata) == total - hs and mdata == data[:total - hs], 'checksum is not computed over header..end of ciphertext')
    ok &= P(data[total - hs:] == tag[:hs], 'checksum field is not the MAC truncated to the negotiated length')
    # --- parse back under the same keys
    n_before = len(eng.uf_log)
    try:
        back = m.Message.parse(data, crypto=crypto)
    except m.IkeSaError as ex:
        return {'class': ['gen'], 'violation': f'authentic message rejected: {type(ex).__name__}'}
    if k:
        ok &= P(len(back.encrypted_payloads) == 1 and back.encrypted_payloads[0].type == 43
                and back.encrypted_payloads[0].vendor_id == body, 'round trip changed the payloads')
    else:
        ok &= P(len(back.encrypted_payloads) == 0, 'round trip changed the payloads')
    ok &= P(len(back.payloads) == 0 and back.iv == iv, 'clear payloads / IV after parse')
    # --- tamper: one byte replaced by an arbitrary different value; acceptance must imply the full tag equality
    return ['roundtrip', bool(ok)]


def h_otherkey(k, integ_id):
    """a datagram protected under one integrity key is parsed under ANOTHER key with the same Integrity/Cipher/Prf objects (the real code shares
    one Integrity instance between both directions of an IKE_SA): it must be rejected.  Axiom: MACs under different keys differ."""
    from symx import core, shims
    eng = core.engine()
    shims.HMAC_UF.injective = True
    try:
        m, c = MODS['message'], MODS['crypto']
        T = m.Transform
        cipher = c.Cipher(T(T.Type.ENCR, T.EncrId.ENCR_AES_CBC, 256))
        integ = c.Integrity(T(T.Type.INTEG, integ_id))
        prf = c.Prf(T(T.Type.PRF, T.PrfId.PRF_HMAC_SHA2_256))
        hname, hs, ks = INTEG[integ_id]
        sk_e = eng.sym_bytes('sk_e', 32)
        sk_a1, sk_a2 = eng.sym_bytes('sk_a_sender', ks), eng.sym_bytes('sk_a_receiver', ks)
        eng.assume(sk_a1 != sk_a2)
        sender = c.Crypto(cipher, sk_e, integ, sk_a1, prf, b'p' * 32)
        receiver = c.Crypto(cipher, sk_e, integ, sk_a2, prf, b'q' * 32)
        body = eng.sym_bytes('vendor', k)
        msg = m.Message(eng.sym_bytes('spi_i', 8), eng.sym_bytes('spi_r', 8), 2, 0, m.Message.Exchange.INFORMATIONAL, False, False, True,
                        eng.sym_int('msg_id', 0, 0xFFFFFFFF), [], [m.PayloadVENDOR(body)], crypto=sender, iv=eng.sym_bytes('iv', 16))
        data = msg.to_bytes()
        # axiom (stated with the harness's own MAC terms): the truncated MACs of this datagram under the two different keys differ
        dd = core.SymBytes.lift(data)
        ref1 = core.SymBytes.lift(shims.SymHMAC(sk_a1, dd[:-hs], digestmod=integ.hasher).digest())[:hs]
        ref2 = core.SymBytes.lift(shims.SymHMAC(sk_a2, dd[:-hs], digestmod=integ.hasher).digest())[:hs]
        eng.assume(core.SymBytes.lift(ref1) != ref2)
        # first use of the shared Integrity object is the sender's (as in an IKE_SA: own message first, then the peer's is checked)
        try:
            back = m.Message.parse(data, crypto=receiver)
        except m.IkeSaError:
            # and the same datagram still verifies under the sender's key
            try:
                m.Message.parse(data, crypto=sender)
            except m.IkeSaError as ex:
                return {'class': ['otherkey'], 'violation': f'an authentic message is rejected under its own key after the other key was used ({ex})'}
            return ['otherkey', 'rejected']
        return {'class': ['otherkey'], 'violation': 'a message protected under one integrity key was accepted under another key'}
    finally:
        shims.HMAC_UF.injective = False


def h_after_genuine(k, integ_id, region):
    """the SAME Crypto object (as in a live IKE_SA) first verifies an authentic message, then is given a copy of it with one octet of the header, the IV
    or the ciphertext changed (arbitrary position in the region, arbitrary non-zero difference) and the ORIGINAL checksum: rejected.
    Axiom: the truncated MACs of two different byte strings under the same key differ."""
    from symx import core, shims
    eng = core.engine()
    m, c = MODS['message'], MODS['crypto']
    T = m.Transform
    cipher = c.Cipher(T(T.Type.ENCR, T.EncrId.ENCR_AES_CBC, 256))
    integ = c.Integrity(T(T.Type.INTEG, integ_id))
    prf = c.Prf(T(T.Type.PRF, T.PrfId.PRF_HMAC_SHA2_256))
    hname, hs, ks = INTEG[integ_id]
    sk_e, sk_a = eng.sym_bytes('sk_e', 32), eng.sym_bytes('sk_a', ks)
    crypto = c.Crypto(cipher, sk_e, integ, sk_a, prf, b'p' * 32)
    msg = m.Message(eng.sym_bytes('spi_i', 8), eng.sym_bytes('spi_r', 8), 2, 0, m.Message.Exchange.INFORMATIONAL, False, False, True,
                    eng.sym_int('msg_id', 0, 0xFFFFFFFF), [], [m.PayloadVENDOR(eng.sym_bytes('vendor', k))], crypto=crypto, iv=eng.sym_bytes('iv', 16))
    data = core.SymBytes.lift(msg.to_bytes())
    n = len(data)
    # octet 16 (Next Payload) decides whether there is an Encrypted payload at all (C03), 24..27 is the length field (a wrong length is another matter)
    lo, hi = {'spis': (0, 16), 'version_exchange_flags': (17, 20), 'message_id': (20, 24), 'iv': (32, 48), 'ciphertext': (48, n - hs)}[region]
    pos = eng.sym_int('position', lo, hi - 1)
    pos = eng.concretize(pos, lo, hi - 1) if not isinstance(pos, int) else pos
    diff = eng.sym_int('difference', 1, 255)
    items = list(data.items)
    items[pos] = core.int_to_byte(data[pos] ^ diff)
    d2 = core.SymBytes(items)
    ref1 = core.SymBytes.lift(shims.SymHMAC(sk_a, data[:-hs], digestmod=integ.hasher).digest())[:hs]
    ref2 = core.SymBytes.lift(shims.SymHMAC(sk_a, d2[:-hs], digestmod=integ.hasher).digest())[:hs]
    eng.assume(core.SymBytes.lift(ref1) != ref2)
    lower = lambda x: x.lower() if isinstance(x, core.SymBytes) else x
    try:
        m.Message.parse(lower(data), crypto=crypto)
    except m.IkeSaError as ex:
        return {'class': ['after_genuine'], 'violation': f'an authentic message is rejected ({ex})'}
    try:
        m.Message.parse(lower(d2), crypto=crypto)
    except m.IkeSaError:
        # the authentic one is still accepted afterwards
        try:
            m.Message.parse(lower(data), crypto=crypto)
        except m.IkeSaError as ex:
            return {'class': ['after_genuine'], 'violation': f'after a forged copy was rejected the authentic message is rejected too ({ex})'}
        return ['after_genuine', 'rejected']
    return {'class': ['after_genuine'], 'violation': f'after the authentic message had been verified, a copy with octet {pos} ({region}) changed and the original checksum was accepted'}


def h_emit(who, kind):
    """IkeSa.generate_request / generate_response of a keyed IKE_SA with an ARBITRARY exchange type and arbitrary payload bytes: unless the
    exchange is IKE_SA_INIT, the datagram carries exactly one clear payload - the Encrypted payload, extending to the end of the datagram -
    and the given payloads are recovered from inside it"""
    from symx import core
    from . import world
    eng = core.engine()
    m = MODS['message']
    p = world.Pair()
    p.establish()
    me = p.a if who == 'A' else p.b
    exch = eng.sym_int('exchange', 0, 255)
    vid = eng.sym_bytes('vendor', 5)
    payloads = [m.PayloadVENDOR(vid), m.PayloadNOTIFY(m.Proposal.Protocol.NONE, 16388, b'', eng.sym_bytes('ndata', 2))]
    msg = (me.generate_request if kind == 'request' else me.generate_response)(exch, payloads)
    data = msg.to_bytes()
    d = core.SymBytes.lift(data)
    P = eng.prove
    if bool(exch == 34):
        return ['emit', 'ike_sa_init']
    n = len(d)
    P(d[16] == 46, 'a message other than IKE_SA_INIT does not start with the Encrypted payload')
    sk_len = (d[30] << 8) | d[31]
    P(sk_len == n - 28, 'something follows (or precedes) the Encrypted payload in the clear')
    P(d[28] == 43, 'the Next Payload field of the Encrypted payload does not name the first inner payload')
    back = m.Message.parse(data, crypto=me.my_crypto)
    if len(back.payloads) != 0 or len(back.encrypted_payloads) != 2:
        return {'class': ['emit'], 'violation': f'{len(back.payloads)} clear / {len(back.encrypted_payloads)} protected payloads instead of 0 / 2'}
    P(core.sym_and(back.encrypted_payloads[0].vendor_id == vid, back.encrypted_payloads[1].notification_data == payloads[1].notification_data),
      'the protected payloads are not the ones given')
    return ['emit', 'protected']


def h_extend(integ_id, k):
    """an authentic protected message followed by k ARBITRARY extra octets (header Length untouched): parsing must fail"""
    from symx import core
    eng = core.engine()
    m, c = MODS['message'], MODS['crypto']
    T = m.Transform
    hname, hs, ks = INTEG[integ_id]
    crypto = c.Crypto(c.Cipher(T(T.Type.ENCR, T.EncrId.ENCR_AES_CBC, 256)), eng.sym_bytes('sk_e', 32), c.Integrity(T(T.Type.INTEG, integ_id)),
                      eng.sym_bytes('sk_a', ks), c.Prf(T(T.Type.PRF, T.PrfId.PRF_HMAC_SHA2_256)), b'p' * 32)
    msg = m.Message(eng.sym_bytes('spi_i', 8), eng.sym_bytes('spi_r', 8), 2, 0, m.Message.Exchange.INFORMATIONAL, False, False, True,
                    eng.sym_int('msg_id', 0, 0xFFFFFFFF), [], [m.PayloadVENDOR(eng.sym_bytes('vendor', 3))], crypto=crypto, iv=eng.sym_bytes('iv', 16))
    data = core.SymBytes.lift(msg.to_bytes())
    ext = data + eng.sym_bytes('extra', k)
    try:
        back = m.Message.parse(ext.lower(), crypto=crypto)
    except m.IkeSaError:
        return ['extend', 'rejected']
    if back.is_protected:
        return {'class': ['extend'], 'violation': f'an authentic protected message followed by {k} extra octet(s) was accepted as protected'}
    return ['extend', 'unprotected']


def h_error_reply(sit):
    """a protected request that carries NO payload and cannot be processed: the error response, like every message after IKE_SA_INIT, has nothing
    outside the Encrypted payload"""
    from symx import core
    from . import world
    eng = core.engine()
    m = MODS['message']
    S = MODS['ikesa'].IkeSa.State
    p = world.Pair()
    if sit == 'empty_ike_auth':
        p.send('A', p.send('B', p.init_req()))
        me, E, peer, exch, mid = p.b, p.B, p.a, 35, 1
    else:
        p.establish()
        me, E, peer = p.b, p.B, p.a
        exch, mid = {'empty_create_child': 36, 'empty_unknown_exchange': eng.sym_int('exchange', 38, 255), 'ike_sa_init_typed': 37}[sit], peer.my_msg_id
    req = m.Message(peer.spi_i, peer.spi_r, 2, 0, exch, False, False, True, mid, [], [], crypto=peer.my_crypto)
    data = req.to_bytes()
    if sit == 'ike_sa_init_typed':
        # an authentic PROTECTED request whose header says IKE_SA_INIT (exchange type 34), on an IKE_SA that has keys
        data = world.restamp(data, peer.my_crypto, exchange=34)
    ret = E.call(me.process_message, data)
    if ret is None:
        return ['error_reply', 'silent']
    d = core.SymBytes.lift(ret)
    P = eng.prove
    P(d[16] == 46, 'the error response to an empty protected request does not start with the Encrypted payload (something travels in the clear)')
    sk_len = (d[30] << 8) | d[31]
    P(sk_len == len(d) - 28, 'something follows (or precedes) the Encrypted payload of the error response in the clear')
    back = m.Message.parse(ret, crypto=me.my_crypto)
    if back.payloads:
        return {'class': ['error_reply'], 'violation': f'the error response carries {len(back.payloads)} payload(s) outside the Encrypted payload'}
    return ['error_reply', 'protected', len(back.encrypted_payloads)]


def h_tamper(k, integ_id, pos_kind, n_clear=0):
    """a datagram whose checksum field is arbitrary: whenever the real parser accepts it, the whole truncated MAC of
    header..ciphertext equals the whole checksum field (so any change of any covered byte needs a MAC collision)"""
    from symx import core
    eng = core.engine()
    m, c = MODS['message'], MODS['crypto']
    T = m.Transform
    cipher = c.Cipher(T(T.Type.ENCR, T.EncrId.ENCR_AES_CBC, 256))
    integ = c.Integrity(T(T.Type.INTEG, integ_id))
    prf = c.Prf(T(T.Type.PRF, T.PrfId.PRF_HMAC_SHA2_256))
    hname, hs, ks = INTEG[integ_id]
    sk_e, sk_a = eng.sym_bytes('sk_e', 32), eng.sym_bytes('sk_a', ks)
    crypto = c.Crypto(cipher, sk_e, integ, sk_a, prf, b'p' * 32)
    hdr = eng.sym_bytes('hdr', 16)
    body = eng.sym_bytes('iv_ct_icv', 16 + 16 * k + hs)
    # n_clear cleartext Vendor ID payloads in front of the Encrypted payload (RFC 7296 3.14 only requires SK to be the LAST payload)
    clear = b''
    for i in range(n_clear):
        clear = clear + bytes([43 if i + 1 < n_clear else 46, 0, 0, 8]) + eng.sym_bytes(f'vendor{i}', 4)
    total = 28 + len(clear) + 4 + len(body)
    sk_off = 28 + len(clear)
    d = hdr + bytes([43 if n_clear else 46, 0x20, 37, 0x08]) + eng.sym_bytes('mid', 4) + total.to_bytes(4, 'big') + clear + bytes([0, 0]) + \
        (4 + len(body)).to_bytes(2, 'big') + body
    real_dec = cipher.decrypt

    def dec(key, iv, data):
        out = real_dec(key, iv, data)
        eng.assume(out[-1] == 16 * k - 1)      # empty inner payload list: keeps the inner parser out of this harness
        return out
    cipher.decrypt = dec
    try:
        parsed = m.Message.parse(d, crypto=crypto)
    except m.IkeSaError as ex:
        return ['rejected', type(ex).__name__]
    if not parsed.is_protected or len(parsed.payloads) != n_clear:
        return {'class': ['accepted'], 'violation': 'a datagram ending in an Encrypted payload was accepted without being treated as protected'}
    macs = [x for x in eng.uf_log if x[0] == 'hmac']
    if len(macs) != 1:
        return {'class': ['accepted'], 'violation': f'accepted after {len(macs)} MAC computations'}
    _, (dname, mkey, mdata), tag = macs[0]
    ok = eng.prove(dname == hname and mkey == sk_a and len(mdata) == total - hs and mdata == d[:total - hs],
                   'accepted although the MAC was not computed over header..end of ciphertext with the integrity key')
    ok &= eng.prove(tag[:hs] == d[total - hs:], 'accepted although the checksum field differs from the truncated MAC')
    decs = [x for x in eng.uf_log if x[0] == 'aes_cbc_dec']
    ok &= eng.prove(len(decs) == 1 and decs[0][1][0] == sk_e and decs[0][1][1] == d[sk_off + 4:sk_off + 20] and decs[0][1][2] == d[sk_off + 20:total - hs],
                    'decryption input is not (sk_e, IV, ciphertext)')
    return ['accepted', bool(ok)]


def build_instances(tier):
    inst = []
    ks = {'quick': (0, 1, 11, 12, 13, 27, 28, 29), 'thorough': tuple(range(0, 46))}[tier]
    for k in ks:
        for integ_id in ((12,) if tier == 'quick' and k not in (11, 12) else (2, 12, 14)):
            for keylen in ((256,) if tier == 'quick' and k != 12 else (128, 256)):
                inst.append(Instance(f'generate+parse vendor_len={k} integ={integ_id} keylen={keylen}', h_sk, (k, integ_id, keylen),
                                     must_reach=[('round trip', lambda o: o[0] == 'roundtrip')]))
    for k in {'quick': (1,), 'thorough': (1, 2, 3)}[tier]:
        for integ_id in (2, 12, 14):
            inst.append(Instance(f'accept-implies-MAC blocks={k} integ={integ_id}', h_tamper, (k, integ_id, 0),
                                 must_reach=[('accepted', lambda o: o[0] == 'accepted'), ('rejected', lambda o: o[0] == 'rejected')]))
            for nc in (1, 2):
                inst.append(Instance(f'accept-implies-MAC blocks={k} integ={integ_id} clear={nc}', h_tamper, (k, integ_id, 0, nc),
                                     must_reach=[('accepted', lambda o: o[0] == 'accepted'), ('rejected', lambda o: o[0] == 'rejected')]))
    for integ_id in (2, 12, 14):
        for k in ((1, 16) if tier == 'quick' else (1, 2, 4, 8, 15, 16, 17, 32)):
            inst.append(Instance(f'extended by {k} octets integ={integ_id}', h_extend, (integ_id, k), must_reach=[('rejected', lambda o: o == ['extend', 'rejected'])]))
    for sit in ('empty_ike_auth', 'empty_create_child', 'ike_sa_init_typed'):
        inst.append(Instance(f'error response to {sit}', h_error_reply, (sit,), native=common.native_of(h_error_reply),
                             must_reach=[('protected', lambda o: o[:2] == ['error_reply', 'protected'])] if sit != 'ike_sa_init_typed' else []))
    for who in ('A', 'B'):
        for kind in ('request', 'response'):
            inst.append(Instance(f'emitted {kind} of {who} with any exchange type', h_emit, (who, kind),
                                 must_reach=[('protected', lambda o: o == ['emit', 'protected']), ('init', lambda o: o == ['emit', 'ike_sa_init'])]))
    for integ_id in (2, 12, 14):
        for region in ('spis', 'version_exchange_flags', 'message_id', 'iv', 'ciphertext'):
            for k in ((1,) if tier == 'quick' else (1, 12, 28)):
                inst.append(Instance(f'copy of a verified message, {region} changed vendor_len={k} integ={integ_id}', h_after_genuine, (k, integ_id, region),
                                     native=common.native_of(h_after_genuine), must_reach=[('rejected', lambda o: o == ['after_genuine', 'rejected'])]))
    for k in {'quick': (1, 12), 'thorough': (1, 5, 12, 28)}[tier]:
        for integ_id in (2, 12, 14):
            inst.append(Instance(f'other integrity key vendor_len={k} integ={integ_id}', h_otherkey, (k, integ_id), native=common.native_of(h_otherkey),
                                 must_reach=[('rejected', lambda o: o == ['otherkey', 'rejected'])]))
    return inst


def _load_native():
    global MODS
    MODS = common.load_repo(shim=False)


def replay_file(path):
    """native replay with the real AES/HMAC: differential test of the same facts on the concrete witness"""
    global MODS
    iname = json.load(open(path)).get('instance', '')
    if 'other integrity key' in iname or iname.startswith(('emitted', 'error response', 'extended by', 'copy of a verified')):
        def _ld():
            global MODS
            from . import world
            MODS = world.load(shim=False)
        return common.generic_replay_file(path, lambda: build_instances('thorough') + build_instances('quick'), _ld)
    MODS = common.load_repo(shim=False)
    import hmac, hashlib
    m, c = MODS['message'], MODS['crypto']
    v = json.load(open(path))
    name, inp = v['instance'], v['inputs']
    T = m.Transform
    n_clear = 0
    if not name.startswith('generate'):
        print('accept-implies-MAC counterexamples involve the uninterpreted MAC; replayed as the generate+parse differential')
        k, integ_id, keylen = 5, int(name.split('integ=')[1].split()[0]), 256
        n_clear = int(name.split('clear=')[1]) if 'clear=' in name else 0
        inp = {'sk_e': '11' * 32, 'sk_a': '22' * INTEG[integ_id][2], 'iv': '33' * 16, 'spi_i': '44' * 8, 'spi_r': '55' * 8,
               'msg_id': 7, 'vendor': '66' * 5}
    else:
        k = int(name.split('vendor_len=')[1].split()[0]); integ_id = int(name.split('integ=')[1].split()[0])
        keylen = int(name.split('keylen=')[1])
    hname, hs, ks = INTEG[integ_id]
    cipher = c.Cipher(T(T.Type.ENCR, T.EncrId.ENCR_AES_CBC, keylen)); integ = c.Integrity(T(T.Type.INTEG, integ_id))
    prf = c.Prf(T(T.Type.PRF, T.PrfId.PRF_HMAC_SHA2_256))
    sk_e, sk_a, iv = (bytes.fromhex(inp[x]) for x in ('sk_e', 'sk_a', 'iv'))
    crypto = c.Crypto(cipher, sk_e, integ, sk_a, prf, b'p' * 32)
    body = bytes.fromhex(inp.get('vendor', ''))
    pl = [m.PayloadVENDOR(body)] if k else []
    msg = m.Message(bytes.fromhex(inp['spi_i']), bytes.fromhex(inp['spi_r']), 2, 0, 37, False, False, True, inp['msg_id'],
                    [m.PayloadVENDOR(b'clr%d' % i) for i in range(n_clear)], pl, crypto=crypto, iv=iv)
    data = bytes(msg.to_bytes())
    bad = []
    clear = (b'\0\0' + (4 + k).to_bytes(2, 'big') + body) if k else b''
    padlen = 15 - len(clear) % 16
    from cryptography.hazmat.primitives.ciphers import Cipher as _C, algorithms, modes
    e = _C(algorithms.AES(sk_e), modes.CBC(iv)).encryptor()
    ct = e.update(clear + bytes(padlen) + bytes([padlen])) + e.finalize()
    exp = bytearray(bytes.fromhex(inp['spi_i']) + bytes.fromhex(inp['spi_r']) + bytes([46, 0x20, 37, 0x08]) + inp['msg_id'].to_bytes(4, 'big')
                    + (28 + 4 + 16 + len(ct) + hs).to_bytes(4, 'big') + bytes([43 if k else 0, 0]) + (4 + 16 + len(ct) + hs).to_bytes(2, 'big') + iv + ct)
    exp += hmac.new(sk_a, bytes(exp), getattr(hashlib, hname)).digest()[:hs]
    if data != bytes(exp) and not n_clear:
        bad.append('to_bytes differs from the independent RFC 7296 3.14 encoder')
    try:
        back = m.Message.parse(data, crypto=crypto)
        if [p.to_bytes() for p in back.encrypted_payloads] != [p.to_bytes() for p in pl]:
            bad.append('round trip changed payloads')
    except m.IkeSaError as ex:
        bad.append(f'authentic message rejected: {ex}')
    for i in range(len(data)):
        t = bytearray(data); t[i] ^= 0x01
        try:
            m.Message.parse(bytes(t), crypto=crypto)
            bad.append(f'bit flip at byte {i} accepted'); break
        except m.IkeSaError:
            pass
        except Exception as ex:
            bad.append(f'bit flip at byte {i}: {type(ex).__name__}'); break
    print('native:', bad or 'no deviation')
    return 1 if bad else 0


def main(tier, seed):
    global MODS
    from . import world
    MODS = world.load(shim=True)
    m, c = MODS['message'], MODS['crypto']
    chk = Check('C07', tier, seed,
                functions=common.src_hash(m.PayloadSK.generate, m.PayloadSK.decrypt, m.Message.to_bytes, m.Message.parse,
                                          m.Message._payloads_to_bytes, c.Integrity.compute, c.Cipher.encrypt, c.Cipher.decrypt),
                bounds={'plaintext': 'one VENDOR payload of every listed length (quick: 0,1,11,12,13,27,28,29 = every residue '
                                     'class boundary; thorough: 0..45 = every length modulo 16 three times), all byte values',
                        'keys/IV/SPIs/Message ID': 'all values', 'suites': 'AES-128/256-CBC x HMAC-SHA1-96 / SHA2-256-128 / SHA2-512-256',
                        'tamper': 'datagrams with 1 (thorough: 1..3) cipher blocks, arbitrary header SPIs, Message ID, IV, ciphertext, '
                                  'checksum: acceptance implies full-length equality with the MAC over header..ciphertext',
                        'outside': 'other payload lists inside SK (covered structurally by C05/C06), the claim "every message emitted '
                                   'after IKE_SA_INIT is protected" (needs the state machine)'},
                assumptions=['AES-CBC and HMAC are uninterpreted functions (functional consistency only); "every modification is '
                             'detected" is therefore decided as: the parser accepts only if the complete truncated MAC over all bytes '
                             'from the IKE header to the end of the ciphertext equals the complete checksum field - detection itself '
                             'rests on the unforgeability of HMAC, which is not encoded'],
                stubs=['crypto.HMAC (UF)', 'crypto.Cipher.encrypt/decrypt (UF pair)', 'message.pack/pack_into/unpack_from'])
    chk.run(build_instances(tier))
    return chk.finish(replay=lambda v: common.native_replay_subprocess('C07', v))
