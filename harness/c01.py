"""C01 - peers derive the same keys and install mirror-image IPsec SAs.
BOTH endpoints' real code runs in one symbolic execution: every nonce, SPI and IV is a fresh symbolic byte string, HMAC, AES-CBC
and Diffie-Hellman are uninterpreted functions shared by the two endpoints, so every derived key is a term over the
exchange's nonces/SPIs/public values.  After each negotiation (initial exchange, CREATE_CHILD_SA new / rekey with and without PFS
from either side, IKE_SA rekey from either side followed by exchanges on the successor, COOKIE and INVALID_KE_PAYLOAD retries)
z3 decides: (i) the two IKE keyrings are equal term by term and the per-direction Crypto objects are complementary; (ii) the two
kernel SAs each side installs are the mirror image of the peer's (SPI, addresses, protocol, mode, algorithms, selectors, KEYS);
(iii) each installed key equals the slice RFC 7296 2.17 assigns to that direction of that exchange, of the negotiated size."""
import hashlib
import json

from . import common, world, c04, symcrypto
from .common import Instance, Check

MODS = None
NONCES = []
INTEG_LEN = {2: 20, 12: 32, 14: 64}
PRF_HASH = {2: hashlib.sha1, 5: hashlib.sha256, 7: hashlib.sha512}


def install_nonce_recorder(m):
    real_init = m.PayloadNONCE.__init__

    def init(self, nonce=None, critical=False):
        real_init(self, nonce, critical)
        if nonce is None:
            NONCES.append(self.nonce)
    m.PayloadNONCE.__init__ = init


SUITES = {
    'default': {},
    'aes128_sha1': {'encr': ('aes128',)},
    'subset': 'subset',            # initiator offers less than the responder prefers
    'ah_tunnel': {'ipsec_proto': 'ah', 'mode': 'tunnel'},
    'pfs': {'child_dh': ('ecp256',)},
    'pfs384': {'child_dh': ('ecp384',)},
    'ike_dh_retry': {'dh_ike': ('ecp256', 'ecp384'), 'dh_ike_b': ('ecp384', 'ecp256')},
    'child_dh_retry': {'child_dh': ('ecp256', 'ecp384'), 'child_dh_b': ('ecp384', 'ecp256')},
    'child_dh_retry_modp': {'child_dh': ('modp2048', 'modp3072'), 'child_dh_b': ('modp3072', 'modp2048')},
    'prf_change': 'prf_change',    # the two peers list the PRFs (and integrity algorithms) in opposite order: a rekey started by the former responder changes the PRF
    'narrow_r': 'narrow_r',        # tunnel mode; the responder's policy narrows its own subnet (/16 -> /24) and the port range
    'narrow_i': 'narrow_i',        # tunnel mode; the responder's policy narrows the initiator's subnet (/16 -> /28)
}
NARROW = {'narrow_r': (('10.1.0.0/16', '10.2.0.0/16'), ('10.2.1.0/24', '10.1.0.0/16')),
          'narrow_i': (('10.1.0.0/16', '10.2.0.0/16'), ('10.2.0.0/16', '10.1.0.0/28'))}


def mk_pair(suite):
    kw = SUITES[suite]
    if kw == 'subset':
        p = world.Pair(env_setup=symcrypto.reset)
        p.confdict['alice']['protect'][0].update(encr=['aes128'], integ=['sha1'])
        p.confdict['bob']['protect'][0].update(encr=['aes256', 'aes128'], integ=['sha512', 'sha1'])
        p.confdict['alice'].update(encr=['aes128'], integ=['sha1'], prf=['sha1'])
        p.confdict['bob'].update(encr=['aes256', 'aes128'], integ=['sha256', 'sha1'], prf=['sha512', 'sha1'])
        cf = MODS['configuration'].Configuration([world.IP1, world.IP2], p.confdict)
        p.configuration = cf
        p.a.configuration = cf.get_ike_configuration(world.IP1, world.IP2)
        p.b.configuration = cf.get_ike_configuration(world.IP2, world.IP1)
    elif kw == 'prf_change':
        p = world.Pair(env_setup=symcrypto.reset)
        p.confdict['alice'].update(integ=['sha256', 'sha512'], prf=['sha256', 'sha512'])
        p.confdict['bob'].update(integ=['sha512', 'sha256'], prf=['sha512', 'sha256'])
        cf = MODS['configuration'].Configuration([world.IP1, world.IP2], p.confdict)
        p.configuration = cf
        p.a.configuration = cf.get_ike_configuration(world.IP1, world.IP2)
        p.b.configuration = cf.get_ike_configuration(world.IP2, world.IP1)
    elif isinstance(kw, str) and kw in NARROW:
        from ipaddress import ip_network
        p = world.Pair(env_setup=symcrypto.reset, mode='tunnel')
        (a_my, a_peer), (b_my, b_peer) = NARROW[kw]
        p.confdict['alice']['protect'][0].update(my_subnet=a_my, peer_subnet=a_peer)
        p.confdict['bob']['protect'][0].update(my_subnet=b_my, peer_subnet=b_peer)
        cf = MODS['configuration'].Configuration([world.IP1, world.IP2], p.confdict)
        p.configuration = cf
        p.a.configuration = cf.get_ike_configuration(world.IP1, world.IP2)
        p.b.configuration = cf.get_ike_configuration(world.IP2, world.IP1)
        TS = MODS['message'].TrafficSelector
        p.acquire_tss = lambda: (TS.from_network(ip_network('10.1.0.5/32'), 8765, TS.IpProtocol.TCP), TS.from_network(ip_network('10.2.1.7/32'), 23, TS.IpProtocol.TCP))
        p.acquire_tss_rev = lambda: (TS.from_network(ip_network('10.2.1.7/32'), 23, TS.IpProtocol.TCP), TS.from_network(ip_network('10.1.0.5/32'), 8765, TS.IpProtocol.TCP))
    else:
        p = world.Pair(env_setup=symcrypto.reset, **kw)
    p.A.kernel = symcrypto.RecKernel()
    p.B.kernel = symcrypto.RecKernel()
    return p


class Neg:
    """one negotiation: who initiated the exchange, which IKE_SAs, which slice of the kernel logs, the nonces"""

    def __init__(self, p, ini_ep, res_ep, ini_sa, res_sa):
        self.p, self.ini_ep, self.res_ep, self.ini_sa, self.res_sa = p, ini_ep, res_ep, ini_sa, res_sa
        self.li, self.lr = len(ini_ep.kernel.log), len(res_ep.kernel.log)
        self.n0 = len(NONCES)
        self.sk_d = ini_sa.ike_sa_keyring.sk_d if ini_sa.ike_sa_keyring else None

    def done(self, pfs_secret=None, nonces=None):
        self.new_i = [x for x in self.ini_ep.kernel.log[self.li:] if x['op'] == 'NEWSA']
        self.new_r = [x for x in self.res_ep.kernel.log[self.lr:] if x['op'] == 'NEWSA']
        self.nonces = nonces if nonces is not None else (NONCES[self.n0], NONCES[-1])
        self.pfs_secret = pfs_secret
        self.child = self.ini_sa.child_sas[-1] if self.ini_sa.child_sas else None
        self.prf_id = int(self.ini_sa.chosen_proposal.get_transform(MODS['message'].Transform.Type.PRF).id)
        if self.sk_d is None:
            self.sk_d = self.ini_sa.ike_sa_keyring.sk_d
        return self


def exchange(p, first_to, data):
    """ping-pong at IkeSa level between p.a-side and p.b-side objects chosen by the caller's endpoints"""
    raise NotImplementedError


def pump(sa_x, ep_x, sa_y, ep_y, data):
    """data goes to y first; alternate until silence"""
    to = (sa_y, ep_y)
    other = (sa_x, ep_x)
    n = 0
    LAST_PUMP[:] = [data]
    while data is not None:
        data = to[1].call(to[0].process_message, data)
        if data is not None:
            LAST_PUMP.append(data)
        to, other = other, to
        n += 1
        assert n < 12
    return n


LAST_PUMP = []


def wire_secret_of_pump(ini, res):
    """the last request/response pair of the pumped conversation in which both messages carry a KE payload (an INVALID_KE_PAYLOAD round comes
    before it, the delete of a rekeyed CHILD_SA after it)"""
    m = MODS['message']
    found = None
    for i in range(0, len(LAST_PUMP) - 1, 2):
        try:
            found = wire_secret(LAST_PUMP[i], LAST_PUMP[i + 1], ini.my_crypto, res.my_crypto)
        except m.PayloadNotFound:
            continue
    assert found is not None
    return found


def wire_secret(req, res, req_crypto, res_crypto):
    """g^ir of a CREATE_CHILD_SA exchange from the KE payloads ON THE WIRE (not from whatever DH object an endpoint happens to hold)"""
    m = MODS['message']
    ke_i = m.Message.parse(req, crypto=req_crypto).get_payload(m.Payload.Type.KE, True).ke_data
    ke_r = m.Message.parse(res, crypto=res_crypto).get_payload(m.Payload.Type.KE, True).ke_data
    return symcrypto.shared_from_wire(ke_i, ke_r)


def eq_bytes(x, y):
    from symx import core
    lx, ly = len(x), len(y)
    if lx != ly:
        return False
    return core.SymBytes.lift(x) == y if not (isinstance(x, (bytes, bytearray)) and isinstance(y, (bytes, bytearray))) else bytes(x) == bytes(y)


def check_mirror(eng, neg, label):
    from symx import core
    P = eng.prove
    if len(neg.new_i) != 2 or len(neg.new_r) != 2:
        return f'{label}: expected 2 kernel SAs per endpoint, got {len(neg.new_i)}/{len(neg.new_r)}'
    for mine, theirs, what in ((neg.new_i[0], neg.new_r[1], 'initiator->responder'), (neg.new_i[1], neg.new_r[0], 'responder->initiator')):
        for f in ('src_selector', 'dst_selector', 'src', 'dst', 'enc_algorithm', 'auth_algorithm'):
            if mine[f] != theirs[f]:
                return f'{label}: the {what} SA differs between the endpoints in {f}: {mine[f]} / {theirs[f]}'
        for f in ('src_port', 'dst_port', 'ip_proto', 'ipsec_proto', 'mode'):
            if int(mine[f]) != int(theirs[f]):
                return f'{label}: the {what} SA differs between the endpoints in {f}: {mine[f]} / {theirs[f]}'
        P(eq_bytes(mine['spi'], theirs['spi']), f'{label}: the {what} SA has different SPIs at the two endpoints')
        for kf in ('sk_e', 'sk_a'):
            if (mine[kf] is None) != (theirs[kf] is None):
                return f'{label}: the {what} SA has a {kf} at one endpoint only'
            if mine[kf] is not None:
                P(eq_bytes(mine[kf], theirs[kf]), f'{label}: the {what} SA is installed with different {kf} at the two endpoints')
    # outbound of one side goes towards the peer
    if neg.new_i[0]['dst'] != neg.res_sa.my_addr or neg.new_i[1]['dst'] != neg.ini_sa.my_addr:
        return f'{label}: tunnel/transport endpoints of the installed SAs are not (initiator -> responder, responder -> initiator)'
    return None


def check_rfc_keys(eng, neg, label):
    """the keys of the initiator->responder SA are the first (encr, integ) slices of KEYMAT, the other direction the next ones"""
    from symx import core
    m = MODS['message']
    T = m.Transform
    P = eng.prove
    child = neg.child
    if child is None:
        return f'{label}: the exchange initiator tracks no CHILD_SA after the negotiation'
    prop = child.proposal
    integ = prop.get_transform(T.Type.INTEG)
    ikl = INTEG_LEN[int(integ.id)]
    ekl = 0
    if prop.protocol_id == m.Proposal.Protocol.ESP:
        ekl = prop.get_transform(T.Type.ENCR).keylen // 8
    prf_id = neg.prf_id
    ni, nr = neg.nonces
    seed = core.SymBytes.lift(ni) + nr
    if neg.pfs_secret is not None:
        seed = core.SymBytes.lift(neg.pfs_secret) + seed
    km = c04.ref_prfplus(PRF_HASH[prf_id], neg.sk_d, seed.lower() if isinstance(seed, core.SymBytes) else seed, 2 * ikl + 2 * ekl)
    w_ei, w_ai, w_er, w_ar = km[0:ekl], km[ekl:ekl + ikl], km[ekl + ikl:2 * ekl + ikl], km[2 * ekl + ikl:]
    out, inn = neg.new_i[0], neg.new_i[1]
    for got, want, what in ((out['sk_e'], w_ei, 'encryption key of the initiator->responder SA'), (out['sk_a'], w_ai, 'integrity key of the initiator->responder SA'),
                            (inn['sk_e'], w_er, 'encryption key of the responder->initiator SA'), (inn['sk_a'], w_ar, 'integrity key of the responder->initiator SA')):
        if ekl == 0 and 'encryption' in what:
            continue
        if got is None or len(got) != len(want):
            return f'{label}: {what} has {None if got is None else len(got)} bytes, the negotiated transform needs {len(want)}'
        P(eq_bytes(got, want), f'{label}: {what} is not the slice RFC 7296 2.17 assigns to it')
    return None


def check_rfc_ike(eng, ini_sa, ni, nr, old_sk_d, label, secret=None, old_prf_id=None):
    """the IKE_SA keyring of the exchange initiator is RFC 7296 2.14 (2.18 for a rekey) over THIS exchange's nonces, SPIs and g^ir"""
    from symx import core
    T = MODS['message'].Transform
    prop = ini_sa.chosen_proposal
    h = PRF_HASH[int(prop.get_transform(T.Type.PRF).id)]
    pk = h().digest_size
    ikl = INTEG_LEN[int(prop.get_transform(T.Type.INTEG).id)]
    ekl = prop.get_transform(T.Type.ENCR).keylen // 8
    L = core.SymBytes.lift
    low = lambda b: b.lower() if isinstance(b, core.SymBytes) else b
    secret = ini_sa.dh.shared_secret if secret is None else secret
    nn = L(ni) + nr
    if old_sk_d is None:
        skeyseed = c04.ref_prf(h, low(nn), secret)
    else:
        # RFC 7296 2.18: the rekey exchange belongs to the OLD IKE_SA, so SKEYSEED is computed with the old IKE_SA's PRF
        skeyseed = c04.ref_prf(PRF_HASH[old_prf_id], old_sk_d, low(L(secret) + nn))
    km = c04.ref_prfplus(h, skeyseed, low(nn + ini_sa.my_spi + ini_sa.peer_spi), 3 * pk + 2 * ikl + 2 * ekl)
    o = 0
    for name, n in zip(('sk_d', 'sk_ai', 'sk_ar', 'sk_ei', 'sk_er', 'sk_pi', 'sk_pr'), (pk, ikl, ikl, ekl, ekl, pk, pk)):
        got, want = getattr(ini_sa.ike_sa_keyring, name), km[o:o + n]
        o += n
        if len(got) != len(want):
            return f'{label}: {name} has {len(got)} bytes, RFC 7296 2.14 gives it {len(want)}'
        eng.prove(eq_bytes(got, want), f'{label}: {name} is not the RFC 7296 2.14' + ('/2.18' if old_sk_d is not None else '') + " value over this exchange's nonces, SPIs and g^ir")
    return None


def check_ike_keys(eng, x, y, label):
    from symx import core
    P = eng.prove
    if x.ike_sa_keyring is None or y.ike_sa_keyring is None:
        return f'{label}: an endpoint has no IKE keyring'
    for name, u, v in zip(x.ike_sa_keyring._fields, x.ike_sa_keyring, y.ike_sa_keyring):
        if len(u) != len(v):
            return f'{label}: {name} has different lengths at the two endpoints'
        P(eq_bytes(u, v), f'{label}: {name} differs between the endpoints')
    for mine, theirs in ((x.my_crypto, y.peer_crypto), (x.peer_crypto, y.my_crypto)):
        P(core.sym_and(eq_bytes(mine.sk_e, theirs.sk_e), eq_bytes(mine.sk_a, theirs.sk_a), eq_bytes(mine.sk_p, theirs.sk_p)),
          f'{label}: the per-direction keys of the two endpoints are not complementary')
    P(core.sym_and(eq_bytes(x.my_spi, y.peer_spi), eq_bytes(x.peer_spi, y.my_spi)), f'{label}: the endpoints disagree on the IKE SPIs')
    return None


# ----------------------------------------------------------------------------- scenarios
def tss(p, who):
    return p.acquire_tss() if who == 'A' else p.acquire_tss_rev()


def ends(p, who, sa_a=None, sa_b=None):
    a, b = sa_a or p.a, sa_b or p.b
    return (a, p.A, b, p.B) if who == 'A' else (b, p.B, a, p.A)


def do_initial(p, eng, checks):
    neg = Neg(p, p.A, p.B, p.a, p.b)
    p.establish()
    # nonces of the IKE_SA_INIT exchange: the last retry's initiator nonce and the responder nonce
    m = MODS['message']
    ni = m.Message.parse(p.a.ike_sa_init_req_data).get_payload(m.Payload.Type.NONCE).nonce
    nr = m.Message.parse(p.a.ike_sa_init_res_data).get_payload(m.Payload.Type.NONCE).nonce
    neg.ini_sa, neg.res_sa = p.a, p.b
    neg.done(nonces=(ni, nr))
    checks.append(('initial exchange', neg, p.a, p.b))
    ke_i = m.Message.parse(p.a.ike_sa_init_req_data).get_payload(m.Payload.Type.KE).ke_data
    ke_r = m.Message.parse(p.a.ike_sa_init_res_data).get_payload(m.Payload.Type.KE).ke_data
    return check_rfc_ike(eng, p.a, ni, nr, None, 'initial exchange', secret=symcrypto.shared_from_wire(ke_i, ke_r))


def do_new_child(p, eng, checks, who, sa_a=None, sa_b=None, pfs=False, label=None):
    ini, IE, res, RE = ends(p, who, sa_a, sa_b)
    neg = Neg(p, IE, RE, ini, res)
    tsi, tsr = tss(p, who)
    req = IE.call(ini.process_acquire, tsi, tsr, 1 if who == 'A' else 2)
    assert req is not None
    pump(ini, IE, res, RE, req)
    neg.done(pfs_secret=wire_secret_of_pump(ini, res) if pfs else None)
    checks.append((label or f'CREATE_CHILD_SA initiated by {who}', neg, None, None))


def do_rekey_child(p, eng, checks, who, sa_a=None, sa_b=None, pfs=False, label=None):
    ini, IE, res, RE = ends(p, who, sa_a, sa_b)
    neg = Neg(p, IE, RE, ini, res)
    req = IE.call(ini.process_expire, ini.child_sas[0].inbound_spi, False)
    assert req is not None
    pump(ini, IE, res, RE, req)
    neg.done(pfs_secret=wire_secret_of_pump(ini, res) if pfs else None)
    checks.append((label or f'CHILD_SA rekey initiated by {who}', neg, None, None))


def do_cross(p, eng, checks, kinds, sa_a=None, sa_b=None, pfs=False):
    """two CREATE_CHILD_SA exchanges crossing on the wire: each endpoint sends its request before it receives the peer's"""
    a, b = sa_a or p.a, sa_b or p.b
    reqs, negs = {}, {}
    for who, kind in zip('AB', kinds):
        ini, IE, res, RE = ends(p, who, a, b)
        negs[who] = Neg(p, IE, RE, ini, res)
        if kind == 'new':
            tsi, tsr = tss(p, who)
            reqs[who] = IE.call(ini.process_acquire, tsi, tsr, 1 if who == 'A' else 2)
        else:
            reqs[who] = IE.call(ini.process_expire, ini.child_sas[0].inbound_spi, False)
        assert reqs[who] is not None
    ni = {'A': NONCES[-2], 'B': NONCES[-1]}

    def newsa(ep, n0):
        return [x for x in ep.kernel.log[n0:] if x['op'] == 'NEWSA']
    # each side answers the peer's request while its own is outstanding ...
    n0 = len(p.B.kernel.log)
    res_a = p.B.call(b.process_message, reqs['A'])
    negs['A'].new_r, nr_a = newsa(p.B, n0), NONCES[-1]
    n0 = len(p.A.kernel.log)
    res_b = p.A.call(a.process_message, reqs['B'])
    negs['B'].new_r, nr_b = newsa(p.A, n0), NONCES[-1]
    assert res_a is not None and res_b is not None
    # ... and then receives the answer to its own
    for who, res, nr in (('A', res_a, nr_a), ('B', res_b, nr_b)):
        ini, IE, _, _ = ends(p, who, a, b)
        neg = negs[who]
        n0 = len(IE.kernel.log)
        out = IE.call(ini.process_message, res)
        neg.new_i = newsa(IE, n0)
        neg.nonces = (ni[who], nr)
        peer_sa = ends(p, who, a, b)[2]
        neg.pfs_secret = wire_secret(reqs[who], res, ini.my_crypto, peer_sa.my_crypto) if pfs else None
        neg.child = ini.child_sas[-1] if ini.child_sas else None
        neg.prf_id = int(ini.chosen_proposal.get_transform(MODS['message'].Transform.Type.PRF).id)
        checks.append((f'crossing CREATE_CHILD_SA ({kinds[0]} by A x {kinds[1]} by B), exchange initiated by {who}', neg, None, None))
        # a rekey is followed by the delete of the old CHILD_SA: deliver it
        if out is not None:
            pump(ini, IE, *ends(p, who, a, b)[2:], out)


def do_ike_collision(p, sa_a=None, sa_b=None):
    """both ends start an IKE_SA rekey at the same moment: each refuses the other's request (TEMPORARY_FAILURE) and both carry on with the old IKE_SA"""
    a, b = sa_a or p.a, sa_b or p.b
    S = MODS['ikesa'].IkeSa.State
    world.ENV.now = max(a.rekey_ike_sa_at, b.rekey_ike_sa_at) + 10
    req_a = p.A.call(a.check_rekey_ike_sa_timer)
    req_b = p.B.call(b.check_rekey_ike_sa_timer)
    assert req_a is not None and req_b is not None
    res_a = p.B.call(b.process_message, req_a)
    res_b = p.A.call(a.process_message, req_b)
    assert res_a is not None and res_b is not None
    out_a = p.A.call(a.process_message, res_a)
    out_b = p.B.call(b.process_message, res_b)
    assert a.state == S.ESTABLISHED and b.state == S.ESTABLISHED and out_a is None and out_b is None, \
        f'colliding IKE_SA rekeys: {a.state.name}/{b.state.name}'


def do_rekey_ike(p, eng, checks, who, sa_a=None, sa_b=None):
    ini, IE, res, RE = ends(p, who, sa_a, sa_b)
    world.ENV.now = ini.rekey_ike_sa_at + 10
    n0 = len(NONCES)
    old_sk_d = ini.ike_sa_keyring.sk_d
    old_prf_id = int(ini.chosen_proposal.get_transform(MODS['message'].Transform.Type.PRF).id)
    req = IE.call(ini.check_rekey_ike_sa_timer)
    assert req is not None
    n_i, n_r = len(IE.kernel.log), len(RE.kernel.log)
    pump(ini, IE, res, RE, req)
    new_i, new_r = ini.new_ike_sa, res.new_ike_sa
    if new_i is None or new_r is None:
        return 'IKE_SA rekey produced no successor', None, None
    if len(IE.kernel.log) != n_i or len(RE.kernel.log) != n_r:
        return 'IKE_SA rekey touched the kernel', None, None
    bad = check_ike_keys(eng, new_i, new_r, f'IKE_SA rekey initiated by {who}') or \
        check_rfc_ike(eng, new_i, NONCES[n0], NONCES[n0 + 1], old_sk_d, f'IKE_SA rekey initiated by {who}', old_prf_id=old_prf_id)
    return bad, (new_i if who == 'A' else new_r), (new_r if who == 'A' else new_i)


def h_scenario(suite, scenario, only_rfc=False):
    from symx import core
    eng = core.engine()
    del NONCES[:]
    p = mk_pair(suite)
    pfs = suite in ('pfs', 'pfs384', 'child_dh_retry', 'child_dh_retry_modp')
    checks = []
    S = MODS['ikesa'].IkeSa.State
    try:
        bad = do_initial(p, eng, checks)
        if bad:
            return {'class': ['scenario'], 'violation': bad}
        sa_a, sa_b = p.a, p.b
        for step in scenario.split('+'):
            if step == 'init':
                continue
            kind, who = step.split('@')
            if kind == 'new':
                do_new_child(p, eng, checks, who, sa_a, sa_b, pfs)
            elif kind == 'rekey':
                do_rekey_child(p, eng, checks, who, sa_a, sa_b, pfs)
            elif kind == 'ikecollide':
                do_ike_collision(p, sa_a, sa_b)
            elif kind == 'cross':
                do_cross(p, eng, checks, who.split('x'), sa_a, sa_b, pfs)
            elif kind == 'ike':
                bad, sa_a, sa_b = do_rekey_ike(p, eng, checks, who, sa_a, sa_b)
                if bad:
                    return {'class': ['scenario'], 'violation': bad}
    except AssertionError as ex:
        return {'class': ['scenario'], 'violation': f'{suite}/{scenario}: the exchange did not complete ({ex})'}
    for label, neg, x, y in checks:
        if x is not None and not only_rfc:
            bad = check_ike_keys(eng, x, y, label)
            if bad:
                return {'class': ['scenario'], 'violation': bad}
        bad = (None if only_rfc else check_mirror(eng, neg, label)) or check_rfc_keys(eng, neg, label)
        if bad:
            return {'class': ['scenario'], 'violation': bad}
    return ['scenario', len(checks)]


AFTER_COLLISION = ('init+ikecollide@AB+new@A', 'init+ikecollide@AB+new@B', 'init+ikecollide@AB+rekey@A', 'init+ikecollide@AB+ike@B+new@A')
SCENARIOS = ('init', 'init+new@A', 'init+new@B', 'init+rekey@A', 'init+rekey@B', 'init+ike@A+new@A+new@B', 'init+ike@B+rekey@B+new@A',
             'init+new@B+rekey@A', 'init+ike@A+ike@B+new@B', 'init+cross@newxnew', 'init+cross@rekeyxnew', 'init+new@B+cross@newxrekey')


def build_instances(tier):
    inst = []
    nat = common.native_of
    for suite in SUITES:
        for sc in SCENARIOS:
            if tier == 'quick' and suite in ('pfs384', 'aes128_sha1') and sc not in ('init+new@B', 'init+rekey@A'):
                continue
            if 'cross' in sc and suite not in ('default', 'pfs', 'ah_tunnel'):
                continue
            if suite == 'prf_change' and sc not in ('init', 'init+ike@B+rekey@B+new@A', 'init+ike@A+ike@B+new@B', 'init+ike@A+new@A+new@B'):
                continue
            if suite in NARROW and sc not in ('init', 'init+new@A', 'init+new@B', 'init+rekey@A', 'init+rekey@B', 'init+ike@A+new@A+new@B'):
                continue
            if suite == 'ike_dh_retry' and 'ike@' in sc:
                # a responder answers an IKE_SA rekey whose KE group it does not like with INVALID_KE_PAYLOAD *and* ends the old IKE_SA, so the
                # retry is never answered (observation recorded in DESIGN.md; no SAs are installed, hence nothing for C01 to compare)
                continue
            inst.append(Instance(f'{suite} {sc}', h_scenario, (suite, sc), native=nat(h_scenario), engine_kw={'max_ticks': 10 ** 7},
                                 must_reach=[('completed', lambda o: o[0] == 'scenario' and len(o) == 2)]))
    # state left behind by an IKE_SA rekey attempt that both ends refused (simultaneous rekey) must not leak into later negotiations
    for suite in ('default', 'pfs', 'child_dh_retry', 'child_dh_retry_modp'):
        for sc in AFTER_COLLISION:
            if tier == 'quick' and suite in ('default', 'pfs') and sc != AFTER_COLLISION[0]:
                continue
            inst.append(Instance(f'{suite} {sc}', h_scenario, (suite, sc), native=nat(h_scenario), engine_kw={'max_ticks': 10 ** 7},
                                 must_reach=[('completed', lambda o: o[0] == 'scenario' and len(o) == 2)]))
    return inst


def _load(shim):
    global MODS
    MODS = world.load(shim=shim)
    symcrypto.install(MODS)
    c04.MODS = MODS
    install_nonce_recorder(MODS['message'])
    return MODS


def replay_file(path):
    return common.generic_replay_file(path, lambda: build_instances('thorough') + build_instances('quick'), lambda: _load(False))


def main(tier, seed):
    _load(True)
    ik, x = MODS['ikesa'].IkeSa, MODS['xfrm'].Xfrm
    chk = Check('C01', tier, seed,
                functions=common.src_hash(ik.generate_ike_sa_key_material, ik.generate_child_sa_key_material, ik._process_create_child_sa_negotiation_req,
                                          ik._process_create_child_sa_negotiation_res, ik._process_ike_sa_negotiation_request,
                                          ik.process_ike_sa_negotiation_response, ik.process_create_child_sa_request, ik.process_create_child_sa_response,
                                          ik.process_ike_auth_request, ik.process_ike_auth_response, x.create_child_sa, MODS['message'].Message.parse,
                                          MODS['message'].Message.to_bytes),
                bounds={'values': 'ALL nonces (16 bytes each), IKE and CHILD SPIs, IVs, DH public values and every PRF/MAC/cipher output are symbolic: one path '
                                  'covers every value',
                        'scenarios': '9 sequences of up to 4 negotiations on one IKE_SA lineage (initial; CREATE_CHILD_SA new / rekey from either side; IKE_SA '
                                     'rekey from either side, also twice, followed by exchanges on the successor)',
                        'suites': '8 configurations: default (AES-256/SHA2-256 ESP transport), AES-128, initiator offering a subset of what the responder prefers, '
                                  'AH tunnel, PFS (ecp256, ecp384), IKE and CHILD INVALID_KE_PAYLOAD retries',
                        'outside': 'nonce lengths other than 16; the ctypes encoding of the kernel request (C14); real DH/HMAC/AES arithmetic (uninterpreted); '
                                   'IPv6; RSA authentication'},
                assumptions=['HMAC, AES-CBC and DH are uninterpreted functions with functional consistency; DH is commutative by construction of the model',
                             'the reference key split is RFC 7296 2.17 transcribed in this harness (prf+ via harness/c04.ref_prfplus)'],
                stubs=['os.urandom -> fresh symbolic bytes', 'DiffieHellman model', 'crypto.HMAC / Cipher (UF)', 'Xfrm.create_sa/delete_sa recorder', 'struct', 'enum lookup'])
    chk.run(build_instances(tier))
    return chk.finish(replay=lambda v: common.native_replay_subprocess('C01', v))
