"""C10 - the kernel SAD always equals the CHILD_SAs the daemon tracks.
Two real IkeSaControllers, each with a ghost SAD fed by every Xfrm.create_sa / delete_sa / flush the real code issues.
After EVERY processed event the ghost SAD of the acting endpoint must equal the inbound+outbound SAs of the CHILD_SAs of the
IKE_SAs it still holds.  Symbolic: the position of ONE kernel refusal (NetlinkError at the f-th SA request of an endpoint,
f = -1: none) along each exchange flow; the SPI, protocol and SPI count named by a DELETE request; the SPI named by a REKEY_SA
notification; the type of the error notification in a CREATE_CHILD_SA response.  Flows (enumerated): initial exchange,
CREATE_CHILD_SA new, CHILD_SA rekey and delete from either side, IKE_SA rekey and delete from either side, refused
negotiations (NO_PROPOSAL_CHOSEN, TS_UNACCEPTABLE, INVALID_KE_PAYLOAD incl. IKE_SA rekey), simultaneous rekeys."""
import json

from . import common, world, c08, c11
from .common import Instance, Check

MODS = None


class Violation(Exception):
    pass


def check(n, who, when):
    e = n.ep(who)
    bad = world.sad_invariant(e.obj, e.kernel)
    if bad:
        raise Violation(f'after {when} at {who}: ' + '; '.join(bad))


def arm_fault(eng, n, who, max_req):
    """one kernel refusal at an arbitrary SA request of endpoint `who` from now on (-1 = none)"""
    k = n.ep(who).kernel
    k.n_req = 0
    f = eng.sym_int(f'fault_{who}', -1, max_req)
    k.fail_at = f
    return f


def pump(n, to, data, label):
    step = [0]

    def on_step(w):
        step[0] += 1
        check(n, w, f'{label} message {step[0]}')
    return n.pump(to, data, on_step=on_step)


# ----------------------------------------------------------------------------- flows
def flow_initial(n, eng, fault_at):
    f = arm_fault(eng, n, fault_at, 3)
    req = n.acquire('A')
    check(n, 'A', 'acquire')
    pump(n, 'B', req, 'initial exchange')


def flow_new_child(n, eng, fault_at):
    n.establish()
    arm_fault(eng, n, fault_at, 3)
    req = n.acquire('A', sport=9999)
    check(n, 'A', 'acquire')
    pump(n, 'B', req, 'CREATE_CHILD_SA')


def flow_rekey_child(n, eng, fault_at, who='A'):
    a, b = n.establish()
    me = a if who == 'A' else b
    arm_fault(eng, n, fault_at, 5)
    req = n.expire(who, me.child_sas[0].inbound_spi, False)
    check(n, who, 'soft expire')
    pump(n, 'B' if who == 'A' else 'A', req, 'CHILD_SA rekey')


def flow_del_child(n, eng, fault_at, who='A'):
    a, b = n.establish()
    me = a if who == 'A' else b
    arm_fault(eng, n, fault_at, 3)
    req = n.expire(who, me.child_sas[0].inbound_spi, True)
    check(n, who, 'hard expire')
    pump(n, 'B' if who == 'A' else 'A', req, 'CHILD_SA delete')


def flow_rekey_ike(n, eng, fault_at, who='A'):
    a, b = n.establish()
    me, E = (a, n.A) if who == 'A' else (b, n.B)
    arm_fault(eng, n, fault_at, 3)
    world.ENV.now = me.rekey_ike_sa_at + 10
    n0 = (len(n.A.kernel.log), len(n.B.kernel.log))
    with E:
        req = me.check_rekey_ike_sa_timer()
    pump(n, 'B' if who == 'A' else 'A', req, 'IKE_SA rekey')
    S = MODS['ikesa'].IkeSa.State
    if not all(len(c.ike_sas) == 1 and c.ike_sas[0] is not x and c.ike_sas[0].state == S.ESTABLISHED for c, x in ((n.a, a), (n.b, b))):
        return          # the rekey did not complete (refused / retried into a removed IKE_SA): only the invariant applies
    if (len(n.A.kernel.log), len(n.B.kernel.log)) != n0:
        raise Violation('IKE_SA rekey touched the kernel (the CHILD_SAs are handed over, nothing is installed or deleted)')
    for ctl in (n.a, n.b):
        live = [e for e in ctl.ike_sas if e.state == S.ESTABLISHED]
        if len(ctl.ike_sas) != 1 or len(live) != 1 or len(live[0].child_sas) != 1:
            raise Violation(f'after an IKE_SA rekey a controller holds {len(ctl.ike_sas)} IKE_SAs / {[len(e.child_sas) for e in ctl.ike_sas]} CHILD_SAs')


def flow_del_ike(n, eng, fault_at, who='A', children=1):
    a, b = n.establish()
    for i in range(children - 1):
        # further CHILD_SAs of the same IKE_SA (created by alternating endpoints)
        w = 'A' if i % 2 == 0 else 'B'
        r = n.acquire(w, sport=9100 + i, dport=23) if w == 'A' else n.acquire(w, sport=23, dport=9100 + i)
        n.pump('B' if w == 'A' else 'A', r)
    if len(a.child_sas) != children or len(b.child_sas) != children:
        raise Violation(f'set-up: {len(a.child_sas)}/{len(b.child_sas)} CHILD_SAs instead of {children}')
    me, E = (a, n.A) if who == 'A' else (b, n.B)
    arm_fault(eng, n, fault_at, 3)
    world.ENV.now = me.delete_ike_sa_at + 3600
    with E:
        req = me.check_rekey_ike_sa_timer()
    pump(n, 'B' if who == 'A' else 'A', req, 'IKE_SA delete')
    if n.a.ike_sas or n.b.ike_sas or n.A.kernel.sad or n.B.kernel.sad:
        if n.A.kernel.fail_at is None and n.B.kernel.fail_at is None:
            raise Violation('IKE_SA delete left IKE_SAs or kernel SAs behind')


def flow_refused(n, eng, fault_at, why):
    """a CREATE_CHILD_SA request that the responder refuses"""
    n.establish()
    arm_fault(eng, n, fault_at, 3)
    if why == 'ts':
        req = n.acquire('A', sport=9999, dport=99)          # no policy at B covers port 99
    else:
        req = n.acquire('A', sport=9999)
    pump(n, 'B', req, f'refused CREATE_CHILD_SA ({why})')


def flow_simultaneous_rekey(n, eng, fault_at):
    a, b = n.establish()
    arm_fault(eng, n, fault_at, 6)
    ra = n.expire('A', a.child_sas[0].inbound_spi, False)
    rb = n.expire('B', b.child_sas[0].inbound_spi, False)
    # both requests cross
    resb = n.dispatch('B', ra); check(n, 'B', 'crossing rekey request')
    resa = n.dispatch('A', rb); check(n, 'A', 'crossing rekey request')
    if resb is not None:
        pump(n, 'A', resb, 'simultaneous rekey (A side)')
    if resa is not None:
        pump(n, 'B', resa, 'simultaneous rekey (B side)')


def flow_simultaneous_ike_rekey(n, eng, fault_at):
    a, b = n.establish()
    arm_fault(eng, n, fault_at, 3)
    world.ENV.now = a.rekey_ike_sa_at + 10
    with n.A:
        ra = a.check_rekey_ike_sa_timer()
    with n.B:
        rb = b.check_rekey_ike_sa_timer()
    resb = n.dispatch('B', ra); check(n, 'B', 'crossing IKE rekey request')
    resa = n.dispatch('A', rb); check(n, 'A', 'crossing IKE rekey request')
    if resb is not None:
        pump(n, 'A', resb, 'simultaneous IKE rekey (A side)')
    if resa is not None:
        pump(n, 'B', resa, 'simultaneous IKE rekey (B side)')


def _trigger(n, who, t):
    ctl = n.a if who == 'A' else n.b
    me, E = ctl.ike_sas[0], (n.A if who == 'A' else n.B)
    if t == 'soft':
        return n.expire(who, me.child_sas[0].inbound_spi, False)
    if t == 'hard':
        return n.expire(who, me.child_sas[0].inbound_spi, True)
    if t == 'acquire':
        return n.acquire(who, sport=9999, dport=23) if who == 'A' else n.acquire(who, sport=23, dport=9999)
    if t == 'rekey_ike':
        me.rekey_ike_sa_at = world.ENV.now - 1
    else:
        me.delete_ike_sa_at = world.ENV.now - 1
    with E:
        return me.check_rekey_ike_sa_timer()


def flow_cross(n, eng, fault_at, ta, tb):
    """both endpoints start an exchange at the same time: each request is received while the own one is outstanding"""
    n.establish()
    arm_fault(eng, n, fault_at, 6)
    ra = _trigger(n, 'A', ta); check(n, 'A', f'{ta} trigger')
    rb = _trigger(n, 'B', tb); check(n, 'B', f'{tb} trigger')
    resb = n.dispatch('B', ra) if ra is not None else None
    check(n, 'B', f'crossing {ta} request')
    resa = n.dispatch('A', rb) if rb is not None else None
    check(n, 'A', f'crossing {tb} request')
    if resb is not None:
        pump(n, 'A', resb, f'{ta} x {tb} (A side)')
    if resa is not None:
        pump(n, 'B', resa, f'{ta} x {tb} (B side)')
    check(n, 'A', 'the end')
    check(n, 'B', 'the end')


def flow_lost_request(n, eng, fault_at, who, first, then):
    """`who` starts an exchange whose request is LOST; meanwhile the other endpoint (which has seen nothing) runs a complete exchange of its own, which
    `who` serves while its request is outstanding; then the retransmission of the lost request arrives and is processed"""
    a, b = n.establish()
    # a second CHILD_SA, so that something is left when one is deleted
    r = n.acquire('A', sport=9100, dport=23)
    n.pump('B', r)
    other = 'B' if who == 'A' else 'A'
    arm_fault(eng, n, fault_at, 8)
    lost = _trigger(n, who, first); check(n, who, f'{first} trigger')
    if lost is None:
        return
    req2 = _trigger(n, other, then); check(n, other, f'{then} trigger')
    if req2 is not None:
        pump(n, who, req2, f'{then} by {other} while the {first} request of {who} is lost')
    ctl = n.a if who == 'A' else n.b
    me = next((e for e in ctl.ike_sas if e.state.name.endswith('_REQ_SENT') and e.request is not None), None)
    if me is None:
        return
    world.ENV.now = max(world.ENV.now, me.retransmit_at) + 1
    with (n.A if who == 'A' else n.B):
        again = me.check_retransmission_timer()
    if again is not None:
        pump(n, other, again, f'retransmitted {first} request of {who}')
    check(n, 'A', 'the end')
    check(n, 'B', 'the end')


def flow_after_rekey(n, eng, fault_at, who='A', then='soft'):
    """IKE_SA rekey started by `who`; afterwards the OTHER endpoint is the first to use the new IKE_SA (its own CHILD_SA rekey / delete / ACQUIRE /
    liveness probe), then `who` does the same"""
    a, b = n.establish()
    me, E = (a, n.A) if who == 'A' else (b, n.B)
    world.ENV.now = me.rekey_ike_sa_at + 10
    with E:
        req = me.check_rekey_ike_sa_timer()
    pump(n, 'B' if who == 'A' else 'A', req, 'IKE_SA rekey')
    arm_fault(eng, n, fault_at, 4)
    S = MODS['ikesa'].IkeSa.State
    for speaker in (('B', 'A') if who == 'A' else ('A', 'B')):
        ctl = n.a if speaker == 'A' else n.b
        live = [e for e in ctl.ike_sas if e.state == S.ESTABLISHED]
        if len(live) != 1:
            raise Violation(f'after the rekey {speaker} holds {len(live)} established IKE_SAs')
        sa, SE = live[0], (n.A if speaker == 'A' else n.B)
        if then == 'dpd':
            world.ENV.now = sa.start_dpd_at + 3600
            with SE:
                r = sa.check_dead_peer_detection_timer()
        elif then == 'acquire':
            r = n.acquire(speaker, sport=9300, dport=23) if speaker == 'A' else n.acquire(speaker, sport=23, dport=9300)
        else:
            if not sa.child_sas:
                continue
            r = n.expire(speaker, sa.child_sas[0].inbound_spi, then == 'hard')
        check(n, speaker, f'{then} trigger on the new IKE_SA')
        if r is not None:
            pump(n, 'B' if speaker == 'A' else 'A', r, f'{then} on the new IKE_SA by {speaker}')
        for w in 'AB':
            check(n, w, f'{then} by {speaker} on the IKE_SA created by the rekey of {who}')
            c2 = n.a if w == 'A' else n.b
            if not [e for e in c2.ike_sas if e.state == S.ESTABLISHED] and n.A.kernel.fail_at is None and n.B.kernel.fail_at is None:
                raise Violation(f'{w} lost its established IKE_SA after {then} by {speaker}')


CROSS = ('soft', 'hard', 'acquire', 'rekey_ike', 'del_ike')
FLOWS = {
    'initial': (flow_initial, {}, {}),
    'new_child': (flow_new_child, {}, {}),
    'rekey_child_A': (flow_rekey_child, {'who': 'A'}, {}),
    'rekey_child_B': (flow_rekey_child, {'who': 'B'}, {}),
    'rekey_child_pfs': (flow_rekey_child, {'who': 'A'}, {'child_dh': ('ecp256',)}),
    'del_child_A': (flow_del_child, {'who': 'A'}, {}),
    'del_child_B': (flow_del_child, {'who': 'B'}, {}),
    'rekey_ike_A': (flow_rekey_ike, {'who': 'A'}, {}),
    'rekey_ike_B': (flow_rekey_ike, {'who': 'B'}, {}),
    'rekey_ike_invalid_ke': (flow_rekey_ike, {'who': 'A'}, {'dh_ike': ('ecp256', 'ecp384'), 'dh_ike_b': ('ecp384', 'ecp256')}),
    'del_ike_A': (flow_del_ike, {'who': 'A'}, {}),
    'del_ike_B': (flow_del_ike, {'who': 'B'}, {}),
    'refused_ts': (flow_refused, {'why': 'ts'}, {}),
    'refused_proposal': (flow_refused, {'why': 'proposal'}, {}),      # conf tweak below
    'refused_invalid_ke': (flow_refused, {'why': 'ke'}, {'child_dh': ('ecp256', 'ecp384'), 'child_dh_b': ('ecp384', 'ecp256')}),
    'simultaneous_rekey': (flow_simultaneous_rekey, {}, {}),
    'simultaneous_ike_rekey': (flow_simultaneous_ike_rekey, {}, {}),
}
FLOWS.update({'del_child_A_same_spi': (flow_del_child, {'who': 'A'}, {}), 'del_child_B_same_spi': (flow_del_child, {'who': 'B'}, {}),
              'del_ike_A_same_spi': (flow_del_ike, {'who': 'A'}, {}), 'rekey_ike_B_same_spi': (flow_rekey_ike, {'who': 'B'}, {})})
# a second CHILD_SA whose SPIs repeat those of the first (equal random draws; an authenticated peer may also simply reuse a value): the kernel refuses the
# duplicate (EEXIST) and the roll-back must not touch the SAs of the CHILD_SA that owns the value
FLOWS.update({'new_child_same_spi': (flow_new_child, {}, {}), 'rekey_child_A_same_spi': (flow_rekey_child, {'who': 'A'}, {}),
              'rekey_child_B_same_spi': (flow_rekey_child, {'who': 'B'}, {})})
FLOWS.update({f'del_ike_{w}_{k}_children': (flow_del_ike, {'who': w, 'children': k}, {}) for w in 'AB' for k in (2, 3)})
FLOWS.update({f'after_rekey_{w}_{t}': (flow_after_rekey, {'who': w, 'then': t}, {}) for w in 'AB' for t in ('soft', 'hard', 'acquire', 'dpd')})
MIXED = {'mode': 'tunnel'}
FLOWS.update({'mixed_family_rekey_child': (flow_rekey_child, {'who': 'A'}, MIXED), 'mixed_family_del_child': (flow_del_child, {'who': 'B'}, MIXED),
              'mixed_family_del_ike': (flow_del_ike, {'who': 'A'}, MIXED)})
FLOWS.update({f'lost_{f}_{w}_then_{t}': (flow_lost_request, {'who': w, 'first': f, 'then': t}, {})
              for f in ('rekey_ike', 'soft', 'acquire') for w in 'AB' for t in ('hard', 'soft', 'acquire', 'rekey_ike')})
FLOWS.update({f'cross_{ta}_{tb}': (flow_cross, {'ta': ta, 'tb': tb}, {}) for ta in CROSS for tb in CROSS})


def h_flow(name, fault_at):
    from symx import core
    eng = core.engine()
    fn, kw, conf = FLOWS[name]
    # flows are concrete apart from the fault position: the kernel model sits BEHIND the netlink socket, so the real request builders, the real
    # reply parsing and the real error handling of xfrm.py / netlink.py are part of what runs
    world.SWITCH.install(MODS['xfrm'], wire=True)
    world.wire_env(MODS)
    env_setup = None
    if name.endswith('_same_spi'):
        # every 4-byte random value (= every CHILD_SA SPI) is the same: inbound and outbound SA of a CHILD_SA share the SPI value, which is
        # legal - an SA is identified by (destination, protocol, SPI)
        def env_setup(env):
            env.urandom_hook = lambda k: b'SPI!' if k == 4 else None
    n = world.Net(env_setup=env_setup, **conf)
    if name.startswith('mixed_family'):
        # IPv6 networks protected by a tunnel between IPv4 endpoints: the selector family differs from the family of the SA's addresses
        n.confdict['alice']['protect'][0].update(my_subnet='2001:db8:a::/48', peer_subnet='2001:db8:b::/48')
        n.confdict['bob']['protect'][0].update(my_subnet='2001:db8:b::/48', peer_subnet='2001:db8:a::/48')
        cf = MODS['configuration'].Configuration([world.IP1, world.IP2], n.confdict)
        n.a.configuration = cf
        n.b.configuration = cf
        n.mixed = True
    if name == 'refused_proposal':
        n.confdict['bob']['protect'][0]['encr'] = ['aes128']
        n.confdict['alice']['protect'][0]['encr'] = ['aes256']
        cf = MODS['configuration'].Configuration([world.IP1, world.IP2], n.confdict)
        n.a.configuration = cf
        n.b.configuration = cf
    try:
        fn(n, eng, fault_at, **kw)
    except Violation as v:
        return {'class': ['flow', name], 'violation': str(v)}
    S = MODS['ikesa'].IkeSa.State
    return ['flow', name, [e.state.name for e in n.a.ike_sas], [e.state.name for e in n.b.ike_sas]]


def h_delete_request(n_spis, who):
    """an authentic INFORMATIONAL request with a DELETE payload naming arbitrary SPIs / protocol"""
    world.SWITCH.install(MODS['xfrm'], wire=False)
    from symx import core
    eng = core.engine()
    m = MODS['message']
    n = world.Net()
    a, b = n.establish()
    # a second CHILD_SA so that 'exactly the named pair' is observable
    pump(n, 'B', n.acquire('A', sport=9999), 'second CHILD_SA')
    me, peer = (b, a) if who == 'B' else (a, b)
    proto = eng.sym_int('protocol', 0, 255)
    spis = [eng.sym_bytes(f'spi{i}', 4) for i in range(n_spis)]
    before = {bytes(c.inbound_spi): c for c in me.child_sas}
    named = lambda c: core.sym_or(*[core.sym_or(s == c.inbound_spi, s == c.outbound_spi) for s in spis])
    msg = m.Message(spi_i=me.spi_i, spi_r=me.spi_r, major=2, minor=0, exchange_type=37, is_response=False, can_use_higher_version=False,
                    is_initiator=peer.is_initiator, message_id=me.peer_msg_id, payloads=[],
                    encrypted_payloads=[m.PayloadDELETE(proto, spis)])
    msg.is_protected = True
    E = n.ep(who)
    ctl = E.obj
    r = c11.deliver_object_ctl(ctl, E, msg, n.addr(who), n.addr('A' if who == 'B' else 'B'))
    bad = world.sad_invariant(ctl, E.kernel)
    if bad:
        return {'class': ['delete'], 'violation': 'after a DELETE request: ' + '; '.join(bad)}
    P = eng.prove
    if me not in ctl.ike_sas:
        P(proto == 1, 'the IKE_SA was removed by a DELETE that does not name protocol IKE')
        return ['delete', 'ike']
    gone = [c for k, c in before.items() if c not in me.child_sas]
    kept = [c for k, c in before.items() if c in me.child_sas]
    for c in gone:
        P(core.sym_and(named(c), proto == int(c.proposal.protocol_id)), 'a CHILD_SA was deleted that the DELETE payload does not name (SPI and protocol)')
    for c in kept:
        P(core.sym_not(core.sym_and(named(c), proto == int(c.proposal.protocol_id))), 'a CHILD_SA named by the DELETE payload was kept')
    return ['delete', len(gone)]


def h_error_response(req_kind):
    """initiator with an outstanding CREATE_CHILD_SA request gets a response carrying one notification of arbitrary type"""
    world.SWITCH.install(MODS['xfrm'], wire=False)
    from symx import core
    eng = core.engine()
    m = MODS['message']
    S = MODS['ikesa'].IkeSa.State
    n = world.Net()
    a, b = n.establish()
    if req_kind == 'new':
        n.acquire('A', sport=9999)
    elif req_kind == 'rekey':
        n.expire('A', a.child_sas[0].inbound_spi, False)
    else:
        world.ENV.now = a.rekey_ike_sa_at + 10
        with n.A:
            a.check_rekey_ike_sa_timer()
    ntype = eng.sym_int('notify_type', 0, 0xFFFF)
    note = m.PayloadNOTIFY(m.Proposal.Protocol.NONE, 0, b'', b'')
    note.notification_type = core.SymEnumVal(ntype.t) if not isinstance(ntype, int) else m.PayloadNOTIFY.Type(ntype)
    # INVALID_KE_PAYLOAD needs 2 bytes of data; give every type the same data
    note.notification_data = b'\x00\x13'
    msg = m.Message(spi_i=a.spi_i, spi_r=a.spi_r, major=2, minor=0, exchange_type=36, is_response=True, can_use_higher_version=False,
                    is_initiator=False, message_id=a.my_msg_id, payloads=[], encrypted_payloads=[note])
    msg.is_protected = True
    r = c11.deliver_object_ctl(n.a, n.A, msg, world.IP1, world.IP2)
    bad = world.sad_invariant(n.a, n.A.kernel)
    if bad:
        return {'class': ['error_response'], 'violation': 'after an error response: ' + '; '.join(bad)}
    return ['error_response', a.state.name if a in n.a.ike_sas else 'removed']


def h_rekey_request(which):
    """responder gets a CHILD_SA rekey request whose REKEY_SA notification names an arbitrary SPI"""
    world.SWITCH.install(MODS['xfrm'], wire=False)
    from symx import core
    eng = core.engine()
    m = MODS['message']
    n = world.Net()
    a, b = n.establish()
    req = n.expire('A', a.child_sas[0].inbound_spi, False)
    parsed = m.Message.parse(bytes(req), crypto=b.peer_crypto)
    spi = eng.sym_bytes('rekey_spi', 4)
    for x in parsed.encrypted_payloads:
        if x.type == m.Payload.Type.NOTIFY and x.notification_type == m.PayloadNOTIFY.Type.REKEY_SA:
            x.spi = spi
    parsed.is_protected = True
    r = c11.deliver_object_ctl(n.b, n.B, parsed, world.IP2, world.IP1)
    bad = world.sad_invariant(n.b, n.B.kernel)
    if bad:
        return {'class': ['rekey_request'], 'violation': 'after a rekey request: ' + '; '.join(bad)}
    return ['rekey_request', len(b.child_sas)]


def build_instances(tier):
    inst = []
    nat = common.native_of
    for name in FLOWS:
        for fault_at in ('A', 'B'):
            inst.append(Instance(f'flow {name} fault@{fault_at}', h_flow, (name, fault_at), native=nat(h_flow)))
    for who in ('A', 'B'):
        for k in ((1, 2) if tier == 'quick' else (0, 1, 2, 3)):
            inst.append(Instance(f'delete request spis={k} at {who}', h_delete_request, (k, who), native=nat(h_delete_request)))
    for kind in ('new', 'rekey', 'rekey_ike'):
        inst.append(Instance(f'error response to {kind}', h_error_response, (kind,), native=nat(h_error_response)))
    inst.append(Instance('rekey request with arbitrary SPI', h_rekey_request, ('child',), native=nat(h_rekey_request)))
    return inst


def _load(shim):
    global MODS
    MODS = world.load(shim=shim)
    c08.MODS = MODS
    c11.MODS = MODS
    return MODS


def replay_file(path):
    return common.generic_replay_file(path, lambda: build_instances('thorough') + build_instances('quick'), lambda: _load(False))


def classify(v):
    kf = common.load_known_findings()
    for k in kf.get('known', []):
        if k.get('property') == 'C10' and k.get('match') and k['match'] in v.get('label', ''):
            return k['id']
    return None


def main(tier, seed):
    _load(True)
    ik, ic, x = MODS['ikesa'].IkeSa, MODS['ikesacontroller'].IkeSaController, MODS['xfrm'].Xfrm
    chk = Check('C10', tier, seed,
                functions=common.src_hash(ik._process_create_child_sa_negotiation_req, ik._process_create_child_sa_negotiation_res,
                                          ik.process_informational_request, ik.process_informational_response, ik.process_create_child_sa_request,
                                          ik.process_create_child_sa_response, ik.delete_child_sas, ic.dispatch_message, x.create_child_sa,
                                          x.delete_child_sa),
                bounds={'flows': '17 exchange flows between two real controllers (initial, new CHILD_SA, CHILD_SA rekey/delete from either side, with PFS, '
                                 'IKE_SA rekey/delete from either side, INVALID_KE retry of an IKE_SA rekey, three refused negotiations, simultaneous '
                                 'CHILD_SA and IKE_SA rekeys); the invariant is checked after EVERY dispatched datagram',
                        'fault': 'ONE kernel refusal (NetlinkError) at an arbitrary position of the SA requests of either endpoint along the flow, or none',
                        'delete': 'DELETE request with 1-2 (thorough 0-3) arbitrary 4-byte SPIs and an arbitrary protocol byte, at either endpoint, two CHILD_SAs',
                        'notifications': 'response with one notification of ANY 16-bit type to an outstanding new / rekey / IKE-rekey request',
                        'outside': 'the ctypes encoding below Xfrm.create_sa/delete_sa (C14); timer-driven removal inside main_loop (C17); more than one '
                                   'fault per flow; losses/duplicates (C08/C09/C16)'},
                assumptions=['SPIs are pairwise distinct (deterministic randomness stub)', 'a refused XFRM_MSG_NEWSA installs nothing; a refused XFRM_MSG_DELSA '
                             'means the SA had already vanished from the kernel (ESRCH) - the only refusal after which consistency is possible at all'],
                stubs=['Xfrm.create_sa/delete_sa/flush -> ghost SAD with fault injection', 'Message.parse returns the prepared object (symbolic payloads)',
                       'clock/randomness'])
    chk.run(build_instances(tier))
    return chk.finish(classify=classify, replay=lambda v: common.native_replay_subprocess('C10', v))
