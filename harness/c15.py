"""C15 - installed policies mirror the configuration and acquires map back to it.
The real IkeSaController.__init__ / close and Xfrm.create_policies run against the modelled ctypes; the netlink datagrams they
emit are decoded with the kernel layout (C14's decoder) into a model SPD.  Symbolic: per protect entry both ports, the IP
protocol and the index; the previous kernel state is a free variable (the constructor never reads it - the first two requests
must be the flushes).  Oracle: FLUSHPOLICY, FLUSHSA first; then per entry exactly one OUT policy with index = entry.index<<3|OUT,
one IN and one FWD policy with reversed selectors and tunnel endpoints, configured selectors/protocol/mode; close() flushes
both.  ACQUIRE (kernel-encoded bytes, policy index, ports and protocol symbolic): index>>3 of an installed OUT policy selects
that entry's connection and peer (an existing IKE_SA with the peer is reused), the first CHILD_SA request carries selectors
that contain the acquire's packet and lie inside the entry's, the entry's proposal (without DH when piggy-backed on IKE_AUTH),
the transport-mode notification iff transport, the entry's lifetime; an unknown index produces nothing."""
import json
import types
from ipaddress import ip_address, ip_network

from . import common, world, klayout, c14
from .common import Instance, Check

MODS = None

NETS = {
    4: [('198.51.100.0/24', '203.0.113.128/25'), ('192.168.0.1/32', '192.168.0.2/32'), ('10.0.0.0/8', '0.0.0.0/0')],
    6: [('2001:db8:1::/48', '2001:db8:2::/64'), ('::/0', '2001:db8:2::/64'), ('2001:db8:1::/48', '::/0'), ('::/16', '::1/128')],
}


def mk_config(eng, shape, sym_entry=None):
    """shape: list of connections, each a list of protect entries (version, nets idx, mode, proto); -> Configuration with symbolic ports/ip_proto/index"""
    from symx import core
    cfm, m, x = MODS['configuration'], MODS['message'], MODS['xfrm']
    T, P, TS = m.Transform, m.Proposal, m.TrafficSelector
    conns = {}
    meta = []
    for ci, entries in enumerate(shape):
        my_addr, peer_addr = world.IP2, ip_address(f'192.168.0.{1 + ci * 10}')
        prot = []
        for ei, (version, ni, mode, ipsec) in enumerate(entries):
            name = f'c{ci}e{ei}'
            if sym_entry is None or sym_entry == len(meta):
                my_port, peer_port = eng.sym_int(f'{name}.my_port', 0, 65535), eng.sym_int(f'{name}.peer_port', 0, 65535)
                ip_proto = eng.sym_int(f'{name}.ip_proto', 0, 255)
                index = eng.sym_int(f'{name}.index', 0, (1 << 29) - 1)
            else:
                # the other entries of this instance are concrete (each entry gets its own instance with symbolic values)
                my_port, peer_port, ip_proto, index = (0, 443, 6, 40 + len(meta)) if len(meta) % 2 else (8080, 0, 17, 50 + len(meta))
            my_net, peer_net = (ip_network(n) for n in NETS[version][ni])
            proposal = P(1, P.Protocol.ESP if ipsec == 'esp' else P.Protocol.AH, b'',
                         ([T(T.Type.ENCR, T.EncrId.ENCR_AES_CBC, 256)] if ipsec == 'esp' else []) + [T(T.Type.INTEG, T.IntegId.AUTH_HMAC_SHA2_256_128),
                                                                                                    T(T.Type.DH, T.DhId.DH_19), T(T.Type.ESN, T.EsnId.NO_ESN)])
            my_ts = TS.from_network(my_net, my_port, ip_proto)
            peer_ts = TS.from_network(peer_net, peer_port, ip_proto)
            e = cfm.IpsecConfiguration(my_ts=my_ts, index=index, peer_ts=peer_ts, lifetime=300 + ei, mode=x.Mode(mode), proposal=proposal)
            prot.append(e)
            meta.append(dict(name=name, conn=ci, my_addr=my_addr, peer_addr=peer_addr, entry=e, my_net=my_net, peer_net=peer_net, my_port=my_port,
                             peer_port=peer_port, ip_proto=ip_proto, index=index, mode=mode, ipsec=ipsec, version=version))
        ike_prop = P(1, P.Protocol.IKE, b'', [T(T.Type.ENCR, T.EncrId.ENCR_AES_CBC, 256), T(T.Type.INTEG, T.IntegId.AUTH_HMAC_SHA2_256_128),
                                              T(T.Type.PRF, T.PrfId.PRF_HMAC_SHA2_256), T(T.Type.DH, T.DhId.DH_19)])
        auth = cfm.AuthConfiguration(psk=b'k', id=m.PayloadID(m.PayloadID.Type.ID_FQDN, b'x'), privkey=None, pubkey=None)
        conns[(my_addr, peer_addr)] = cfm.IkeConfiguration(name=f'conn{ci}', my_addr=my_addr, peer_addr=peer_addr, my_auth=auth, peer_auth=auth,
                                                            lifetime=900, dpd=60, proposal=ike_prop, protect=prot)
    conf = object.__new__(cfm.Configuration)
    conf.ike_configurations = conns
    return conf, meta


def decode_policy(eng, d):
    T = klayout.table()
    K = T['const']
    v = klayout.View(d)
    hl = T['nlmsghdr']['__size']
    ty = v.u('nlmsghdr', 'nlmsg_type')
    out = {'type': ty, 'len_ok': v.u('nlmsghdr', 'nlmsg_len') == len(d), 'flags': v.u('nlmsghdr', 'nlmsg_flags')}
    if ty == K['XFRM_MSG_NEWPOLICY']:
        b = v.at(hl)
        s = b.sub('xfrm_userpolicy_info', 'sel')
        out.update(family=s.u('xfrm_selector', 'family'), saddr=s.raw('xfrm_selector', 'saddr'), daddr=s.raw('xfrm_selector', 'daddr'),
                   sport=s.u('xfrm_selector', 'sport', big=True), dport=s.u('xfrm_selector', 'dport', big=True),
                   sport_mask=s.u('xfrm_selector', 'sport_mask'), dport_mask=s.u('xfrm_selector', 'dport_mask'),
                   plen_s=s.u('xfrm_selector', 'prefixlen_s'), plen_d=s.u('xfrm_selector', 'prefixlen_d'), proto=s.u('xfrm_selector', 'proto'),
                   index=b.u('xfrm_userpolicy_info', 'index'), dir=b.u('xfrm_userpolicy_info', 'dir'), action=b.u('xfrm_userpolicy_info', 'action'))
        at, bad = c14.attrs(v, hl + (T['xfrm_userpolicy_info']['__size'] + 3) // 4 * 4, len(d))
        out['attr_bad'] = bad
        if K['XFRMA_TMPL'] in at:
            tv = v.at(at[K['XFRMA_TMPL']][0])
            out.update(t_daddr=tv.sub('xfrm_user_tmpl', 'id').raw('xfrm_id', 'daddr'), t_saddr=tv.raw('xfrm_user_tmpl', 'saddr'),
                       t_proto=tv.sub('xfrm_user_tmpl', 'id').u('xfrm_id', 'proto'), t_mode=tv.u('xfrm_user_tmpl', 'mode'),
                       t_family=tv.u('xfrm_user_tmpl', 'family'))
    return out


def pad16(addr):
    return addr.packed + bytes(16 - len(addr.packed))


def h_install(shape_name, sym_entry=None):
    from symx import core
    eng = core.engine()
    T = klayout.table()
    K = T['const']
    conf, meta = mk_config(eng, SHAPES[shape_name], sym_entry)
    s = c14.with_socket()
    ic = MODS['ikesacontroller']
    ctl = ic.IkeSaController(my_addrs=[world.IP2], configuration=conf)
    reqs = [decode_policy(eng, d) for d in s.sent]
    P = eng.prove
    if len(reqs) != 2 + 3 * len(meta):
        return {'class': ['install'], 'violation': f'{len(reqs)} requests at start-up, expected 2 flushes + 3 per protect entry'}
    if reqs[0]['type'] != K['XFRM_MSG_FLUSHPOLICY'] or reqs[1]['type'] != K['XFRM_MSG_FLUSHSA']:
        return {'class': ['install'], 'violation': 'start-up does not begin with FLUSHPOLICY, FLUSHSA (state left by a previous incarnation would survive)'}
    for r in reqs:
        if r['len_ok'] is not True or r['flags'] != (K['NLM_F_REQUEST'] | K['NLM_F_ACK']):
            return {'class': ['install'], 'violation': 'netlink header (length / flags) of a start-up request'}
    for i, e in enumerate(meta):
        trio = reqs[2 + 3 * i: 5 + 3 * i]
        if [int(r['type']) for r in trio] != [K['XFRM_MSG_NEWPOLICY']] * 3 or any(r.get('attr_bad') or 't_mode' not in r for r in trio):
            return {'class': ['install'], 'violation': f'entry {e["name"]}: the three requests are not well-formed NEWPOLICY with a template'}
        dirs = [r['dir'] for r in trio]
        if dirs != [K['XFRM_POLICY_OUT'], K['XFRM_POLICY_IN'], K['XFRM_POLICY_FWD']]:
            return {'class': ['install'], 'violation': f'entry {e["name"]}: directions {dirs}, expected OUT, IN, FWD'}
        fam = K['AF_INET'] if e['version'] == 4 else K['AF_INET6']
        tfam = K['AF_INET']
        ipsec_proto = K['IPPROTO_ESP'] if e['ipsec'] == 'esp' else K['IPPROTO_AH']
        out, inn, fwd = trio
        P(out['index'] == ((e['index'] << 3) | K['XFRM_POLICY_OUT']), f'entry {e["name"]}: OUT policy index is not entry.index << 3 | XFRM_POLICY_OUT')
        P((out['index'] >> 3) == e['index'], f'entry {e["name"]}: the installed index does not decode back (>> 3) to the entry index')
        for r, what, src_net, dst_net, sport, dport, t_src, t_dst in (
                (out, 'OUT', e['my_net'], e['peer_net'], e['my_port'], e['peer_port'], e['my_addr'], e['peer_addr']),
                (inn, 'IN', e['peer_net'], e['my_net'], e['peer_port'], e['my_port'], e['peer_addr'], e['my_addr']),
                (fwd, 'FWD', e['peer_net'], e['my_net'], e['peer_port'], e['my_port'], e['peer_addr'], e['my_addr'])):
            if bytes(r['saddr']) != pad16(src_net[0]) or bytes(r['daddr']) != pad16(dst_net[0]) or r['plen_s'] != src_net.prefixlen or r['plen_d'] != dst_net.prefixlen \
                    or r['family'] != fam:
                return {'class': ['install'], 'violation': f'entry {e["name"]} {what}: selector networks / prefix lengths / family differ from the configuration'}
            P(core.sym_and(r['sport'] == sport, r['dport'] == dport, r['sport_mask'] == core.sym_ite_int(sport == 0, 0, 0xFFFF),
                           r['dport_mask'] == core.sym_ite_int(dport == 0, 0, 0xFFFF), r['proto'] == e['ip_proto']),
              f'entry {e["name"]} {what}: ports / masks / protocol differ from the configuration (IN and FWD reversed)')
            if bytes(r['t_saddr']) != pad16(t_src) or bytes(r['t_daddr']) != pad16(t_dst) or r['t_family'] != tfam:
                return {'class': ['install'], 'violation': f'entry {e["name"]} {what}: tunnel endpoints are not ({t_src} -> {t_dst})'}
            if r['t_proto'] != ipsec_proto or r['t_mode'] != e['mode'] or r['action'] != K['XFRM_POLICY_ALLOW']:
                return {'class': ['install'], 'violation': f'entry {e["name"]} {what}: IPsec protocol / mode / action differ from the configuration'}
    del s.sent[:]
    # shutdown at any moment after the constructor (the policies are installed there): while the loop runs (the status socket exists), before
    # main_loop() has created it (the entry script arms its signal handler right after the constructor), or with a status socket whose close() fails
    when = eng.sym_int('shutdown_moment', 0, 2)
    when = eng.concretize(when, 0, 2) if not isinstance(when, int) else when
    if when == 0:
        ctl.control_socket = types.SimpleNamespace(close=lambda: None)
    elif when == 2:
        def broken():
            raise OSError(9, 'Bad file descriptor')
        ctl.control_socket = types.SimpleNamespace(close=broken)
    try:
        ctl.close()
    except Exception:     # noqa - what matters is what reached the kernel before
        pass
    tys = [klayout.View(d).u('nlmsghdr', 'nlmsg_type') for d in s.sent]
    if sorted(tys) != sorted([K['XFRM_MSG_FLUSHPOLICY'], K['XFRM_MSG_FLUSHSA']]):
        moment = ('while the loop runs', 'before main_loop() created the status socket', 'with a status socket whose close() fails')[when]
        return {'class': ['install'], 'violation': f'shutdown {moment} sends {tys}, expected FLUSHPOLICY and FLUSHSA'}
    return ['install', len(meta)]


def acquire_datagram(eng, me, peer, sel_s, sel_d, sport, dport, proto, index, version=4):
    from symx import core
    T = klayout.table()
    K = T['const']
    fam = K['AF_INET'] if version == 4 else K['AF_INET6']
    n = 4 if version == 4 else 16
    A, S, I, Pn = T['xfrm_user_acquire'], T['xfrm_selector'], T['xfrm_id'], T['xfrm_userpolicy_info']
    so = A['sel'][0]
    f = [(A['id'][0] + I['daddr'][0], 4, peer.packed, True), (A['saddr'][0], 4, me.packed, True),
         (so + S['saddr'][0], n, sel_s.packed, True), (so + S['daddr'][0], n, sel_d.packed, True), (so + S['sport'][0], 2, sport, True),
         (so + S['dport'][0], 2, dport, True), (so + S['family'][0], 2, fam, False), (so + S['proto'][0], 1, proto, False),
         (A['policy'][0] + Pn['index'][0], 4, index, False)]
    body = klayout.encode(f, A['__size'])
    tm = T['xfrm_user_tmpl']
    tmpl = klayout.encode([(tm['family'][0], 2, K['AF_INET'], False)], tm['__size'])
    attr = klayout.encode([(0, 2, 4 + tm['__size'], False), (2, 2, K['XFRMA_TMPL'], False)], 4) + tmpl
    total = T['nlmsghdr']['__size'] + len(body) + len(attr)
    hdr = klayout.encode([(0, 4, total, False), (4, 2, K['XFRM_MSG_ACQUIRE'], False)], T['nlmsghdr']['__size'])
    return core.SymBytes(hdr + body + attr).lower()


def ts_contains(ts, proto, port, addr_int):
    from symx import core
    return core.sym_and(core.sym_or(ts.ip_proto == 0, ts.ip_proto == proto), ts.start_port <= port, port <= ts.end_port,
                        int(ts.start_addr) <= addr_int, addr_int <= int(ts.end_addr))


def h_acquire(pre, mode, v6=False):
    """pre: 'fresh' (no IKE_SA: IKE_SA_INIT + IKE_AUTH) | 'established' (an IKE_SA with that peer exists: CREATE_CHILD_SA)"""
    from symx import core
    eng = core.engine()
    m, ik, ic, cfm, x = MODS['message'], MODS['ikesa'], MODS['ikesacontroller'], MODS['configuration'], MODS['xfrm']
    S = ik.IkeSa.State
    # concrete configuration through the real loader: two connections (two peers), two protect entries for the first
    cd = world.conf_dict(mode='transport' if mode == 0 else 'tunnel')
    cd['bob']['protect'] = [dict(cd['bob']['protect'][0], index=7, my_subnet='10.2.0.0/16', peer_subnet='10.1.0.0/16', ip_proto='any', lifetime=111),
                            dict(cd['bob']['protect'][0], index=9, my_subnet='10.4.0.0/16', peer_subnet='10.3.0.0/16', ip_proto='udp', lifetime=222,
                                 mode='tunnel' if mode == 0 else 'transport')]
    sel_src, sel_dst = ip_address('10.2.0.77'), ip_address('10.1.0.88')
    if v6:
        # IPv6 networks protected by a tunnel between IPv4 gateways: the family of the flow selector is not the family of the tunnel endpoints
        cd['bob']['protect'][0].update(my_subnet='fd00:2::/32', peer_subnet='fd00:1::/32')
        sel_src, sel_dst = ip_address('fd00:2::77'), ip_address('fd00:1::88')
    cd['carol'] = dict(cd['bob'], peer_addr='192.168.0.3', protect=[dict(cd['bob']['protect'][0], index=12, lifetime=333)])
    world.ENV.reset()
    conf = cfm.Configuration([world.IP1, world.IP2], cd)
    E = world.Endpoint('B', None)
    c14.with_socket()
    with E:
        ctl = ic.IkeSaController(my_addrs=[world.IP2], configuration=conf)
    E.obj = ctl
    peer = world.IP1
    a = None
    if pre == 'half_open_responder':
        # the peer started an initial exchange with us and never came back after our IKE_SA_INIT response (it crashed - or the request was not its
        # own: the source address of a UDP datagram proves nothing): a responder IKE_SA waits for an IKE_AUTH request that never arrives
        a = ik.IkeSa(is_initiator=True, peer_spi=b'\0' * 8, configuration=conf.get_ike_configuration(world.IP1, world.IP2), my_addr=world.IP1, peer_addr=world.IP2)
        A = world.Endpoint('A', a)
        TS = m.TrafficSelector
        d = A.call(a.process_acquire, TS.from_network(ip_network('10.1.0.5/32'), 0, TS.IpProtocol.ANY), TS.from_network(ip_network('10.2.0.5/32'), 0, TS.IpProtocol.ANY), 1)
        with E:
            d = ctl.dispatch_message(d, world.IP2, world.IP1)
        if d is None or len(ctl.ike_sas) != 1 or ctl.ike_sas[0].state != S.INIT_RES_SENT:
            return ['n/a', 'no half-open responder IKE_SA']
    if pre in ('established', 'rekeyed_old') or pre.startswith('busy_'):
        # the peer (alice) establishes an IKE_SA with the controller first
        a = ik.IkeSa(is_initiator=True, peer_spi=b'\0' * 8, configuration=conf.get_ike_configuration(world.IP1, world.IP2), my_addr=world.IP1, peer_addr=world.IP2)
        A = world.Endpoint('A', a)
        TS = m.TrafficSelector
        d = A.call(a.process_acquire, TS.from_network(ip_network('10.1.0.5/32'), 0, TS.IpProtocol.ANY), TS.from_network(ip_network('10.2.0.5/32'), 0, TS.IpProtocol.ANY), 1)
        to_ctl = True
        for _ in range(8):
            if d is None:
                break
            if to_ctl:
                with E:
                    d = ctl.dispatch_message(d, world.IP2, world.IP1)
            else:
                d = A.call(a.process_message, d)
            to_ctl = not to_ctl
        if not ctl.ike_sas or ctl.ike_sas[0].state != S.ESTABLISHED:
            return ['n/a', 'peer could not establish']
    if pre == 'rekeyed_old':
        # the peer has rekeyed the IKE_SA; its DELETE for the old one is still on its way: old (REKEYED) and successor are both in the table
        world.ENV.now = a.rekey_ike_sa_at + 10
        rk = A.call(a.check_rekey_ike_sa_timer)
        with E:
            rr = ctl.dispatch_message(rk, world.IP2, world.IP1)
        A.call(a.process_message, rr)
        if len(ctl.ike_sas) != 2 or ctl.ike_sas[0].state != S.REKEYED or ctl.ike_sas[1].state != S.ESTABLISHED:
            return ['n/a', 'rekey did not leave old + successor']
    first = None
    if pre.startswith('busy_'):
        # the established IKE_SA with that peer has a request of its own outstanding (liveness probe, CHILD_SA rekey / delete)
        first = ctl.ike_sas[0]
        with E:
            if pre == 'busy_dpd':
                world.ENV.now = first.start_dpd_at + 3600
                r1 = first.check_dead_peer_detection_timer()
            else:
                d1 = acquire_datagram(eng, world.IP2, world.IP1, ip_address('10.2.0.1'), ip_address('10.1.0.1'), 1000, 2000, 6, 7 << 3 | 1)
                h1, m1, a1 = c14.MX.Xfrm.parse_message(d1)
                r1, _, _ = ctl.process_acquire(m1, a1)
        if r1 is None:
            return ['n/a', 'no request outstanding']
    if pre == 'in_flight':
        # a first ACQUIRE started the initial exchange with the first peer; its IKE_SA waits for the IKE_SA_INIT response
        d1 = acquire_datagram(eng, world.IP2, world.IP1, ip_address('10.2.0.1'), ip_address('10.1.0.1'), 1000, 2000, 6, 7 << 3 | 1)
        h1, m1, a1 = c14.MX.Xfrm.parse_message(d1)
        with E:
            r1, _, _ = ctl.process_acquire(m1, a1)
        if r1 is None or len(ctl.ike_sas) != 1:
            return ['n/a', 'first acquire did not start an exchange']
        first = ctl.ike_sas[0]
    index = eng.sym_int('policy_index', 0, 0xFFFFFFFF)
    sport, dport = eng.sym_int('sport', 0, 65535), eng.sym_int('dport', 0, 65535)
    proto = eng.sym_int('proto', 0, 255)
    which_peer = c14_choice(eng, 'peer', [world.IP1, ip_address('192.168.0.3')])
    data = acquire_datagram(eng, world.IP2, which_peer, sel_src, sel_dst, sport, dport, proto, index, version=6 if v6 else 4)
    header, msg, attributes = c14.MX.Xfrm.parse_message(data)
    n_before = len(ctl.ike_sas)
    try:
        with E:
            req, my_addr, peer_addr = ctl.process_acquire(msg, attributes)
    except Exception as ex:     # noqa - raised by the code under test (the main loop would log it and drop the ACQUIRE)
        return {'class': ['acquire'], 'violation': f'process_acquire raised {type(ex).__name__}: {ex}'}
    P = eng.prove
    entries = {7: conf.get_ike_configuration(world.IP2, world.IP1).protect[0], 9: conf.get_ike_configuration(world.IP2, world.IP1).protect[1]} \
        if which_peer == world.IP1 else {12: conf.get_ike_configuration(world.IP2, ip_address('192.168.0.3')).protect[0]}
    known = core.sym_or(*[(index >> 3) == k for k in entries])
    if first is not None and which_peer == world.IP1 and pre.startswith('busy_'):
        state0 = {'busy_dpd': S.DPD_REQ_SENT, 'busy_new_child': S.NEW_CHILD_REQ_SENT}[pre]
        if len(ctl.ike_sas) != n_before or not any(e is first for e in ctl.ike_sas):
            return {'class': ['acquire'], 'violation': f'an ACQUIRE arriving while the IKE_SA with that peer waits for a response ({state0.name}) opened another IKE_SA '
                                                       f'instead of re-using it'}
        if req is not None:
            return {'class': ['acquire'], 'violation': f'a second request was emitted while a request is outstanding ({state0.name})'}
        if first.state != state0:
            return {'class': ['acquire'], 'violation': f'the ACQUIRE changed the state of the busy IKE_SA to {first.state.name}'}
        P(core.sym_or(core.sym_not(known), len(first.pending_events) == 1), 'an ACQUIRE for a known policy was not queued on the busy IKE_SA with that peer')
        return ['acquire', 'queued']
    if first is not None and which_peer == world.IP1:
        # the IKE_SA with that peer is busy: the ACQUIRE is queued on it, nothing is sent, the IKE_SA is kept and reused
        if req is not None:
            return {'class': ['acquire'], 'violation': 'a second request was emitted while the initial exchange is outstanding'}
        if not any(e is first for e in ctl.ike_sas) or len([e for e in ctl.ike_sas if e.peer_addr == world.IP1]) != 1:
            return {'class': ['acquire'], 'violation': 'an ACQUIRE arriving during the initial exchange made the controller drop / duplicate the IKE_SA with that peer'}
        if first.state != S.INIT_REQ_SENT or len(first.pending_events) != 1:
            return {'class': ['acquire'], 'violation': 'the ACQUIRE was neither negotiated nor queued on the IKE_SA with that peer'}
        return ['acquire', 'queued']
    if req is None:
        P(core.sym_not(known), 'an ACQUIRE carrying the index of an installed outbound policy was ignored')
        # ignored means ignored: no IKE_SA appears in the table (and in the status report, and in the half-open count) for it
        if len(ctl.ike_sas) != n_before:
            return {'class': ['acquire'], 'violation': f'an ACQUIRE for an unknown policy index left {len(ctl.ike_sas) - n_before} new IKE_SA(s) in the table '
                                                       f'(state {ctl.ike_sas[-1].state.name})'}
        return ['acquire', 'ignored']
    P(known, 'an ACQUIRE for an unknown policy index started a negotiation')
    if peer_addr != which_peer or my_addr != world.IP2:
        return {'class': ['acquire'], 'violation': 'the negotiation is not started with the peer of the ACQUIRE'}
    sa = [e for e in ctl.ike_sas if e.peer_addr == which_peer]
    if pre in ('half_open_responder', 'rekeyed_old') and which_peer == world.IP1:
        # beside the IKE_SA that cannot take the ACQUIRE (it waits for a peer that may never come back / it has been replaced) there is exactly one
        # that negotiates it: a new initiator IKE_SA resp. the successor
        sa = [e for e in sa if e.state not in (S.INIT_RES_SENT, S.REKEYED)]
        if len(ctl.ike_sas) != (n_before + 1 if pre == 'half_open_responder' else n_before):
            return {'class': ['acquire'], 'violation': f'{len(ctl.ike_sas)} IKE_SAs in the table after the ACQUIRE ({pre})'}
    if len(sa) != 1:
        return {'class': ['acquire'], 'violation': f'{len(sa)} IKE_SAs with that peer after the ACQUIRE (an existing one must be reused)'}
    sa = sa[0]
    if pre == 'established' and which_peer == world.IP1 and len(ctl.ike_sas) != n_before:
        return {'class': ['acquire'], 'violation': 'a new IKE_SA was created although one with that peer exists'}
    ch = sa.creating_child_sa
    # which entry the real code picked is visible in the CHILD_SA being created; it must be the one whose index the ACQUIRE carries
    picked = [k for k, e in entries.items() if e.proposal is ch.original_proposal]
    if len(picked) != 1:
        return {'class': ['acquire'], 'violation': 'the CHILD_SA being created does not come from a protect entry of the connection of that peer'}
    P((index >> 3) == picked[0], 'the ACQUIRE was mapped to another protect entry than the one whose outbound policy carries its index')
    entry = entries[picked[0]]
    if ch.mode != entry.mode or ch.lifetime != entry.lifetime:
        return {'class': ['acquire'], 'violation': 'mode / lifetime of the CHILD_SA being created are not those of the protect entry'}
    want_tr = [(int(t.type), int(t.id), t.keylen) for t in entry.proposal.transforms]
    got_tr = [(int(t.type), int(t.id), t.keylen) for t in ch.proposal.transforms]
    if got_tr != want_tr:
        return {'class': ['acquire'], 'violation': f'proposal of the CHILD_SA being created {got_tr} is not the entry\'s {want_tr}'}
    tsis, tsrs = list(ch.tsi), list(ch.tsr)
    a_s, a_d = int(sel_src), int(sel_dst)
    if v6 and picked[0] != 9 and any(int(t.ts_type) != 8 for t in tsis + tsrs):
        return {'class': ['acquire'], 'violation': 'an ACQUIRE for an IPv6 flow (IPv6 networks behind IPv4 tunnel endpoints) is negotiated with selectors that are not IPv6 ranges'}
    # some offered selector pair covers the packet of the ACQUIRE ...
    P(core.sym_or(*[ts_contains(t, proto, sport, a_s) for t in tsis]), 'no offered TSi covers the packet of the ACQUIRE')
    P(core.sym_or(*[ts_contains(t, proto, dport, a_d) for t in tsrs]), 'no offered TSr covers the packet of the ACQUIRE')
    # ... and the entry's own selectors are offered
    if entry.my_ts not in tsis or entry.peer_ts not in tsrs:
        return {'class': ['acquire'], 'violation': 'the selectors of the protect entry are not offered'}
    return ['acquire', 'negotiating', sa.state.name]


def h_acquire_two_locals(pre):
    """two connections to the SAME peer from two local addresses (the configuration is keyed by the address pair): an ACQUIRE whose source is the second
    local address, with an arbitrary policy index, while the first connection has no IKE_SA / one waiting for IKE_SA_INIT / an established one: the
    index of the second connection's entry is negotiated from the second local address, by an IKE_SA of that address pair; any other index is ignored"""
    from symx import core
    eng = core.engine()
    m, ik, ic, cfm, x = MODS['message'], MODS['ikesa'], MODS['ikesacontroller'], MODS['configuration'], MODS['xfrm']
    S = ik.IkeSa.State
    alt = ip_address('192.168.0.4')
    cd = world.conf_dict()
    cd['bob']['protect'] = [dict(cd['bob']['protect'][0], index=7, lifetime=111)]
    cd['bob_alt'] = dict(cd['bob'], my_addr=str(alt), protect=[dict(cd['bob']['protect'][0], index=13, lifetime=222)])
    cd['alice_alt'] = dict(cd['alice'], peer_addr=str(alt), protect=[dict(cd['alice']['protect'][0], index=14)])
    world.ENV.reset()
    conf = cfm.Configuration([world.IP1, world.IP2, alt], cd)
    E = world.Endpoint('B', None)
    c14.with_socket()
    with E:
        ctl = ic.IkeSaController(my_addrs=[world.IP2, alt], configuration=conf)
    E.obj = ctl
    if pre != 'fresh':
        d1 = acquire_datagram(eng, world.IP2, world.IP1, world.IP2, world.IP1, 23, 2000, 6, 7 << 3 | 1)
        h1, m1, a1 = c14.MX.Xfrm.parse_message(d1)
        with E:
            r1, _, _ = ctl.process_acquire(m1, a1)
        if r1 is None:
            return ['n/a', 'first connection did not start']
        if pre == 'first_established':
            a = ik.IkeSa(is_initiator=False, peer_spi=ctl.ike_sas[0].my_spi, configuration=conf.get_ike_configuration(world.IP1, world.IP2), my_addr=world.IP1, peer_addr=world.IP2)
            A = world.Endpoint('A', a)
            d, to_a = r1, True
            for _ in range(8):
                if d is None:
                    break
                if to_a:
                    d = A.call(a.process_message, d)
                else:
                    with E:
                        d = ctl.dispatch_message(d, world.IP2, world.IP1)
                to_a = not to_a
            if ctl.ike_sas[0].state != S.ESTABLISHED:
                return ['n/a', 'first connection did not establish']
    n_before = len(ctl.ike_sas)
    index = eng.sym_int('policy_index', 0, 0xFFFFFFFF)
    sport, dport = eng.sym_int('sport', 0, 65535), eng.sym_int('dport', 0, 65535)
    data = acquire_datagram(eng, alt, world.IP1, alt, world.IP1, sport, dport, 6, index)
    header, msg, attributes = c14.MX.Xfrm.parse_message(data)
    try:
        with E:
            req, my_addr, peer_addr = ctl.process_acquire(msg, attributes)
    except Exception as ex:     # noqa - raised by the code under test (the main loop would log it and drop the ACQUIRE)
        return {'class': ['acquire'], 'violation': f'process_acquire raised {type(ex).__name__}: {ex}'}
    P = eng.prove
    known = (index >> 3) == 13
    if req is None:
        P(core.sym_not(known), f'{pre}: the ACQUIRE of the second connection to the same peer (its own policy index, its own local address) was not negotiated')
        if len(ctl.ike_sas) != n_before:
            return {'class': ['two_locals'], 'violation': 'an ignored ACQUIRE changed the table'}
        return ['two_locals', 'ignored']
    P(known, f'{pre}: an ACQUIRE for an index that is not an entry of the connection (second local address -> peer) started a negotiation')
    if my_addr != alt or peer_addr != world.IP1:
        return {'class': ['two_locals'], 'violation': f'{pre}: the negotiation leaves from {my_addr} instead of the local address of the connection ({alt})'}
    used = [e for e in ctl.ike_sas if e.my_addr == alt and e.peer_addr == world.IP1]
    if len(used) != 1 or len(ctl.ike_sas) != n_before + 1:
        return {'class': ['two_locals'], 'violation': f'{pre}: {len(used)} IKE_SA(s) for the second address pair, {len(ctl.ike_sas)} in the table'}
    if used[0].creating_child_sa.lifetime != 222:
        return {'class': ['two_locals'], 'violation': 'the CHILD_SA being created is not the entry of the second connection'}
    return ['two_locals', 'negotiating']


def c14_choice(eng, name, options):
    c = eng.sym_int(name, 0, len(options) - 1)
    j = eng.concretize(c, 0, len(options) - 1) if not isinstance(c, int) else c
    return options[j]


def h_random_index(n_conns, n_entries):
    """protect entries WITHOUT an explicit index: the loader draws one fresh random index per entry (each draw an arbitrary value of the requested
    range, pairwise different), so no two entries share an index and an ACQUIRE decodes to exactly one entry"""
    from symx import core
    eng = core.engine()
    cfm = MODS['configuration']
    draws = []

    def randint(a, b):
        v = eng.sym_int(f'draw{len(draws)}', a, b)
        for _, w in draws:
            eng.assume(v != w)
        draws.append(((a, b), v))
        return v
    real_random = cfm.random
    cfm.random = types.SimpleNamespace(randint=randint)
    import builtins
    cfm.int = lambda x=0, *a: x if isinstance(x, core.SymInt) else builtins.int(x, *a)
    try:
        d = {}
        for c in range(n_conns):
            d[f'conn{c}'] = {'my_addr': str(world.IP2), 'peer_addr': f'192.168.0.{1 + c * 10}', 'my_auth': {'id': 'me', 'psk': 'k'}, 'peer_auth': {'id': f'p{c}', 'psk': 'k'},
                             'protect': [{'ip_proto': 'tcp', 'peer_port': 1000 + 10 * c + e} for e in range(n_entries)]}
        conf = cfm.Configuration([world.IP2], d)
    finally:
        cfm.random = real_random
        del cfm.int
    entries = [e for ic in conf.ike_configurations.values() for e in ic.protect]
    if len(entries) != n_conns * n_entries:
        return {'class': ['random_index'], 'violation': f'{len(entries)} protect entries loaded, {n_conns * n_entries} configured'}
    for i, a in enumerate(entries):
        for b in entries[i + 1:]:
            eng.prove(a.index != b.index, 'two protect entries without an explicit index got the SAME index although the random draws differ '
                                          '(the outbound policy index no longer identifies one entry)')
    for (a, b), _ in draws:
        if a < 0 or b > (1 << 29) - 1:
            return {'class': ['random_index'], 'violation': f'random index drawn from [{a}, {b}], which does not fit the 29 bits left by index << 3'}
    return ['random_index', len(draws)]


SHAPES = {
    'one': [[(4, 0, 1, 'esp')]],
    'two_entries': [[(4, 0, 1, 'esp'), (4, 1, 0, 'ah')]],
    'two_conns': [[(4, 2, 1, 'esp')], [(4, 1, 0, 'esp'), (6, 0, 1, 'esp')]],
    'v6_everything': [[(6, 1, 1, 'esp'), (6, 2, 1, 'esp'), (6, 3, 0, 'ah')]],
}


def build_instances(tier):
    inst = []
    nat = common.native_of
    for sh, conns in SHAPES.items():
        n = sum(len(c) for c in conns)
        for k in range(n):
            inst.append(Instance(f'install {sh} symbolic entry {k}', h_install, (sh, k), native=nat(h_install)))
    for nc, ne in ((1, 2), (2, 1), (2, 2)):
        inst.append(Instance(f'random indices conns={nc} entries={ne}', h_random_index, (nc, ne), native=nat(h_random_index)))
    for pre in ('busy_dpd', 'busy_new_child'):
        inst.append(Instance(f'acquire {pre}', h_acquire, (pre, 1), native=nat(h_acquire), must_reach=[('queued', lambda o: o == ['acquire', 'queued'])]))
    for pre in ('fresh', 'first_in_flight', 'first_established'):
        inst.append(Instance(f'acquire for a second connection to the same peer from another local address, {pre}', h_acquire_two_locals, (pre,), native=nat(h_acquire_two_locals),
                             must_reach=[('negotiating', lambda o: o == ['two_locals', 'negotiating']), ('ignored', lambda o: o == ['two_locals', 'ignored'])]))
    inst.append(Instance('acquire fresh, IPv6 networks behind IPv4 tunnel endpoints', h_acquire, ('fresh', 1, True), native=nat(h_acquire),
                         must_reach=[('negotiating', lambda o: o[:2] == ['acquire', 'negotiating'])]))
    for pre in ('fresh', 'established', 'in_flight', 'half_open_responder', 'rekeyed_old'):
        for mode in (0, 1):
            inst.append(Instance(f'acquire {pre} mode={mode}', h_acquire, (pre, mode), native=nat(h_acquire),
                                 must_reach=[('negotiating', lambda o: o[:2] == ['acquire', 'negotiating']), ('ignored', lambda o: o == ['acquire', 'ignored'])] + ([('queued', lambda o: o == ['acquire', 'queued'])] if pre == 'in_flight' else [])))
    return inst


def _load(shim):
    global MODS
    MODS = world.load(shim=shim)
    c14.MODS = MODS
    if shim:
        from symx import ctmodel
        c14.MNL, c14.MX = ctmodel.load_against_model(common.REPO)
        n1, bad1 = ctmodel.validate_layouts(c14.MX, MODS['xfrm'])
        if bad1 or n1 < 10:
            print('INCONCLUSIVE: ctypes model layout differs from the real ctypes classes:', bad1[:5])
            raise SystemExit(2)
        quiet = types.SimpleNamespace(warning=lambda *a, **k: None, info=lambda *a, **k: None, error=lambda *a, **k: None, debug=lambda *a, **k: None)
        c14.MX.logging = c14.MNL.logging = quiet
        c14.MX.random = MODS['xfrm'].random
    else:
        # native replay: the real xfrm module, un-ghosted (the kernel ghost of world.load replaced its request builders)
        import importlib
        import sys
        sys.modules.pop('xfrm', None)
        real = importlib.import_module('xfrm')
        c14.MX, c14.MNL = real, MODS['netlink']
    # the controller and the IKE_SAs talk to this xfrm module
    MODS['ikesacontroller'].xfrm = c14.MX
    return MODS


def replay_file(path):
    return common.generic_replay_file(path, lambda: build_instances('thorough') + build_instances('quick'), lambda: _load(False))


def main(tier, seed):
    _load(True)
    ic, x, ik = MODS['ikesacontroller'].IkeSaController, MODS['xfrm'].Xfrm, MODS['ikesa'].IkeSa
    chk = Check('C15', tier, seed,
                functions=common.src_hash(ic.__init__, ic.close, ic.process_acquire, x.create_policies, x.create_policy, x.flush_policies, x.flush_sas,
                                          ik.process_acquire, MODS['netlink'].NetlinkProtocol.parse_message),
                bounds={'install': '3 configuration shapes (1 entry; 2 entries ESP tunnel + AH transport; 2 connections with IPv4 and IPv6 networks), networks from a '
                                   'list of 4 pairs; per entry both ports (16 bit), the IP protocol (8 bit) and the index (0..2^29-1) symbolic',
                        'acquire': 'kernel-encoded ACQUIRE with policy index (32 bit), both ports and the protocol symbolic, peer = either configured peer; daemon fresh or '
                                   'holding an established IKE_SA with the first peer; both modes; configuration with 2 connections / 3 entries loaded by the real loader',
                        'outside': 'indices >= 2^29 (index << 3 does not fit the 32-bit kernel field: the loader accepts them, reported here as outside); a restart in the '
                                   'middle of a running scenario is covered by the fact that the constructor reads no kernel state; symbolic network addresses',
                        },
                assumptions=['kernel semantics of the policy index: low 3 bits = direction', 'the ctypes model (validated per run) and the kernel layout table of C14'],
                stubs=['ctypes model', 'netlink socket recorder', 'kernel ghost for the IKE_SA level', 'clock/randomness'])
    chk.run(build_instances(tier))
    return chk.finish(replay=lambda v: common.native_replay_subprocess('C15', v))
