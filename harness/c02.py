"""C02 - no IKE_SA is established without a valid AUTH over the real exchange.
PRF/HMAC is an uninterpreted function, here WITH the collision-freeness axiom (equal results => equal arguments), RSA signing
a deterministic uninterpreted function of (key, message).
(a) verifier, one step (both roles): the peer's IKE_AUTH message is delivered with ARBITRARY identity type/data, AUTH method
    byte and AUTH data.  The IKE_SA becomes ESTABLISHED / installs a CHILD_SA only if type and data equal the configured peer
    identity, the method has a configured credential, and the AUTH data equals the RFC 7296 2.15 term built by this harness
    from the endpoint's OWN stored IKE_SA_INIT bytes, the OTHER side's nonce, prf(SK_p, ID payload body) and the configured
    secret - a term equality decided by z3.  Configurations: PSK only, RSA public key only, both.
(b) signer (both roles, fully symbolic two-endpoint run): the AUTH payload each side emits equals the same RFC term over the
    IKE_SA_INIT message it sent itself.  By collision-freeness (a)+(b) give: both established => both hold the same
    IKE_SA_INIT messages, nonces and identities.
(c) credentials/identities of the two configurations arbitrary (symbolic PSKs, identity bytes): both sides ESTABLISHED only if
    each side's own credential/identity equals what the other side has configured for it."""
import hashlib
import json

from . import common, world, c04, c11, symcrypto
from .common import Instance, Check

MODS = None
PIN = ()


def prf(key, data):
    from symx import shims
    return shims.SymHMAC(key, data, digestmod=hashlib.sha256).digest()


def spec_auth(secret_psk, message_data, nonce, id_payload_body, sk_p):
    """RFC 7296 2.15: AUTH = prf(prf(secret, "Key Pad for IKEv2"), <SignedOctets>), SignedOctets = RealMessage | Nonce | prf(SK_p, IDbody)"""
    from symx import core
    octets = core.SymBytes.lift(message_data) + nonce + prf(sk_p, id_payload_body)
    return prf(prf(secret_psk, b'Key Pad for IKEv2'), octets.lower() if isinstance(octets, core.SymBytes) else octets), octets


class ModelRsa:
    """deterministic signature = uninterpreted function of (key id, message); verify = equality with it"""

    def __init__(self, keyid, uf):
        self.keyid, self.uf = keyid, uf

    def sign(self, data):
        return self.uf(128, self.keyid, data)

    def verify(self, signature, data):
        from symx import core
        s = core.SymBytes.lift(signature)
        if len(s) != 128:
            return False
        r = (s == self.uf(128, self.keyid, data))
        return bool(r)


def set_auth(ike_sa, which, **kw):
    conf = ike_sa.configuration
    ike_sa.configuration = conf._replace(**{which: getattr(conf, which)._replace(**kw)})


def h_verify(role, conf_kind, auth_len=None, shape='plain', id_len=None):
    """role 'responder': B in INIT_RES_SENT gets IKE_AUTH request; 'initiator': A in AUTH_REQ_SENT gets the IKE_AUTH response"""
    from symx import core, shims
    eng = core.engine()
    shims.HMAC_UF.injective = True
    m, ik = MODS['message'], MODS['ikesa']
    S = ik.IkeSa.State
    p = world.Pair()
    m1 = p.init_req()
    m2 = p.send('B', m1)
    m3 = p.send('A', m2)
    rsa_uf = shims.UF('rsa_sign', injective=True)
    if role == 'responder':
        me, E, peer = p.b, p.B, p.a
        genuine = m.Message.parse(bytes(m3), crypto=me.peer_crypto)
        own_init_sent_by_peer, nonce_mine = me.ike_sa_init_req_data, m.Message.parse(bytes(me.ike_sa_init_res_data)).get_payload(m.Payload.Type.NONCE).nonce
        id_cls, exch_resp = m.PayloadIDi, False
    else:
        m4 = p.send('B', m3)
        me, E, peer = p.a, p.A, p.b
        genuine = m.Message.parse(bytes(m4), crypto=me.peer_crypto)
        own_init_sent_by_peer, nonce_mine = me.ike_sa_init_res_data, m.Message.parse(bytes(me.ike_sa_init_req_data)).get_payload(m.Payload.Type.NONCE).nonce
        id_cls, exch_resp = m.PayloadIDr, True
    # credentials this endpoint has configured for its peer
    psk = me.configuration.peer_auth.psk
    pub = None
    if conf_kind in ('rsa_only', 'both'):
        pub = ModelRsa(b'peer-key', rsa_uf)
        set_auth(me, 'peer_auth', pubkey=pub, psk=None if conf_kind == 'rsa_only' else psk)
    conf_id = me.configuration.peer_auth.id
    if id_len is not None and not isinstance(eng, core.ReplayEngine):
        # the configured identity as (concrete) engine bytes: operators that take the presented identity as their LEFT operand (`in`) are modelled too
        set_auth(me, 'peer_auth', id=m.PayloadID(conf_id.id_type, core.SymBytes(list(conf_id.id_data))))
    id_type = eng.sym_int('id_type', 0, 255)
    id_data = eng.sym_bytes('id_data', len(conf_id.id_data) if id_len is None else id_len)
    method = eng.sym_int('method', 0, 255)
    if auth_len is None:
        auth_len = 128 if conf_kind == 'rsa_only' else 32
    auth_data = eng.sym_bytes('auth_data', auth_len)
    idp = id_cls(1, id_data)
    idp.id_type = core.SymEnumVal(id_type.t) if not isinstance(id_type, int) else m.PayloadID.Type(id_type)
    authp = m.PayloadAUTH(1, auth_data)
    authp.method = core.SymEnumVal(method.t) if not isinstance(method, int) else m.PayloadAUTH.Method(method)
    enc = []
    skind, _, ntype = shape.partition(':')
    for x in genuine.encrypted_payloads:
        if x.type in (m.Payload.Type.IDi, m.Payload.Type.IDr):
            if skind != 'bare':
                enc.append(idp)
        elif x.type == m.Payload.Type.AUTH:
            if skind != 'bare':
                enc.append(authp)
        elif skind in ('refused', 'bare') and x.type in (m.Payload.Type.SA, m.Payload.Type.TSi, m.Payload.Type.TSr):
            continue
        else:
            enc.append(x)
    if ntype:
        # the peer also sends a notification: a refusal of the CHILD_SA, a status or an error type
        enc.insert(0, m.PayloadNOTIFY(m.Proposal.Protocol.NONE, m.PayloadNOTIFY.Type[ntype], b'', b''))
    msg = m.Message(spi_i=me.spi_i, spi_r=me.spi_r, major=2, minor=0, exchange_type=35, is_response=exch_resp, can_use_higher_version=False,
                    is_initiator=not me.is_initiator, message_id=1, payloads=[], encrypted_payloads=enc)
    msg.is_protected = True
    klog0 = len(E.kernel.log)
    ret = c11.deliver_object(me, E, msg)
    installed = any(x['op'] == 'NEWSA' for x in E.kernel.log[klog0:])
    accepted = me.state == S.ESTABLISHED or installed or (role == 'initiator' and me.state == S.DEL_CHILD_REQ_SENT)
    P = eng.prove
    if accepted and skind == 'bare':
        return {'class': ['verify'], 'violation': f'{role} accepted an IKE_AUTH message that carries neither an identity nor an AUTH payload (only N({ntype}))'}
    if not accepted:
        if skind != 'plain':
            return ['verify', role, conf_kind, 'refused']
        # completeness on the PSK path: the genuine values must be accepted
        want, _ = spec_auth(psk, own_init_sent_by_peer, nonce_mine, idp.to_bytes(), me.peer_crypto.sk_p) if psk is not None else (None, None)
        if conf_kind != 'rsa_only' and want is not None:
            P(core.sym_not(core.sym_and(id_type == int(conf_id.id_type), id_data == conf_id.id_data, method == 2, auth_data == want)),
              'a peer presenting the configured identity and the correct PSK AUTH value was refused')
        return ['verify', role, conf_kind, 'refused']
    P(id_type == int(conf_id.id_type), 'established although the presented identity TYPE differs from the configured peer identity')
    P(id_data == conf_id.id_data, 'established although the presented identity DATA differs from the configured peer identity')
    body = idp.to_bytes()
    ok_psk, ok_rsa = False, False
    if me.configuration.peer_auth.psk is not None:
        want, octets = spec_auth(me.configuration.peer_auth.psk, own_init_sent_by_peer, nonce_mine, body, me.peer_crypto.sk_p)
        ok_psk = core.sym_and(method == 2, auth_data == want) if len(want) == auth_len else False
    if pub is not None:
        _, octets = spec_auth(b'', own_init_sent_by_peer, nonce_mine, body, me.peer_crypto.sk_p)
        want_sig = rsa_uf(128, b'peer-key', octets)
        ok_rsa = core.sym_and(method == 1, auth_data == want_sig) if auth_len == 128 else False
    P(core.sym_or(ok_psk, ok_rsa),
      'established although the AUTH data is not the RFC 7296 2.15 value over this endpoint\'s own IKE_SA_INIT bytes, the other nonce, '
      'prf(SK_p, ID) under a configured credential of the matching method')
    return ['verify', role, conf_kind, 'accepted']


def h_sign(auth_kind):
    """fully symbolic two-endpoint handshake; the AUTH payloads on the wire equal the RFC term over the sender's own bytes"""
    from symx import core, shims
    eng = core.engine()
    shims.HMAC_UF.injective = False
    m, ik = MODS['message'], MODS['ikesa']
    p = world.Pair(env_setup=symcrypto.reset)
    p.A.kernel, p.B.kernel = symcrypto.RecKernel(), symcrypto.RecKernel()
    psk_a, psk_b = eng.sym_bytes('psk_a', 8), eng.sym_bytes('psk_b', 8)
    rsa_uf = shims.UF('rsa_sign')
    if auth_kind == 'psk':
        set_auth(p.a, 'my_auth', psk=psk_a); set_auth(p.b, 'peer_auth', psk=psk_a)
        set_auth(p.b, 'my_auth', psk=psk_b); set_auth(p.a, 'peer_auth', psk=psk_b)
    else:
        set_auth(p.a, 'my_auth', privkey=ModelRsa(b'key-a', rsa_uf)); set_auth(p.b, 'peer_auth', pubkey=ModelRsa(b'key-a', rsa_uf))
        set_auth(p.b, 'my_auth', privkey=ModelRsa(b'key-b', rsa_uf)); set_auth(p.a, 'peer_auth', pubkey=ModelRsa(b'key-b', rsa_uf))
    m1 = p.init_req()
    m2 = p.send('B', m1)
    m3 = p.send('A', m2)
    a, b = p.a, p.b
    sk_pi, sk_pr = a.my_crypto.sk_p, a.peer_crypto.sk_p
    m4 = p.send('B', m3)
    r = p.send('A', m4)
    S = ik.IkeSa.State
    if a.state != S.ESTABLISHED or b.state != S.ESTABLISHED:
        return {'class': ['sign'], 'violation': f'genuine handshake did not establish ({a.state.name}/{b.state.name})'}
    P = eng.prove
    req = m.Message.parse(m3, crypto=b.peer_crypto)
    res = m.Message.parse(m4, crypto=a.peer_crypto)
    ni = m.Message.parse(m1).get_payload(m.Payload.Type.NONCE).nonce
    nr = m.Message.parse(m2).get_payload(m.Payload.Type.NONCE).nonce
    for msg, sent, other_nonce, idt, sk_p, psk, keyid, who in ((req, m1, nr, m.Payload.Type.IDi, sk_pi, psk_a, b'key-a', 'initiator'),
                                                             (res, m2, ni, m.Payload.Type.IDr, sk_pr, psk_b, b'key-b', 'responder')):
        idp = msg.get_payload(idt, True)
        au = msg.get_payload(m.Payload.Type.AUTH, True)
        want, octets = spec_auth(psk, sent, other_nonce, idp.to_bytes(), sk_p)
        if auth_kind == 'psk':
            if int(au.method) != 2:
                return {'class': ['sign'], 'violation': f'{who} used AUTH method {au.method} with a PSK'}
            P(core.SymBytes.lift(au.auth_data) == want, f'the AUTH payload emitted by the {who} is not the RFC 7296 2.15 value over the IKE_SA_INIT '
              f'message it sent, the peer\'s nonce and prf(SK_p, its ID payload)')
        else:
            if int(au.method) != 1:
                return {'class': ['sign'], 'violation': f'{who} used AUTH method {au.method} with an RSA key'}
            P(core.SymBytes.lift(au.auth_data) == rsa_uf(128, keyid, octets), f'the RSA AUTH payload emitted by the {who} does not sign the RFC 7296 2.15 octets')
    return ['sign', auth_kind]


def h_mismatch():
    """arbitrary PSKs and identities on both sides: both established => credentials and identities match pairwise"""
    from symx import core, shims
    eng = core.engine()
    shims.HMAC_UF.injective = True
    m, ik = MODS['message'], MODS['ikesa']
    S = ik.IkeSa.State
    p = world.Pair(env_setup=symcrypto.reset)
    p.A.kernel, p.B.kernel = symcrypto.RecKernel(), symcrypto.RecKernel()
    v = {k: eng.sym_bytes(k, 4) for k in ('a_my_psk', 'b_peer_psk', 'b_my_psk', 'a_peer_psk', 'a_my_id', 'b_peer_id', 'b_my_id', 'a_peer_id')}
    mk_id = lambda data: m.PayloadID(m.PayloadID.Type.ID_RFC822_ADDR, data)
    set_auth(p.a, 'my_auth', psk=v['a_my_psk'], id=mk_id(v['a_my_id']))
    set_auth(p.a, 'peer_auth', psk=v['a_peer_psk'], id=mk_id(v['a_peer_id']))
    set_auth(p.b, 'my_auth', psk=v['b_my_psk'], id=mk_id(v['b_my_id']))
    set_auth(p.b, 'peer_auth', psk=v['b_peer_psk'], id=mk_id(v['b_peer_id']))
    m1 = p.init_req()
    m2 = p.send('B', m1)
    m3 = p.send('A', m2)
    m4 = p.send('B', m3)
    n_b = [x for x in p.B.kernel.log if x['op'] == 'NEWSA']
    P = eng.prove
    if p.b.state == S.ESTABLISHED or n_b:
        P(core.sym_and(v['a_my_psk'] == v['b_peer_psk'], v['a_my_id'] == v['b_peer_id']),
          'the responder established although the initiator\'s PSK / identity is not what the responder has configured for it')
    r = p.send('A', m4) if m4 is not None else None
    n_a = [x for x in p.A.kernel.log if x['op'] == 'NEWSA']
    if p.a.state == S.ESTABLISHED or n_a:
        P(core.sym_and(v['b_my_psk'] == v['a_peer_psk'], v['b_my_id'] == v['a_peer_id']),
          'the initiator established although the responder\'s PSK / identity is not what the initiator has configured for it')
    return ['mismatch', p.a.state.name, p.b.state.name]


def h_preauth(kind):
    """a peer that has only completed IKE_SA_INIT (it holds the SK_* keys of the unauthenticated DH exchange, nothing else) sends a PROTECTED request
    other than IKE_AUTH as its request number 1 - a well-formed CREATE_CHILD_SA, an INFORMATIONAL - with an arbitrary exchange type byte: the
    responder neither becomes established nor installs or tracks a CHILD_SA"""
    from symx import core
    eng = core.engine()
    m, ik = MODS['message'], MODS['ikesa']
    S = ik.IkeSa.State
    # donor: a genuine CREATE_CHILD_SA / DELETE request of an established pair (payloads only)
    donor = world.Pair()
    if kind == 'create_child':
        dreq = donor.to_state('A', 'NEW_CHILD_REQ_SENT')
    elif kind == 'rekey_ike':
        dreq = donor.to_state('A', 'REK_IKE_SA_REQ_SENT')
    else:
        dreq = donor.to_state('A', 'DEL_IKE_SA_REQ_SENT')
    payloads = m.Message.parse(bytes(dreq), crypto=donor.b.peer_crypto).encrypted_payloads
    donor_exch = 36 if kind != 'delete' else 37
    p = world.Pair()
    p.send('A', p.send('B', p.init_req()))          # B: INIT_RES_SENT; A holds the same keys
    a, b = p.a, p.b
    exch = eng.sym_int('exchange', 35, 37)
    req = m.Message(a.spi_i, a.spi_r, 2, 0, donor_exch, False, False, True, 1, [], payloads, crypto=a.my_crypto)
    data = world.restamp(req.to_bytes(), a.my_crypto, exchange=exch)
    n_log = len(p.B.kernel.log)
    try:
        p.B.call(b.process_message, data)
    except m.IkeSaError:
        pass
    new = [x for x in p.B.kernel.log[n_log:] if x['op'] == 'NEWSA']
    if b.state == S.ESTABLISHED or new or b.child_sas or b.new_ike_sa is not None:
        return {'class': ['preauth'], 'violation': f'before any AUTH was presented, a protected {kind} request left the responder in state '
                                                  f'{b.state.name} with {len(b.child_sas)} CHILD_SA(s), {len(new)} kernel SA(s) requested, successor IKE_SA: {b.new_ike_sa is not None}'}
    return ['preauth', b.state.name]


def _locate(m, data, what):
    """offset (and width) of a named field inside a serialised IKE_SA_INIT message"""
    msg = m.Message.parse(bytes(data))
    off = 28
    for pl in msg.payloads:
        body = pl.to_bytes()
        if what in ('keylen', 'transform_id', 'proposal_num', 'transform_reserved') and pl.type == m.Payload.Type.SA:
            # SA body: proposal header (8 bytes + SPI) then transforms: [last/more, 0, len(2), type, 0, id(2), attr...]
            spi_size = body[6]
            t0 = off + 4 + 8 + spi_size
            return {'keylen': (t0 + 10, 2), 'transform_id': (t0 + 6, 2), 'proposal_num': (off + 4 + 4, 1), 'transform_reserved': (t0 + 5, 1)}[what]
        if what == 'nonce' and pl.type == m.Payload.Type.NONCE:
            return off + 4, 1
        if what == 'nonce_last' and pl.type == m.Payload.Type.NONCE:
            return off + 4 + len(body) - 1, 1
        if what == 'ke_group' and pl.type == m.Payload.Type.KE:
            return off + 4, 2
        if what == 'ke_last' and pl.type == m.Payload.Type.KE:
            return off + 4 + len(body) - 1, 1
        if what == 'payload_reserved' and pl.type == m.Payload.Type.NONCE:
            return off + 1, 1
        off += 4 + len(body)
    raise KeyError(what)


def _rewrite(m, eng, data, how):
    """the man in the middle: -> the datagram it forwards instead of `data` (symbolic where `how` names a field)"""
    from symx import core
    data = bytes(data)
    if how == 'none':
        return data
    if how.startswith('flip:'):
        off, width = _locate(m, data, how[5:])
        return data[:off] + bytes([data[off] ^ 1]) + data[off + 1:]
    if how.startswith('field:'):
        off, width = _locate(m, data, how[6:])
        v = eng.sym_bytes(f'rewritten_{how[6:]}', width)
        if isinstance(v, (bytes, bytearray)):
            return data[:off] + bytes(v) + data[off + width:]
        return core.SymBytes(list(data[:off])) + v + data[off + width:]
    msg = m.Message.parse(data)
    sa = msg.get_payload(m.Payload.Type.SA)
    T = m.Transform
    if how == 'drop_first_encr':
        pr = sa.proposals[0]
        first = next(x for x in pr.transforms if x.type == T.Type.ENCR)
        pr.transforms = [x for x in pr.transforms if x is not first]
    elif how == 'reverse_transforms':
        sa.proposals[0].transforms = list(reversed(sa.proposals[0].transforms))
    elif how == 'weaker_proposal_first':
        pr = sa.proposals[0]
        weak = m.Proposal(1, pr.protocol_id, pr.spi, [x for x in pr.transforms if not (x.type == T.Type.ENCR and x.keylen == 256)])
        pr.num = 2
        sa.proposals = [weak, pr]
    elif how == 'append_notify':
        msg.payloads.append(m.PayloadNOTIFY(m.Proposal.Protocol.NONE, m.PayloadNOTIFY.Type.INITIAL_CONTACT, b'', b''))
    elif how == 'append_vendor':
        msg.payloads.append(m.PayloadVENDOR(b'not pyikev2') if hasattr(m, 'PayloadVENDOR') else m.PayloadNOTIFY(m.Proposal.Protocol.NONE, 16431, b'', b''))
    elif how == 'reorder_payloads':
        msg.payloads = list(reversed(msg.payloads))
    else:
        raise KeyError(how)
    out = bytes(msg.to_bytes())
    assert out != data
    return out


def h_mitm(direction, how, late):
    """a man in the middle forwards a REWRITTEN copy of the IKE_SA_INIT request (to the responder) or response (to the initiator) and, depending on
    `late`, also lets the genuine datagram through afterwards (duplication/reordering, same SPIs and Message ID 0); the handshake then runs on.
    Nobody becomes ESTABLISHED and nothing is installed unless the message the deceived side ACTED ON (parsed and re-serialised by this harness,
    independently of what that side stored) is the message the other side sent - proved over all values of the rewritten field."""
    from symx import core, shims
    eng = core.engine()
    shims.HMAC_UF.injective = True
    shims.HMAC_UF.link_concrete = True
    try:
        return _h_mitm(direction, how, late)
    finally:
        shims.HMAC_UF.link_concrete = False


def _h_mitm(direction, how, late):
    from symx import core, shims
    eng = core.engine()
    m, ik = MODS['message'], MODS['ikesa']
    S = ik.IkeSa.State
    p = world.Pair(ike_encr=('aes256', 'aes128'))
    a, b = p.a, p.b
    m1 = bytes(p.init_req())

    def deliver(to, data):
        try:
            return p.send(to, data)
        except m.IkeSaError:
            return None
    if direction == 'request':
        m1x = _rewrite(m, eng, m1, how)
        acted_on, sent = m1x, m1
        m2 = deliver('B', m1x)
        for _ in range({'none': 0, 'genuine': 1, 'genuine_twice': 2}[late]):
            deliver('B', m1)
        m2x = m2
    else:
        m2 = deliver('B', m1)
        m2x = _rewrite(m, eng, m2, how)
        acted_on, sent = m2x, bytes(m2)
    if m2x is None:
        return ['mitm', 'no response']
    m3 = deliver('A', m2x)
    if direction == 'response':
        for _ in range({'none': 0, 'genuine': 1, 'genuine_twice': 2}[late]):
            deliver('A', bytes(m2))
    m4 = deliver('B', m3) if m3 is not None else None
    if m4 is not None:
        deliver('A', m4)
    inst_a = [x for x in p.A.kernel.log if x['op'] == 'NEWSA']
    inst_b = [x for x in p.B.kernel.log if x['op'] == 'NEWSA']
    up_a = a.state == S.ESTABLISHED or bool(inst_a) or bool(a.child_sas)
    up_b = b.state == S.ESTABLISHED or bool(inst_b) or bool(b.child_sas)
    if direction == 'response':
        # the responder was told nothing wrong: it may well accept the initiator's genuine AUTH; the deceived side is the initiator
        up_b = False
    if not (up_a or up_b):
        return ['mitm', 'failed']
    # what the deceived side understood: the datagram it was given, parsed and re-serialised
    try:
        understood = m.Message.parse(acted_on).to_bytes()
    except Exception as e:
        return {'class': ['mitm'], 'violation': f'established on an IKE_SA_INIT {direction} that does not even parse ({type(e).__name__})'}
    L = core.SymBytes.lift
    same = (L(understood) == sent) if len(understood) == len(sent) else False
    eng.prove(same, f'established={"A" if up_a else ""}{"B" if up_b else ""} (or IPsec SAs installed) although the IKE_SA_INIT {direction} the deceived side acted on '
                    f'is not the one its peer sent ({how}; late genuine copy: {late}): the change in flight went unnoticed')
    return ['mitm', 'established']


# ---- the wrapper around the signature library (crypto.RsaPublicKey): public keys of every kind load_pem_public_key() returns
KEY_KINDS = ('rsa', 'ec', 'ed25519', 'ed448', 'dsa', 'x25519')


def _key_abcs():
    from cryptography.hazmat.primitives.asymmetric import rsa, ec, ed25519, ed448, dsa, x25519
    return {'rsa': rsa.RSAPublicKey, 'ec': ec.EllipticCurvePublicKey, 'ed25519': ed25519.Ed25519PublicKey, 'ed448': ed448.Ed448PublicKey,
            'dsa': dsa.DSAPublicKey, 'x25519': x25519.X25519PublicKey}


class ModelKey:
    """a public key object of the cryptography library, by documented contract: verify() takes exactly the arguments of its kind (anything else is a
    TypeError), returns None when the signature is the (deterministic, collision-free, uninterpreted) signature of the data under this key and
    scheme, and raises InvalidSignature otherwise; key-exchange keys have no verify()"""
    ARGS = {'rsa': ('padding', 'hash'), 'ec': ('ecdsa',), 'ed25519': (), 'ed448': (), 'dsa': ('hash',)}

    def __init__(self, kind, uf):
        self.kind, self.uf, self.verified = kind, uf, []

    def scheme(self, extra):
        return (self.kind + '/' + '/'.join(type(x).__name__ + ':' + (getattr(getattr(x, 'algorithm', x), 'name', '') or '') for x in extra)).encode()

    def __getattr__(self, name):
        if name == 'verify' and self.kind in self.ARGS:
            return self._verify
        raise AttributeError(name)

    def _verify(self, signature, data, *extra):
        from symx import core
        from cryptography.exceptions import InvalidSignature
        from cryptography.hazmat.primitives.asymmetric import padding, ec
        from cryptography.hazmat.primitives import hashes
        want = self.ARGS[self.kind]
        if len(extra) != len(want):
            raise TypeError(f'{self.kind} verify() takes {2 + len(want)} positional arguments but {2 + len(extra)} were given')
        for x, w in zip(extra, want):
            ok = {'padding': isinstance(x, padding.AsymmetricPadding), 'hash': isinstance(x, hashes.HashAlgorithm),
                  'ecdsa': isinstance(x, ec.EllipticCurveSignatureAlgorithm)}[w]
            if not ok:
                raise TypeError(f'{self.kind} verify(): unexpected argument {type(x).__name__}')
        s = core.SymBytes.lift(signature)
        good = self.uf(len(s), self.scheme(extra), data)
        if not bool(s == good):
            raise InvalidSignature()
        self.verified.append((s, core.SymBytes.lift(data), self.scheme(extra)))


_MODEL_CLASSES = {}


def _model_key_class(kind):
    """one model class per kind, registered with the library's abstract class of that kind (isinstance() dispatch in the code under test works)"""
    if kind not in _MODEL_CLASSES:
        cls = type(f'ModelKey_{kind}', (ModelKey,), {})
        _key_abcs()[kind].register(cls)
        _MODEL_CLASSES[kind] = cls
    return _MODEL_CLASSES[kind]


def _real_key(kind):
    """native replay: a real public key of this kind"""
    from cryptography.hazmat.primitives.asymmetric import rsa, ec, ed25519, ed448, dsa, x25519
    priv = {'rsa': lambda: rsa.generate_private_key(65537, 1024), 'ec': lambda: ec.generate_private_key(ec.SECP256R1()),
            'ed25519': ed25519.Ed25519PrivateKey.generate, 'ed448': ed448.Ed448PrivateKey.generate,
            'dsa': lambda: dsa.generate_private_key(1024), 'x25519': x25519.X25519PrivateKey.generate}[kind]()
    return priv.public_key()


def _real_valid(kind, key, signature, data):
    """native replay: is `signature` a valid signature of `data` under `key` (the scheme of its kind, SHA-256)?"""
    from cryptography.exceptions import InvalidSignature
    from cryptography.hazmat.primitives.asymmetric import padding, ec
    from cryptography.hazmat.primitives import hashes
    args = {'rsa': (padding.PKCS1v15(), hashes.SHA256()), 'ec': (ec.ECDSA(hashes.SHA256()),), 'ed25519': (), 'ed448': (), 'dsa': (hashes.SHA256(),)}.get(kind)
    if args is None:
        return False
    try:
        key.verify(bytes(signature), bytes(data), *args)
        return True
    except InvalidSignature:
        return False


def h_pubkey(role, kind, auth_len):
    """the peer's configured public key is a key of `kind` (everything the PEM loader of the configuration accepts) inside the REAL crypto.RsaPublicKey
    wrapper; IKE_AUTH arrives with the configured identity, an arbitrary method byte and ARBITRARY AUTH octets: established / CHILD_SA installed
    only if the key's own verification ran on exactly the RFC 7296 2.15 octets and accepted these AUTH octets"""
    from symx import core, shims
    eng = core.engine()
    shims.HMAC_UF.injective = True
    m, ik, cr = MODS['message'], MODS['ikesa'], MODS['crypto']
    S = ik.IkeSa.State
    p = world.Pair()
    m3 = p.send('A', p.send('B', p.init_req()))
    if role == 'responder':
        me, E = p.b, p.B
        genuine = m.Message.parse(bytes(m3), crypto=me.peer_crypto)
        own_init, nonce_mine = me.ike_sa_init_req_data, m.Message.parse(bytes(me.ike_sa_init_res_data)).get_payload(m.Payload.Type.NONCE).nonce
        id_t, exch_resp = m.Payload.Type.IDi, False
    else:
        m4 = p.send('B', m3)
        me, E = p.a, p.A
        genuine = m.Message.parse(bytes(m4), crypto=me.peer_crypto)
        own_init, nonce_mine = me.ike_sa_init_res_data, m.Message.parse(bytes(me.ike_sa_init_req_data)).get_payload(m.Payload.Type.NONCE).nonce
        id_t, exch_resp = m.Payload.Type.IDr, True
    native = isinstance(eng, core.ReplayEngine)
    sig_uf = shims.UF('signature', injective=True)
    if native:
        key = _real_key(kind)
    else:
        key = _model_key_class(kind)(kind, sig_uf)
    wrapper = cr.RsaPublicKey.__new__(cr.RsaPublicKey)
    wrapper.key = key
    set_auth(me, 'peer_auth', pubkey=wrapper, psk=None)
    method = eng.sym_int('method', 0, 255)
    auth_data = eng.sym_bytes('auth_data', auth_len)
    authp = m.PayloadAUTH(1, auth_data)
    authp.method = core.SymEnumVal(method.t) if not isinstance(method, int) else m.PayloadAUTH.Method(method)
    enc = [authp if x.type == m.Payload.Type.AUTH else x for x in genuine.encrypted_payloads]
    idp = next(x for x in enc if x.type == id_t)
    msg = m.Message(spi_i=me.spi_i, spi_r=me.spi_r, major=2, minor=0, exchange_type=35, is_response=exch_resp, can_use_higher_version=False,
                    is_initiator=not me.is_initiator, message_id=1, payloads=[], encrypted_payloads=enc)
    msg.is_protected = True
    klog0 = len(E.kernel.log)
    c11.deliver_object(me, E, msg)
    installed = any(x['op'] == 'NEWSA' for x in E.kernel.log[klog0:])
    accepted = me.state == S.ESTABLISHED or installed or bool(me.child_sas) or (role == 'initiator' and me.state == S.DEL_CHILD_REQ_SENT)
    if not accepted:
        return ['pubkey', role, kind, 'refused']
    _, octets = spec_auth(b'', own_init, nonce_mine, idp.to_bytes(), me.peer_crypto.sk_p)
    what = f'{role} with a configured {kind} public key established (or installed a CHILD_SA)'
    if native:
        if not _real_valid(kind, key, auth_data, bytes(octets) if not isinstance(octets, (bytes, bytearray)) else octets):
            return {'class': ['pubkey', role, kind, 'accepted'], 'violation': f'{what} although the AUTH octets are not a valid signature of the RFC 7296 2.15 octets under that key'}
        return ['pubkey', role, kind, 'accepted']
    eng.prove(method == 1, f'{what} with an AUTH method other than digital signature')
    ok = False
    for s, d, scheme in key.verified:
        ok = core.sym_or(ok, core.sym_and(s == auth_data if len(s) == auth_len else False, d == octets if len(d) == len(core.SymBytes.lift(octets)) else False))
    eng.prove(ok, f'{what} although the AUTH octets are not a valid signature of the RFC 7296 2.15 octets under that key')
    return ['pubkey', role, kind, 'accepted']


def build_instances(tier):
    inst = []
    nat = common.native_of
    for kind in ('create_child', 'rekey_ike', 'delete'):
        inst.append(Instance(f'request before IKE_AUTH: {kind}', h_preauth, (kind,), native=nat(h_preauth)))
    for role in ('responder', 'initiator'):
        for ck in ('psk', 'rsa_only', 'both'):
            inst.append(Instance(f'verify {role} {ck}', h_verify, (role, ck), pin=('id_type', 'id_data', 'method'),
                                 must_reach=[('refused', lambda o: o[-1] == 'refused')] + ([('accepted', lambda o: o[-1] == 'accepted')] if ck != 'rsa_only' or True else [])))
    # AUTH data of every other length (a prefix of the right value, the empty string, a longer string) must be refused
    lens = (0, 1, 16, 31, 33) if tier == 'quick' else tuple(x for x in range(0, 49) if x != 32)
    for role in ('responder', 'initiator'):
        for n in lens:
            inst.append(Instance(f'verify {role} psk auth_len={n}', h_verify, (role, 'psk', n), pin=('id_type', 'id_data', 'method')))
        for n in ((0, 127, 129) if tier == 'quick' else (0, 1, 32, 64, 127, 129, 256)):
            inst.append(Instance(f'verify {role} rsa_only auth_len={n}', h_verify, (role, 'rsa_only', n), pin=('id_type', 'id_data', 'method')))
    # the IKE_AUTH message also carries a notification and/or lacks the CHILD_SA payloads or the ID/AUTH payloads altogether
    for role in ('responder', 'initiator'):
        for nt in ('TS_UNACCEPTABLE', 'NO_PROPOSAL_CHOSEN', 'INITIAL_CONTACT', 'AUTHENTICATION_FAILED', 'NO_ADDITIONAL_SAS', 'INVALID_SYNTAX'):
            for sk in ('notify', 'refused', 'bare'):
                if tier == 'quick' and nt in ('NO_ADDITIONAL_SAS', 'INVALID_SYNTAX'):
                    continue
                inst.append(Instance(f'verify {role} psk shape={sk}:{nt}', h_verify, (role, 'psk', None, f'{sk}:{nt}'), pin=('id_type', 'id_data', 'method')))
    hows = ['drop_first_encr', 'reverse_transforms', 'weaker_proposal_first', 'append_notify', 'reorder_payloads',
            'field:keylen', 'field:transform_id', 'flip:nonce', 'flip:nonce_last', 'flip:ke_last', 'field:ke_group', 'field:proposal_num', 'field:payload_reserved', 'field:transform_reserved']
    for direction in ('request', 'response'):
        for how in hows:
            for late in (('none', 'genuine') if tier == 'quick' else ('none', 'genuine', 'genuine_twice')):
                if direction == 'response' and how in ('drop_first_encr', 'weaker_proposal_first'):
                    continue
                inst.append(Instance(f'mitm {direction} {how} late={late}', h_mitm, (direction, how, late), native=nat(h_mitm)))
    inst.append(Instance('mitm request none late=genuine', h_mitm, ('request', 'none', 'genuine'), native=nat(h_mitm),
                         must_reach=[('established', lambda o: o == ['mitm', 'established'])]))
    for role in ('responder', 'initiator'):
        for kind in KEY_KINDS:
            for n in ((64, 128) if tier == 'quick' else (0, 32, 64, 72, 114, 128, 256)):
                inst.append(Instance(f'pubkey {role} {kind} auth_len={n}', h_pubkey, (role, kind, n), pin=('method',)))
    # presented identities shorter / longer than the configured one (15 octets): a prefix, a suffix, an inner part, an extension
    for role in ('responder', 'initiator'):
        for n in ((0, 1, 9, 14, 16) if tier == 'quick' else (0, 1, 2, 5, 9, 10, 13, 14, 16, 17, 30)):
            inst.append(Instance(f'verify {role} psk id_len={n}', h_verify, (role, 'psk', None, 'plain', n), pin=('id_type', 'id_data', 'method')))
    for ak in ('psk', 'rsa'):
        inst.append(Instance(f'sign {ak}', h_sign, (ak,), engine_kw={'max_ticks': 10 ** 7}))
    inst.append(Instance('credential / identity mismatch', h_mismatch, (), engine_kw={'max_ticks': 10 ** 7},
                         must_reach=[('both established', lambda o: o == ['mismatch', 'ESTABLISHED', 'ESTABLISHED']),
                                     ('failed', lambda o: o[0] == 'mismatch' and o[1:] != ['ESTABLISHED', 'ESTABLISHED'])]))
    return inst


def _load(shim):
    global MODS
    MODS = world.load(shim=shim)
    symcrypto.install(MODS)
    c04.MODS = MODS
    c11.MODS = MODS
    return MODS


def replay_file(path):
    return common.generic_replay_file(path, lambda: build_instances('thorough') + build_instances('quick'), lambda: _load(False))


def main(tier, seed):
    _load(True)
    ik = MODS['ikesa'].IkeSa
    chk = Check('C02', tier, seed,
                functions=common.src_hash(ik._generate_auth_payload, ik._generate_psk_auth_payload, ik._generate_rsa_auth_payload, ik._verify_auth_payload,
                                          ik._verify_rsa_auth_payload, ik.process_ike_auth_request, ik.process_ike_auth_response, ik.generate_ike_auth_request,
                                          ik.process_ike_sa_init_request, ik.process_ike_sa_init_response),
                bounds={'verifier': 'both roles x 3 credential configurations; identity type byte, identity data (length of the configured identity), AUTH method byte and '
                                    'AUTH data (32 bytes; 128 for RSA-only) arbitrary; the rest of the IKE_AUTH message is the genuine one',
                        'signer': 'fully symbolic handshake (all nonces, SPIs, DH values, PSKs symbolic), PSK and RSA',
                        'mismatch': 'four 4-byte PSKs and four 4-byte e-mail identities arbitrary',
                        'outside': 'in-flight rewriting of IKE_SA_INIT is covered compositionally: (a) ties establishment to the verifier\'s own stored bytes, (b) ties the '
                                   'emitted AUTH to the signer\'s own bytes, collision-freeness (axiom) makes the two byte strings equal; that the stored bytes '
                                   'faithfully represent what was received/sent is C05 (parse/serialise round trip); EAP and certificates are not implemented'},
                assumptions=['prf (HMAC) is collision-free: equal results imply equal key and message (axiom added per pair of calls)',
                             'an RSA PKCS#1 v1.5 signature is a deterministic, collision-free function of (key, message); verification = equality with it',
                             'identity data of the length of the configured identity'],
                stubs=['ikesa.HMAC (UF, injective)', 'RSA model', 'Message.parse returns the prepared object (verifier)', 'symbolic os.urandom, DH model (signer)',
                       'kernel ghost'])
    chk.run(build_instances(tier))
    return chk.finish(replay=lambda v: common.native_replay_subprocess('C02', v))
