"""C14 - netlink/XFRM requests are byte-exact for the kernel ABI and say what was meant.
The real xfrm.py / netlink.py source is executed against a modelled `ctypes` (symx/ctmodel.py; every structure layout is compared
with the real ctypes classes on every run), so every argument of create_sa / create_policy / delete_sa / flush can be symbolic:
selector network addresses (32/128 bit), ports, IP protocol, SPI, tunnel addresses, key bytes, lifetime, policy index.  The bytes
handed to the netlink socket are decoded with the KERNEL's own layout (offsetof/sizeof printed by a C program compiled against
<linux/xfrm.h> on every run) and z3 proves every decoded field equals the intended parameter, plus header and attribute framing.
Reverse direction: ACQUIRE / EXPIRE / NLMSG_ERROR messages encoded with the kernel layout from symbolic field values are decoded
by the real Xfrm.parse_message / send_recv to the same values; error != 0 <=> NetlinkError."""
import json
import sys
import types

from . import common, world, klayout
from .common import Instance, Check

MODS = None
MX = MNL = None       # xfrm / netlink executed against the ctypes model (symbolic runs) or the real modules (native replay)
ALGS = {'aes128_sha1': (b'cbc(aes)', 16, b'hmac(sha1)', 20), 'aes256_sha256': (b'cbc(aes)', 32, b'hmac(sha256)', 32),
        'aes256_sha512': (b'cbc(aes)', 32, b'hmac(sha512)', 64), 'aes128_md5': (b'cbc(aes)', 16, b'hmac(md5)', 16)}


class Net:
    """stand-in for ipaddress.ip_network with a symbolic network address"""

    def __init__(self, addr_obj, prefixlen, version):
        self._a, self.prefixlen, self.version = addr_obj, prefixlen, version

    def __getitem__(self, i):
        assert i == 0
        return self._a


def sym_addr(eng, name, version):
    import ipaddress
    from symx import shims
    if version == 4:
        v = eng.sym_int(name, 0, 0xFFFFFFFF)
        return (shims._mk_addr(ipaddress.IPv4Address, v) if not isinstance(v, int) else ipaddress.IPv4Address(v)), v
    v = eng.sym_int(name, 0, (1 << 128) - 1, width=136)
    return (shims._mk_addr(ipaddress.IPv6Address, v) if not isinstance(v, int) else ipaddress.IPv6Address(v)), v


def packed(v, version):
    return v.to_bytes(4 if version == 4 else 16, 'big')


class Sock:
    def __init__(self):
        self.sent = []
        self.reply = None

    def send(self, data):
        self.sent.append(data)

    def recv(self, n):
        from symx import core
        if callable(self.reply):
            return self.reply(self.sent[-1])
        if self.reply is not None:
            return self.reply
        import struct
        # the kernel's ack: NLMSG_ERROR with errno 0, the sequence number of the request and the KERNEL's choice of port id
        seq = core.SymBytes.lift(self.sent[-1])[8:12]
        return (core.SymBytes.lift(struct.pack('=IHH', 36, 2, 0)) + seq + struct.pack('=I', 0x7F000001) + struct.pack('=i', 0) + bytes(16)).lower()

    def close(self):
        pass


def with_socket():
    s = Sock()
    MX.Xfrm._get_socket = classmethod(lambda cls, groups: s)
    MNL.time = types.SimpleNamespace(time=lambda: 1700000000.7)
    return s


def check_header(eng, v, data, mtype):
    from symx import core
    K = klayout.table()['const']
    P = eng.prove
    P(v.u('nlmsghdr', 'nlmsg_len') == len(data), 'nlmsg_len differs from the length of the datagram')
    P(v.u('nlmsghdr', 'nlmsg_type') == K[mtype], f'nlmsg_type is not {mtype}')
    P(v.u('nlmsghdr', 'nlmsg_flags') == (K['NLM_F_REQUEST'] | K['NLM_F_ACK']), 'nlmsg_flags is not NLM_F_REQUEST|NLM_F_ACK')


def attrs(v, start, end):
    """walk the attribute TLVs with the kernel's nlattr layout -> {type: (offset of payload, nla_len)} ; concrete framing"""
    out, off = {}, start
    bad = None
    while off + 4 <= end:
        a = v.at(off)
        ln, ty = a.u('nlattr', 'nla_len'), a.u('nlattr', 'nla_type')
        if not isinstance(ln, int) or not isinstance(ty, int):
            return out, 'attribute header is not concrete'
        if ln < 4 or off + ln > end:
            return out, f'attribute at {off} has nla_len {ln} (message ends at {end})'
        out[ty] = (off + 4, ln)
        off += (ln + 3) // 4 * 4
    if off != end:
        bad = f'attributes end at {off}, message at {end}'
    return out, bad


def check_selector(eng, sv, fam_const, src_v, dst_v, sport, dport, proto, plen_s, plen_d, version, label):
    from symx import core
    P = eng.prove
    n = 4 if version == 4 else 16
    P(sv.u('xfrm_selector', 'family') == fam_const, f'{label}: sel.family')
    P(core.SymBytes.lift(sv.raw('xfrm_selector', 'saddr'))[:n] == packed(src_v, version), f'{label}: sel.saddr is not the source network address')
    P(core.SymBytes.lift(sv.raw('xfrm_selector', 'daddr'))[:n] == packed(dst_v, version), f'{label}: sel.daddr is not the destination network address')
    if n == 4:
        P(core.sym_and(core.SymBytes.lift(sv.raw('xfrm_selector', 'saddr'))[4:] == bytes(12), core.SymBytes.lift(sv.raw('xfrm_selector', 'daddr'))[4:] == bytes(12)),
          f'{label}: unused address bytes are not zero')
    P(core.sym_and(sv.u('xfrm_selector', 'sport', big=True) == sport, sv.u('xfrm_selector', 'dport', big=True) == dport),
      f'{label}: sel.sport / sel.dport are not the given ports in network byte order')
    P(core.sym_and(sv.u('xfrm_selector', 'sport_mask') == core.sym_ite_int(sport == 0, 0, 0xFFFF),
                   sv.u('xfrm_selector', 'dport_mask') == core.sym_ite_int(dport == 0, 0, 0xFFFF)), f'{label}: port masks (0 for any, 0xFFFF otherwise)')
    P(core.sym_and(sv.u('xfrm_selector', 'prefixlen_s') == plen_s, sv.u('xfrm_selector', 'prefixlen_d') == plen_d), f'{label}: prefix lengths')
    P(sv.u('xfrm_selector', 'proto') == proto, f'{label}: sel.proto')


def check_lifetime_inf(eng, lv, label, soft=0, hard=0):
    from symx import core
    P = eng.prove
    inf = 0xFFFFFFFFFFFFFFFF
    for f in ('soft_byte_limit', 'hard_byte_limit', 'soft_packet_limit', 'hard_packet_limit'):
        P(core.SymBytes.lift(lv.raw('xfrm_lifetime_cfg', f)) == inf.to_bytes(8, 'little'), f'{label}: lft.{f} is not XFRM_INF')
    P(core.sym_and(lv.u('xfrm_lifetime_cfg', 'soft_add_expires_seconds') == soft, lv.u('xfrm_lifetime_cfg', 'hard_add_expires_seconds') == hard,
                   lv.u('xfrm_lifetime_cfg', 'soft_use_expires_seconds') == 0, lv.u('xfrm_lifetime_cfg', 'hard_use_expires_seconds') == 0),
      f'{label}: add/use expiry seconds')


def h_create_sa(version, ipsec, mode, alg, plen, outer=None):
    from symx import core
    eng = core.engine()
    T = klayout.table()
    K = T['const']
    s = with_socket()
    src_a, src_v = sym_addr(eng, 'src_net', version)
    dst_a, dst_v = sym_addr(eng, 'dst_net', version)
    outer = outer or version          # family of the tunnel endpoints (outer header); the selector family is `version`
    tsrc, tsrc_v = sym_addr(eng, 'tunnel_src', outer)
    tdst, tdst_v = sym_addr(eng, 'tunnel_dst', outer)
    sport, dport = eng.sym_int('sport', 0, 65535), eng.sym_int('dport', 0, 65535)
    ip_proto = eng.sym_int('ip_proto', 0, 255)
    spi = eng.sym_bytes('spi', 4)
    enc_name, ekl, auth_name, akl = ALGS[alg]
    sk_e = eng.sym_bytes('sk_e', ekl) if ipsec == 'esp' else None
    sk_a = eng.sym_bytes('sk_a', akl)
    lifetime = eng.sym_int('lifetime', -1, 0x7FFFFFFF)
    ipsec_proto = K['IPPROTO_ESP'] if ipsec == 'esp' else K['IPPROTO_AH']
    MX.Xfrm.create_sa(Net(src_a, plen[0], version), Net(dst_a, plen[1], version), sport, dport, spi, ip_proto, ipsec_proto, mode, tsrc, tdst,
                      enc_name if ipsec == 'esp' else None, sk_e, auth_name, sk_a, lifetime)
    if len(s.sent) != 1:
        return {'class': ['create_sa'], 'violation': f'{len(s.sent)} datagrams sent for one request'}
    data = s.sent[0]
    v = klayout.View(data)
    P = eng.prove
    check_header(eng, v, data, 'XFRM_MSG_NEWSA')
    hl = T['nlmsghdr']['__size']
    body = v.at(hl)
    fam = K['AF_INET'] if version == 4 else K['AF_INET6']
    check_selector(eng, body.sub('xfrm_usersa_info', 'sel'), fam, src_v, dst_v, sport, dport, ip_proto, plen[0], plen[1], version, 'NEWSA')
    n = 4 if outer == 4 else 16
    ofam = K['AF_INET'] if outer == 4 else K['AF_INET6']
    idv = body.sub('xfrm_usersa_info', 'id')
    P(core.SymBytes.lift(idv.raw('xfrm_id', 'daddr'))[:n] == packed(tdst_v, outer), 'NEWSA: id.daddr is not the tunnel destination')
    P(core.SymBytes.lift(idv.raw('xfrm_id', 'spi')) == spi, 'NEWSA: id.spi')
    P(idv.u('xfrm_id', 'proto') == ipsec_proto, 'NEWSA: id.proto')
    P(core.SymBytes.lift(body.raw('xfrm_usersa_info', 'saddr'))[:n] == packed(tsrc_v, outer), 'NEWSA: saddr is not the tunnel source')
    P(core.sym_and(body.u('xfrm_usersa_info', 'family') == ofam, body.u('xfrm_usersa_info', 'mode') == mode), 'NEWSA: family (of the tunnel endpoints) / mode')
    lv = body.sub('xfrm_usersa_info', 'lft')
    inf = lifetime < 0
    check_lifetime_inf(eng, lv, 'NEWSA', soft=core.sym_ite_int(inf, 0, lifetime), hard=core.sym_ite_int(inf, 0, lifetime + 10))
    at, bad = attrs(v, hl + ((T['xfrm_usersa_info']['__size'] + 3) // 4 * 4), len(data))
    if bad:
        return {'class': ['create_sa'], 'violation': 'NEWSA attribute framing: ' + bad}
    want = {K['XFRMA_ALG_AUTH']: (auth_name, sk_a)}
    if ipsec == 'esp':
        want[K['XFRMA_ALG_CRYPT']] = (enc_name, sk_e)
    if set(at) != set(want):
        return {'class': ['create_sa'], 'violation': f'NEWSA carries attributes {sorted(at)}, expected {sorted(want)}'}
    for ty, (name, key) in want.items():
        off, ln = at[ty]
        av = v.at(off)
        if ln < 4 + T['xfrm_algo']['alg_key'][0] + len(key):
            return {'class': ['create_sa'], 'violation': f'attribute {ty} too short for its key ({ln})'}
        nm = core.SymBytes.lift(av.raw('xfrm_algo', 'alg_name'))
        P(nm == name + bytes(64 - len(name)), f'attribute {ty}: alg_name is not the NUL-terminated algorithm name')
        P(av.u('xfrm_algo', 'alg_key_len') == 8 * len(key), f'attribute {ty}: alg_key_len is not the key length in bits')
        ko = off + T['xfrm_algo']['alg_key'][0]
        P(core.SymBytes.lift(v.d[ko:ko + len(key)]) == key, f'attribute {ty}: key bytes')
    return ['create_sa', 'ok']


def h_create_child_sa(ipsec, integ, keylen, role, mode):
    """the REAL Xfrm.create_child_sa for an ESP / AH proposal: two XFRM_MSG_NEWSA requests; each carries exactly the algorithm attributes of its protocol
    (AH: authentication only - the kernel refuses an AH state that carries XFRMA_ALG_CRYPT), the names of the negotiated transforms and the keys of its
    direction and role; SPI, protocol, mode and addresses per direction"""
    from symx import core
    from ipaddress import ip_address, ip_network
    eng = core.engine()
    T = klayout.table()
    K = T['const']
    s = with_socket()
    M = MX
    Tr, Pr = M.Transform, M.Proposal
    TS = sys.modules[Tr.__module__].TrafficSelector
    integ_t = {'sha1': (Tr.IntegId.AUTH_HMAC_SHA1_96, b'hmac(sha1)', 20), 'sha256': (Tr.IntegId.AUTH_HMAC_SHA2_256_128, b'hmac(sha256)', 32),
               'sha512': (Tr.IntegId.AUTH_HMAC_SHA2_512_256, b'hmac(sha512)', 64), 'md5': (Tr.IntegId.AUTH_HMAC_MD5_96, b'hmac(md5)', 16)}[integ]
    trs = [Tr(Tr.Type.INTEG, integ_t[0]), Tr(Tr.Type.ESN, Tr.EsnId.NO_ESN)]
    if ipsec == 'esp':
        trs.insert(0, Tr(Tr.Type.ENCR, Tr.EncrId.ENCR_AES_CBC, keylen))
    spi_out, spi_in = eng.sym_bytes('outbound_spi', 4), eng.sym_bytes('inbound_spi', 4)
    prop = Pr(1, Pr.Protocol.ESP if ipsec == 'esp' else Pr.Protocol.AH, spi_out, trs)
    tsi = TS.from_network(ip_network('10.1.0.0/16'), 0, TS.IpProtocol.TCP)
    tsr = TS.from_network(ip_network('10.2.0.0/24'), 23, TS.IpProtocol.TCP)
    ChildSa = MODS['ikesa'].ChildSa
    mode = M.Mode(mode)
    child = ChildSa(inbound_spi=spi_in, outbound_spi=spi_out, original_proposal=prop, proposal=prop, tsi=tsi, tsr=tsr, mode=mode, lifetime=-1)
    ek = keylen // 8
    keys = types.SimpleNamespace(sk_ei=eng.sym_bytes('sk_ei', ek), sk_er=eng.sym_bytes('sk_er', ek),
                                 sk_ai=eng.sym_bytes('sk_ai', integ_t[2]), sk_ar=eng.sym_bytes('sk_ar', integ_t[2]))
    me, peer = ip_address('192.0.2.1'), ip_address('192.0.2.2')
    ike = types.SimpleNamespace(my_addr=me, peer_addr=peer)
    is_init = role == 'initiator'
    try:
        M.Xfrm.create_child_sa(ike, child, keys, is_initiator=is_init)
    except Exception as ex:     # noqa
        return {'class': ['create_child_sa'], 'violation': f'create_child_sa raised {type(ex).__name__}: {ex}'}
    if len(s.sent) != 2:
        return {'class': ['create_child_sa'], 'violation': f'{len(s.sent)} requests sent for one CHILD_SA'}
    P = eng.prove
    hl = T['nlmsghdr']['__size']
    # (datagram, spi, destination, source, encryption key, integrity key): outbound first
    e_out, e_in = (keys.sk_ei, keys.sk_er) if is_init else (keys.sk_er, keys.sk_ei)
    a_out, a_in = (keys.sk_ai, keys.sk_ar) if is_init else (keys.sk_ar, keys.sk_ai)
    seen = {}
    for data in s.sent:
        v = klayout.View(data)
        check_header(eng, v, data, 'XFRM_MSG_NEWSA')
        body = v.at(hl)
        idv = body.sub('xfrm_usersa_info', 'id')
        d4 = core.SymBytes.lift(idv.raw('xfrm_id', 'daddr'))[:4]
        d4 = core.SymBytes.lift(d4)
        dst = bytes(d4.items) if d4.is_concrete() else None
        which = 'out' if dst == peer.packed else ('in' if dst == me.packed else None)
        if which is None or which in seen:
            return {'class': ['create_child_sa'], 'violation': 'the two requests are not one SA towards the peer and one towards this endpoint'}
        seen[which] = True
        spi, ek_, ak_, src = (spi_out, e_out, a_out, me) if which == 'out' else (spi_in, e_in, a_in, peer)
        P(core.SymBytes.lift(idv.raw('xfrm_id', 'spi')) == spi, f'{which}bound SA: SPI')
        P(idv.u('xfrm_id', 'proto') == (K['IPPROTO_ESP'] if ipsec == 'esp' else K['IPPROTO_AH']), f'{which}bound SA: protocol')
        P(core.SymBytes.lift(body.raw('xfrm_usersa_info', 'saddr'))[:4] == src.packed, f'{which}bound SA: source address')
        P(body.u('xfrm_usersa_info', 'mode') == int(mode), f'{which}bound SA: mode')
        at, bad = attrs(v, hl + ((T['xfrm_usersa_info']['__size'] + 3) // 4 * 4), len(data))
        if bad:
            return {'class': ['create_child_sa'], 'violation': 'NEWSA attribute framing: ' + bad}
        want = {K['XFRMA_ALG_AUTH']: (integ_t[1], ak_)}
        if ipsec == 'esp':
            want[K['XFRMA_ALG_CRYPT']] = (b'cbc(aes)', ek_)
        if set(at) != set(want):
            return {'class': ['create_child_sa'], 'violation': f'{which}bound {ipsec.upper()} SA carries attributes {sorted(at)}, expected exactly {sorted(want)}'}
        for ty, (name, key) in want.items():
            off, ln = at[ty]
            av = v.at(off)
            nm = core.SymBytes.lift(av.raw('xfrm_algo', 'alg_name'))
            P(nm == name + bytes(64 - len(name)), f'{which}bound SA attribute {ty}: algorithm name')
            P(av.u('xfrm_algo', 'alg_key_len') == 8 * len(key), f'{which}bound SA attribute {ty}: key length in bits')
            ko = off + T['xfrm_algo']['alg_key'][0]
            P(core.SymBytes.lift(v.d[ko:ko + len(key)]) == key, f'{which}bound SA attribute {ty}: key bytes (direction / role)')
    return ['create_child_sa', 'ok']


def h_create_policy(version, direction, mode, plen, outer=None):
    from symx import core
    eng = core.engine()
    T = klayout.table()
    K = T['const']
    s = with_socket()
    src_a, src_v = sym_addr(eng, 'src_net', version)
    dst_a, dst_v = sym_addr(eng, 'dst_net', version)
    outer = outer or version          # family of the tunnel endpoints (outer header); the selector family is `version`
    tsrc, tsrc_v = sym_addr(eng, 'tunnel_src', outer)
    tdst, tdst_v = sym_addr(eng, 'tunnel_dst', outer)
    sport, dport = eng.sym_int('sport', 0, 65535), eng.sym_int('dport', 0, 65535)
    ip_proto = eng.sym_int('ip_proto', 0, 255)
    index = eng.sym_int('index', 0, 0xFFFFFFFF)
    ipsec_proto = eng.sym_int('ipsec_proto', 0, 255)
    MX.Xfrm.create_policy(Net(src_a, plen[0], version), Net(dst_a, plen[1], version), sport, dport, ip_proto, direction, ipsec_proto, mode, tsrc, tdst,
                          index=index)
    data = s.sent[0]
    v = klayout.View(data)
    P = eng.prove
    check_header(eng, v, data, 'XFRM_MSG_NEWPOLICY')
    hl = T['nlmsghdr']['__size']
    body = v.at(hl)
    fam = K['AF_INET'] if version == 4 else K['AF_INET6']
    check_selector(eng, body.sub('xfrm_userpolicy_info', 'sel'), fam, src_v, dst_v, sport, dport, ip_proto, plen[0], plen[1], version, 'NEWPOLICY')
    P(core.sym_and(body.u('xfrm_userpolicy_info', 'index') == index, body.u('xfrm_userpolicy_info', 'dir') == direction,
                   body.u('xfrm_userpolicy_info', 'action') == K['XFRM_POLICY_ALLOW']), 'NEWPOLICY: index / dir / action')
    check_lifetime_inf(eng, body.sub('xfrm_userpolicy_info', 'lft'), 'NEWPOLICY')
    at, bad = attrs(v, hl + ((T['xfrm_userpolicy_info']['__size'] + 3) // 4 * 4), len(data))
    if bad:
        return {'class': ['create_policy'], 'violation': 'NEWPOLICY attribute framing: ' + bad}
    if set(at) != {K['XFRMA_TMPL']}:
        return {'class': ['create_policy'], 'violation': f'NEWPOLICY carries attributes {sorted(at)}, expected the template'}
    off, ln = at[K['XFRMA_TMPL']]
    if ln != 4 + T['xfrm_user_tmpl']['__size']:
        return {'class': ['create_policy'], 'violation': f'template attribute length {ln}'}
    tv = v.at(off)
    n = 4 if outer == 4 else 16
    ofam = K['AF_INET'] if outer == 4 else K['AF_INET6']
    P(core.SymBytes.lift(tv.sub('xfrm_user_tmpl', 'id').raw('xfrm_id', 'daddr'))[:n] == packed(tdst_v, outer), 'template: id.daddr is not the tunnel destination')
    P(tv.sub('xfrm_user_tmpl', 'id').u('xfrm_id', 'proto') == ipsec_proto, 'template: id.proto')
    P(core.SymBytes.lift(tv.raw('xfrm_user_tmpl', 'saddr'))[:n] == packed(tsrc_v, outer), 'template: saddr is not the tunnel source')
    P(core.sym_and(tv.u('xfrm_user_tmpl', 'family') == ofam, tv.u('xfrm_user_tmpl', 'mode') == mode), 'template: family (of the tunnel endpoints) / mode')
    P(core.sym_and(tv.u('xfrm_user_tmpl', 'aalgos') == 0xFFFFFFFF, tv.u('xfrm_user_tmpl', 'ealgos') == 0xFFFFFFFF, tv.u('xfrm_user_tmpl', 'calgos') == 0xFFFFFFFF),
      'template: algorithm masks')
    return ['create_policy', 'ok']


def h_delete_flush(version):
    from symx import core
    eng = core.engine()
    T = klayout.table()
    K = T['const']
    s = with_socket()
    d_a, d_v = sym_addr(eng, 'daddr', version)
    spi = eng.sym_bytes('spi', 4)
    proto = eng.sym_int('proto', 0, 255)
    MX.Xfrm.delete_sa(d_a, proto, spi)
    MX.Xfrm.flush_sas()
    MX.Xfrm.flush_policies()
    if len(s.sent) != 3:
        return {'class': ['delete_flush'], 'violation': f'{len(s.sent)} datagrams for 3 requests'}
    P = eng.prove
    hl = T['nlmsghdr']['__size']
    v = klayout.View(s.sent[0])
    check_header(eng, v, s.sent[0], 'XFRM_MSG_DELSA')
    b = v.at(hl)
    n = 4 if version == 4 else 16
    P(core.SymBytes.lift(b.raw('xfrm_usersa_id', 'daddr'))[:n] == packed(d_v, version), 'DELSA: daddr')
    P(core.SymBytes.lift(b.raw('xfrm_usersa_id', 'spi')) == spi, 'DELSA: spi')
    P(core.sym_and(b.u('xfrm_usersa_id', 'proto') == proto, b.u('xfrm_usersa_id', 'family') == (K['AF_INET'] if version == 4 else K['AF_INET6'])), 'DELSA: proto / family')
    if len(s.sent[0]) < hl + T['xfrm_usersa_id']['__size']:
        return {'class': ['delete_flush'], 'violation': 'DELSA shorter than xfrm_usersa_id'}
    for d, mt in ((s.sent[1], 'XFRM_MSG_FLUSHSA'), (s.sent[2], 'XFRM_MSG_FLUSHPOLICY')):
        vv = klayout.View(d)
        check_header(eng, vv, d, mt)
    return ['delete_flush', 'ok']


def h_sequence(version):
    """several requests in a row in one process: no request inherits values from an earlier one (shared structure instances)"""
    from symx import core
    import ipaddress
    eng = core.engine()
    T = klayout.table()
    K = T['const']
    s = with_socket()
    net = ipaddress.ip_network('10.0.0.0/24' if version == 4 else '2001:db8::/64')
    a1, a2 = (ipaddress.ip_address('192.0.2.1'), ipaddress.ip_address('192.0.2.2')) if version == 4 else \
             (ipaddress.ip_address('2001:db8::1'), ipaddress.ip_address('2001:db8::2'))
    l1 = eng.sym_int('lifetime1', 0, 0x7FFFFFFF)
    l3 = eng.sym_int('lifetime3', 0, 0x7FFFFFFF)
    p1, p2 = eng.sym_int('port1', 1, 65535), eng.sym_int('port2', 1, 65535)
    key = eng.sym_bytes('key', 32)
    X = MX.Xfrm
    X.create_sa(net, net, p1, p2, b'\x01\x02\x03\x04', 6, K['IPPROTO_ESP'], 1, a1, a2, b'cbc(aes)', key, b'hmac(sha256)', key, l1)
    X.create_sa(net, net, 0, 0, b'\x05\x06\x07\x08', 0, K['IPPROTO_AH'], 0, a2, a1, None, None, b'hmac(sha256)', b'k' * 32, -1)
    X.create_policy(net, net, 0, 0, 0, K['XFRM_POLICY_OUT'], K['IPPROTO_ESP'], 1, a1, a2, index=9)
    X.create_sa(net, net, 0, 0, b'\x09\x0a\x0b\x0c', 0, K['IPPROTO_AH'], 0, a2, a1, None, None, b'hmac(sha256)', b'k' * 32, l3)
    X.delete_sa(a1, K['IPPROTO_ESP'], b'\x01\x02\x03\x04')
    X.create_policy(net, net, 0, 0, 0, K['XFRM_POLICY_IN'], K['IPPROTO_ESP'], 1, a1, a2)
    if len(s.sent) != 6:
        return {'class': ['sequence'], 'violation': f'{len(s.sent)} datagrams for 6 requests'}
    hl = T['nlmsghdr']['__size']
    P = eng.prove
    for i, (d, struct, soft, hard) in enumerate(((s.sent[0], 'xfrm_usersa_info', l1, l1 + 10), (s.sent[1], 'xfrm_usersa_info', 0, 0),
                                                 (s.sent[2], 'xfrm_userpolicy_info', 0, 0), (s.sent[3], 'xfrm_usersa_info', l3, l3 + 10),
                                                 (s.sent[5], 'xfrm_userpolicy_info', 0, 0))):
        v = klayout.View(d).at(hl)
        check_lifetime_inf(eng, v.sub(struct, 'lft'), f'request {i + 1} of the sequence', soft=soft, hard=hard)
        sv = v.sub(struct, 'sel')
        if i in (1, 2, 3, 4):
            P(core.sym_and(sv.u('xfrm_selector', 'sport', big=True) == 0, sv.u('xfrm_selector', 'sport_mask') == 0), f'request {i + 1} of the sequence inherited a port')
    for d in s.sent:
        P(klayout.View(d).u('nlmsghdr', 'nlmsg_len') == len(d), 'nlmsg_len of a later request')
    return ['sequence', 'ok']


def h_acquire(version):
    """a kernel ACQUIRE built with the kernel layout from symbolic values is decoded to the same values"""
    from symx import core
    eng = core.engine()
    T = klayout.table()
    K = T['const']
    fam = K['AF_INET'] if version == 4 else K['AF_INET6']
    n = 4 if version == 4 else 16
    w = 64 if version == 4 else 136
    vals = {k: eng.sym_int(k, 0, (1 << (8 * n)) - 1, width=w) for k in ('id_daddr', 'saddr', 'sel_saddr', 'sel_daddr')}
    sport, dport = eng.sym_int('sport', 0, 65535), eng.sym_int('dport', 0, 65535)
    proto = eng.sym_int('proto', 0, 255)
    index = eng.sym_int('index', 0, 0xFFFFFFFF)
    A, S, I, Pn = T['xfrm_user_acquire'], T['xfrm_selector'], T['xfrm_id'], T['xfrm_userpolicy_info']
    f = []
    f.append((A['id'][0] + I['daddr'][0], n, packed(vals['id_daddr'], version), True))
    f.append((A['saddr'][0], n, packed(vals['saddr'], version), True))
    so = A['sel'][0]
    f += [(so + S['saddr'][0], n, packed(vals['sel_saddr'], version), True), (so + S['daddr'][0], n, packed(vals['sel_daddr'], version), True),
          (so + S['sport'][0], 2, sport, True), (so + S['dport'][0], 2, dport, True), (so + S['family'][0], 2, fam, False), (so + S['proto'][0], 1, proto, False)]
    f.append((A['policy'][0] + Pn['index'][0], 4, index, False))
    body = klayout.encode(f, A['__size'])
    tm = T['xfrm_user_tmpl']
    tmpl = klayout.encode([(tm['family'][0], 2, fam, False)], tm['__size'])
    attr = klayout.encode([(0, 2, 4 + tm['__size'], False), (2, 2, K['XFRMA_TMPL'], False)], 4) + tmpl
    total = T['nlmsghdr']['__size'] + len(body) + len(attr)
    hdr = klayout.encode([(0, 4, total, False), (4, 2, K['XFRM_MSG_ACQUIRE'], False)], T['nlmsghdr']['__size'])
    data = core.SymBytes(hdr + body + attr).lower()
    header, msg, attributes = MX.Xfrm.parse_message(data)
    P = eng.prove
    if header.type != K['XFRM_MSG_ACQUIRE'] or msg is None or MX.XFRMA_TMPL not in attributes:
        return {'class': ['acquire'], 'violation': 'ACQUIRE not decoded (type / payload / template attribute)'}
    P(attributes[MX.XFRMA_TMPL].family == fam, 'ACQUIRE: template family')
    for got, want, what in ((msg.id.daddr.to_ipaddr(fam), vals['id_daddr'], 'id.daddr'), (msg.saddr.to_ipaddr(fam), vals['saddr'], 'saddr'),
                            (msg.sel.saddr.to_ipaddr(fam), vals['sel_saddr'], 'sel.saddr'), (msg.sel.daddr.to_ipaddr(fam), vals['sel_daddr'], 'sel.daddr')):
        if got.version != version:
            return {'class': ['acquire'], 'violation': f'ACQUIRE: {what} of an IPv{version} event decoded to an IPv{got.version} address'}
        P(got._ip == want if not isinstance(got._ip, int) or not isinstance(want, int) else got._ip == want, f'ACQUIRE: {what} decoded to another address')
    P(core.sym_and(msg.sel.sport == sport, msg.sel.dport == dport, msg.sel.proto == proto, msg.sel.family == fam, msg.policy.index == index),
      'ACQUIRE: ports / protocol / family / policy index decoded to other values')
    return ['acquire', 'ok']


def h_expire_error():
    from symx import core
    eng = core.engine()
    T = klayout.table()
    K = T['const']
    spi = eng.sym_bytes('spi', 4)
    hard = eng.sym_int('hard', 0, 255)
    E, U, I = T['xfrm_user_expire'], T['xfrm_usersa_info'], T['xfrm_id']
    body = klayout.encode([(E['state'][0] + U['id'][0] + I['spi'][0], 4, spi, True), (E['hard'][0], 1, hard, False)], E['__size'])
    total = T['nlmsghdr']['__size'] + len(body)
    hdr = klayout.encode([(0, 4, total, False), (4, 2, K['XFRM_MSG_EXPIRE'], False)], T['nlmsghdr']['__size'])
    header, msg, attributes = MX.Xfrm.parse_message(core.SymBytes(hdr + body).lower())
    P = eng.prove
    if header.type != K['XFRM_MSG_EXPIRE'] or msg is None:
        return {'class': ['expire'], 'violation': 'EXPIRE not decoded'}
    got = getattr(MX, 'bytes', bytes)(msg.state.id.spi)
    P(core.SymBytes.lift(got) == spi, 'EXPIRE: SPI decoded to other bytes')
    P((msg.hard != 0) == (hard != 0), 'EXPIRE: hard flag')
    # ack / error reply of a request
    err = eng.sym_int('errno', -4095, 0)
    s = with_socket()
    N = T['nlmsgerr']
    eb = klayout.encode([(N['error'][0], 4, err, False)], N['__size'])
    port = eng.sym_int('kernel_port_id', 0, 0xFFFFFFFF)

    def reply(request):
        # the reply carries the request's sequence number and an ARBITRARY port id (the kernel puts the id of the sending socket there, which is
        # the process id only for the first netlink socket of a process)
        seq = core.SymBytes.lift(request)[8:12]
        eh = klayout.encode([(0, 4, T['nlmsghdr']['__size'] + len(eb), False), (4, 2, K['NLMSG_ERROR'], False), (8, 4, seq, True), (12, 4, port, False)],
                            T['nlmsghdr']['__size'])
        return core.SymBytes(eh + eb).lower()
    s.reply = reply
    MNL.os = types.SimpleNamespace(getpid=lambda: 1, strerror=lambda e: 'kernel error')
    raised = False
    try:
        MX.Xfrm.flush_sas()
    except MNL.NetlinkError:
        raised = True
    P(err != 0 if raised else err == 0, 'kernel error code != 0 must surface as NetlinkError, 0 (ack) as success')
    return ['expire_error', raised]


def build_instances(tier):
    inst = []
    nat = common.native_of
    plens4 = ((24, 16), (32, 0)) if tier == 'quick' else ((24, 16), (32, 0), (0, 32), (1, 31), (8, 8))
    plens6 = ((64, 48),) if tier == 'quick' else ((64, 48), (128, 0), (0, 128), (1, 127))
    for version, plens in ((4, plens4), (6, plens6)):
        for pl in plens:
            for ipsec in ('esp', 'ah'):
                for mode in (0, 1):
                    for alg in (('aes256_sha256', 'aes256_sha512') if tier == 'quick' else tuple(ALGS)):
                        if tier == 'quick' and (mode == 0) != (ipsec == 'esp') and pl != plens[0]:
                            continue
                        if tier == 'quick' and alg == 'aes256_sha512' and (pl != plens[0] or mode == 0):
                            continue        # the 64-byte key fills the whole key field of the request: one ESP and one AH instance per family
                        inst.append(Instance(f'create_sa v{version} {ipsec} mode={mode} {alg} /{pl[0]},/{pl[1]}', h_create_sa, (version, ipsec, mode, alg, pl),
                                             native=nat(h_create_sa)))
            for direction in (0, 1, 2):
                inst.append(Instance(f'create_policy v{version} dir={direction} /{pl[0]},/{pl[1]}', h_create_policy, (version, direction, direction % 2, pl),
                                     native=nat(h_create_policy)))
        # tunnel mode with protected networks and tunnel endpoints of DIFFERENT address families (6-in-4, 4-in-6)
        outer = 6 if version == 4 else 4
        for ipsec in ('esp', 'ah'):
            inst.append(Instance(f'create_sa v{version} in v{outer} tunnel {ipsec}', h_create_sa, (version, ipsec, 1, 'aes256_sha256', plens[0], outer), native=nat(h_create_sa)))
        for direction in (0, 1, 2):
            inst.append(Instance(f'create_policy v{version} in v{outer} tunnel dir={direction}', h_create_policy, (version, direction, 1, plens[0], outer),
                                 native=nat(h_create_policy)))
        if version == 4:
            for ipsec in ('esp', 'ah'):
                for integ in (('sha256', 'sha512') if tier == 'quick' else ('sha1', 'sha256', 'sha512', 'md5')):
                    for role in ('initiator', 'responder'):
                        for keylen in ((256,) if tier == 'quick' or ipsec == 'ah' else (128, 256)):
                            inst.append(Instance(f'create_child_sa {ipsec} {integ} aes{keylen} {role}', h_create_child_sa, (ipsec, integ, keylen, role, 1 if role == 'initiator' else 0),
                                                 native=nat(h_create_child_sa)))
        inst.append(Instance(f'delete_sa + flush v{version}', h_delete_flush, (version,), native=nat(h_delete_flush)))
        inst.append(Instance(f'sequence of requests v{version}', h_sequence, (version,)))
        inst.append(Instance(f'parse ACQUIRE v{version}', h_acquire, (version,), native=nat(h_acquire)))
    inst.append(Instance('parse EXPIRE / NLMSG_ERROR', h_expire_error, (), native=nat(h_expire_error),
                         must_reach=[('error', lambda o: o == ['expire_error', True]), ('ack', lambda o: o == ['expire_error', False])]))
    return inst


def _load(shim):
    global MODS, MX, MNL
    MODS = world.load(shim=shim) if False else common.load_repo(shim=shim)
    if shim:
        from symx import ctmodel
        MNL, MX = ctmodel.load_against_model(common.REPO)
        n1, bad1 = ctmodel.validate_layouts(MX, MODS['xfrm'])
        n2, bad2 = ctmodel.validate_layouts(MNL, MODS['netlink'])
        if bad1 or bad2 or n1 < 10:
            print('INCONCLUSIVE: ctypes model layout differs from the real ctypes classes:', (bad1 + bad2)[:5])
            raise SystemExit(2)
        import logging
        MX.logging = MNL.logging = types.SimpleNamespace(warning=lambda *a, **k: None, info=lambda *a, **k: None, error=lambda *a, **k: None,
                                                         debug=lambda *a, **k: None)
    else:
        MX, MNL = MODS['xfrm'], MODS['netlink']
    return MODS


def replay_file(path):
    return common.generic_replay_file(path, lambda: build_instances('thorough') + build_instances('quick'), lambda: _load(False))


def main(tier, seed):
    _load(True)
    x, nl = MODS['xfrm'], MODS['netlink']
    chk = Check('C14', tier, seed,
                functions=common.src_hash(x.Xfrm.create_sa, x.Xfrm.create_policy, x.Xfrm.delete_sa, x.Xfrm.flush_sas, x.Xfrm.flush_policies, x.XfrmAddress,
                                          x.XfrmAlgo, x.XfrmSelector, x.XfrmUserSaInfo, x.XfrmUserPolicyInfo, x.XfrmUserTmpl, x.XfrmUserAcquire,
                                          nl.NetlinkProtocol.send_recv, nl.NetlinkProtocol.parse_message, nl.NetlinkProtocol._parse_attributes,
                                          nl.NetlinkProtocol._attribute_factory, nl.NetlinkStructure.parse),
                bounds={'requests': 'create_sa: IPv4/IPv6, ESP/AH, both modes, 1 (thorough 4) algorithm/key-size pairs, 2 (5/4) prefix-length pairs; ALL network and '
                                    'tunnel addresses, both ports, IP protocol, SPI, key bytes, lifetime (-1..2^31-1) symbolic.  create_policy: 3 directions, index '
                                    '32 bit and IPsec protocol byte symbolic as well.  delete_sa, flush_sas, flush_policies',
                        'events': 'ACQUIRE (all addresses, ports, protocol, policy index symbolic), EXPIRE (SPI, hard byte symbolic), NLMSG_ERROR with any error code',
                        'outside': 'what the kernel does with a well-formed request; alignment/layout of architectures other than the host (the table comes from the '
                                   'installed headers and compiler); netlink multi-part replies'},
                assumptions=['the ctypes model reproduces x86-64 ctypes layouts (checked against the real classes on every run; a concrete re-run of each path uses '
                             'the real ctypes modules)', 'the kernel layout is that of the installed <linux/xfrm.h> / <linux/netlink.h>'],
                stubs=['ctypes model (symx/ctmodel.py)', 'netlink socket recorder', 'struct.unpack_from', 'ip_address'])
    chk.extra['kernel_layout_table'] = {k: v['__size'] for k, v in klayout.table().items() if k != 'const'}
    chk.run(build_instances(tier))
    return chk.finish(replay=lambda v: common.native_replay_subprocess('C14', v))
