"""C12 - traffic selectors are only ever narrowed.
Symbolic: every field of two (or more) selectors and of one arbitrary packet.  Oracle: TrafficSelector.is_subset
coincides with inclusion of the denoted packet sets; the responder's narrowing returns selectors contained in both
the proposal and the policy; port <-> selector conversion is exact."""
import ipaddress
from collections import namedtuple
import json
import types

from . import common
from .common import Instance, Check

MODS = None


def _sel(eng, name, ts_type, protos=None):
    from symx import core, shims
    TS = MODS['message'].TrafficSelector
    if isinstance(protos, int):
        proto = protos
        eng.inputs[f'{name}.proto'] = __import__('z3').BitVecVal(protos, 64)
    else:
        proto = eng.sym_int(f'{name}.proto', 0, 255)
    sp = eng.sym_int(f'{name}.sp', 0, 65535)
    ep = eng.sym_int(f'{name}.ep', 0, 65535)
    if ts_type == 7:
        sa = eng.sym_int(f'{name}.sa', 0, 0xFFFFFFFF)
        ea = eng.sym_int(f'{name}.ea', 0, 0xFFFFFFFF)
        cls = ipaddress.IPv4Address
    else:
        sa = eng.sym_int(f'{name}.sa', 0, (1 << 128) - 1, width=136)
        ea = eng.sym_int(f'{name}.ea', 0, (1 << 128) - 1, width=136)
        cls = ipaddress.IPv6Address
    eng.assume(core.sym_and(sp <= ep, sa <= ea))      # a selector denotes a non-empty range (RFC 7296 3.13.1)
    ts = TS(ts_type, proto, sp, ep, shims._mk_addr(cls, sa), shims._mk_addr(cls, ea))
    return ts, (ts_type, proto, sp, ep, sa, ea)


def _pkt(eng, ts_type):
    w = 64 if ts_type == 7 else 136
    return (ts_type, eng.sym_int('pkt.proto', 0, 255), eng.sym_int('pkt.port', 0, 65535),
            eng.sym_int('pkt.addr', 0, 0xFFFFFFFF if ts_type == 7 else (1 << 128) - 1, width=w))


def _in(sel, pkt):
    from symx import core
    t, proto, sp, ep, sa, ea = sel
    pt, pproto, pport, paddr = pkt
    if t != pt:
        return False
    return core.sym_and(core.sym_or(proto == 0, proto == pproto), sp <= pport, pport <= ep, sa <= paddr, paddr <= ea)


def _witness(a, b):
    """a packet in A \\ B whenever A is not a subset of B (built from the first failing dimension)"""
    from symx import core
    ta, pa, spa, epa, saa, eaa = a
    tb, pb, spb, epb, sab, eab = b
    if ta != tb:
        return (ta, core.sym_ite_int(pa == 0, 6, pa), spa, saa)
    proto = core.sym_ite_int(pa == 0, core.sym_ite_int(pb == 7, 8, 7), pa)     # if A is ANY: a protocol B does not cover
    port = core.sym_ite_int(spa < spb, spa, epa)
    addr = core.sym_ite_int(saa < sab, saa, eaa)
    return (ta, proto, port, addr)


def h_subset(ta, tb):
    from symx import core
    eng = core.engine()
    A, a = _sel(eng, 'A', ta)
    B, b = _sel(eng, 'B', tb)
    pkt = _pkt(eng, ta)
    res = A.is_subset(B)
    if not isinstance(res, bool):
        res = bool(res)
    if res:
        eng.prove(core.sym_implies(_in(a, pkt), _in(b, pkt)), 'is_subset returned True but a packet of A is outside B')
    else:
        w = _witness(a, b)
        eng.prove(core.sym_and(_in(a, w), core.sym_not(_in(b, w))),
                  'is_subset returned False although every packet of A is in B (witness construction failed)')
    return ['subset', res]


def h_narrow(ta, n_ts, p_tsi=0, p_peer=0):
    """responder narrowing: real IkeSa._get_ipsec_configuration on symbolic proposed TS lists and a symbolic policy"""
    from symx import core
    eng = core.engine()
    m = MODS['message']
    ikesa = MODS['ikesa']
    tsis, tsrs = [], []
    P = (0, 6, 17)
    for i in range(n_ts):
        tsis.append(_sel(eng, f'tsi{i}', ta, p_tsi))
        tsrs.append(_sel(eng, f'tsr{i}', ta, 0))
    my, my_f = _sel(eng, 'conf.my', ta, 0)
    peer, peer_f = _sel(eng, 'conf.peer', ta, p_peer)
    pkt = _pkt(eng, ta)
    conf = types.SimpleNamespace(my_ts=my, peer_ts=peer, index=1)
    fake = types.SimpleNamespace(configuration=types.SimpleNamespace(protect=[conf]))
    ptsi = m.PayloadTSi([t for t, _ in tsis])
    ptsr = m.PayloadTSr([t for t, _ in tsrs])
    fields = {id(t): f for t, f in tsis + tsrs + [(my, my_f), (peer, peer_f)]}
    try:
        c, chosen_tsr, chosen_tsi = ikesa.IkeSa._get_ipsec_configuration(fake, ptsi, ptsr)
    except m.TsUnacceptable:
        # refused: then no proposed pair is inside the policy and the policy is inside no proposed pair
        for (ti, fi) in tsis:
            for (tr, fr) in tsrs:
                inside = core.sym_and(core.sym_implies(_in(fi, pkt), _in(peer_f, pkt)),
                                      core.sym_implies(_in(fr, pkt), _in(my_f, pkt)))
                # existential over packets is needed here: use the witness construction instead of the free packet
                wi, wr = _witness(fi, peer_f), _witness(fr, my_f)
                not_inside = core.sym_or(core.sym_and(_in(fi, wi), core.sym_not(_in(peer_f, wi))),
                                         core.sym_and(_in(fr, wr), core.sym_not(_in(my_f, wr))))
                eng.prove(not_inside, 'TS_UNACCEPTABLE although a proposed pair lies inside the policy')
        return ['refused']
    fi, fr = fields[id(chosen_tsi)], fields[id(chosen_tsr)]
    in_policy = core.sym_and(core.sym_implies(_in(fi, pkt), _in(peer_f, pkt)), core.sym_implies(_in(fr, pkt), _in(my_f, pkt)))
    eng.prove(in_policy, 'chosen selectors are not contained in the responder policy')
    in_prop_i = core.sym_or(*[core.sym_not(_in(fi, pkt))] + [_in(f, pkt) for _, f in tsis])
    in_prop_r = core.sym_or(*[core.sym_not(_in(fr, pkt))] + [_in(f, pkt) for _, f in tsrs])
    # chosen is contained in ONE proposed selector (stronger than the union): find it by the same witness trick
    one_i = core.sym_or(*[core.sym_not(core.sym_and(_in(fi, _witness(fi, f)), core.sym_not(_in(f, _witness(fi, f)))))
                          for _, f in tsis])
    one_r = core.sym_or(*[core.sym_not(core.sym_and(_in(fr, _witness(fr, f)), core.sym_not(_in(f, _witness(fr, f)))))
                          for _, f in tsrs])
    eng.prove(core.sym_and(in_prop_i, in_prop_r, one_i, one_r), 'chosen selectors are not contained in what the initiator proposed')
    return ['chosen']


def h_initiator(n_ts, mode_conf, notify_kind, sit='new'):
    """one step of the real IkeSa: the initiator of a CREATE_CHILD_SA exchange receives a response whose TSi/TSr selectors (n_ts each, all fields
    symbolic) and transport-mode notification are arbitrary; whatever reaches the kernel must lie inside what it offered and keep the mode"""
    from symx import core
    from . import world, c11
    eng = core.engine()
    m, ik = MODS['message'], MODS['ikesa']
    p = world.Pair(mode=mode_conf)
    req = p.to_state('A', 'NEW_CHILD_REQ_SENT' if sit == 'new' else 'REK_CHILD_REQ_SENT')
    a = p.a
    offered_i, offered_r = list(a.creating_child_sa.tsi), list(a.creating_child_sa.tsr)
    old_b = p.b.child_sas[0] if p.b.child_sas else None
    res = p.send('B', req)
    if sit == 'rekey_deleted':
        # the peer's DELETE of the very CHILD_SA being rekeyed (its hard lifetime ran out) overtakes the rekey answer: the replaced SA is gone from
        # the table when the answer is processed - the answer is still the answer to a REKEY of that SA
        dreq = p.B.call(p.b.process_expire, old_b.inbound_spi, True)
        if dreq is None:
            return ['initiator', 'n/a']
        p.send('A', dreq)
        if a.state.name != 'REK_CHILD_REQ_SENT':
            return ['initiator', 'n/a']
    real_res = m.Message.parse(bytes(res), crypto=a.peer_crypto)
    tsis = [_sel(eng, f'tsi{i}', 7, 6) for i in range(n_ts)]
    tsrs = [_sel(eng, f'tsr{i}', 7, 6) for i in range(n_ts)]
    enc = []
    for x in real_res.encrypted_payloads:
        if x.type == m.Payload.Type.TSi:
            enc.append(m.PayloadTSi([t for t, _ in tsis]))
        elif x.type == m.Payload.Type.TSr:
            enc.append(m.PayloadTSr([t for t, _ in tsrs]))
        elif x.type == m.Payload.Type.NOTIFY and x.notification_type == m.PayloadNOTIFY.Type.USE_TRANSPORT_MODE:
            if notify_kind == 'keep':
                enc.append(x)
        else:
            enc.append(x)
    if notify_kind == 'add' and not any(x.type == m.Payload.Type.NOTIFY for x in enc):
        enc.append(m.PayloadNOTIFY(m.Proposal.Protocol.NONE, m.PayloadNOTIFY.Type.USE_TRANSPORT_MODE))
    msg = m.Message(spi_i=a.spi_i, spi_r=a.spi_r, major=2, minor=0, exchange_type=36, is_response=True, can_use_higher_version=False,
                    is_initiator=False, message_id=a.my_msg_id, payloads=[], encrypted_payloads=enc)
    msg.is_protected = True
    installed = []
    X = ik.xfrm.Xfrm
    saved = X.__dict__['create_child_sa']
    X.create_child_sa = classmethod(lambda cls, ike_sa, child_sa, keyring, is_initiator: installed.append(child_sa))
    c11.MODS = MODS
    try:
        c11.deliver_object(a, p.A, msg)
    finally:
        X.create_child_sa = saved
    if not installed:
        return ['initiator', 'refused']
    ch = installed[0]
    fields = {id(t): f for t, f in tsis + tsrs}
    fi, fr = fields.get(id(ch.tsi)), fields.get(id(ch.tsr))
    if fi is None or fr is None:
        return {'class': ['initiator'], 'violation': 'the installed selectors are not selectors of the response'}
    off_i = [(int(t.ts_type), int(t.ip_proto), t.start_port, t.end_port, int(t.start_addr), int(t.end_addr)) for t in offered_i]
    off_r = [(int(t.ts_type), int(t.ip_proto), t.start_port, t.end_port, int(t.start_addr), int(t.end_addr)) for t in offered_r]
    inside = lambda f, offs: core.sym_or(*[core.sym_not(core.sym_and(_in(f, _witness(f, o)), core.sym_not(_in(o, _witness(f, o))))) for o in offs])
    eng.prove(core.sym_and(inside(fi, off_i), inside(fr, off_r)), 'selectors wider than what the initiator offered reached the kernel (a widened response was installed)')
    if sit in ('rekey', 'rekey_deleted'):
        # for a rekey the selectors equal those of the replaced CHILD_SA (which are the only ones offered)
        same = lambda f, o: core.sym_and(f[1] == o[1], f[2] == o[2], f[3] == o[3], f[4] == o[4], f[5] == o[5])
        eng.prove(core.sym_and(same(fi, off_i[0]), same(fr, off_r[0])), 'the CHILD_SA installed by a rekey has other selectors than the CHILD_SA it replaces (a narrowed response was installed)')
    want_transport = (mode_conf == 'transport')
    has_notify = any(x.type == m.Payload.Type.NOTIFY and x.notification_type == m.PayloadNOTIFY.Type.USE_TRANSPORT_MODE for x in enc)
    if has_notify != want_transport or int(ch.mode) != (0 if want_transport else 1):
        return {'class': ['initiator'], 'violation': 'a response with another transport/tunnel mode than requested was installed'}
    return ['initiator', 'installed']


def h_port():
    from symx import core
    eng = core.engine()
    TS = MODS['message'].TrafficSelector
    port = eng.sym_int('port', 0, 65535)
    q = eng.sym_int('q', 0, 65535)
    ts = TS.from_network(ipaddress.ip_network('10.1.2.0/24'), port, TS.IpProtocol.TCP)
    back = ts.get_port()
    eng.prove(back == port, 'get_port(from_network(port)) != port')
    covers = core.sym_and(ts.start_port <= q, q <= ts.end_port)
    eng.prove(covers == core.sym_or(port == 0, q == port), 'selector built from a port does not denote exactly that port (or all ports for 0)')
    eng.prove(core.sym_and(ts.start_addr == ipaddress.ip_address('10.1.2.0'), ts.end_addr == ipaddress.ip_address('10.1.2.255')),
              'selector addresses differ from the network bounds')
    return ['port']


def h_getport():
    from symx import core
    eng = core.engine()
    ts, f = _sel(eng, 'S', 7)
    _, proto, sp, ep, sa, ea = f
    r = ts.get_port()
    # kernel selector port: 0 (any) exactly for the full range, else the (single) port
    eng.prove(core.sym_implies(core.sym_and(sp == 0, ep == 65535), r == 0), 'full port range not mapped to 0')
    eng.prove(core.sym_implies(core.sym_and(sp == ep), core.sym_or(r == ep, core.sym_and(sp == 0, ep == 65535))), 'single port not preserved')
    return ['getport']


def h_kernel(is_initiator, proto):
    """the REAL Xfrm.create_child_sa for a CHILD_SA whose selectors have arbitrary port ranges: the two kernel SAs carry exactly the tracked networks
    and ports, the inbound one mirrored (peer network:peer port -> my network:my port)"""
    from symx import core
    from . import world, symcrypto
    eng = core.engine()
    m, ik = MODS['message'], MODS['ikesa']
    TS, T, P = m.TrafficSelector, m.Transform, m.Proposal
    mk = lambda name, net: TS(TS.Type.TS_IPV4_ADDR_RANGE, TS.IpProtocol.TCP, eng.sym_int(f'{name}.start_port', 0, 65535), eng.sym_int(f'{name}.end_port', 0, 65535),
                              ipaddress.ip_network(net)[0], ipaddress.ip_network(net)[-1])
    mine, peer = mk('my', '10.1.0.0/16'), mk('peer', '10.2.3.0/24')
    for t in (mine, peer):
        eng.assume(t.start_port <= t.end_port)
    ref_port = lambda t: core.sym_ite_int(core.sym_and(t.start_port == 0, t.end_port == 65535), 0, t.end_port)
    trs = [T(T.Type.INTEG, T.IntegId.AUTH_HMAC_SHA2_256_128), T(T.Type.ESN, T.EsnId.NO_ESN)] + ([T(T.Type.ENCR, T.EncrId.ENCR_AES_CBC, 256)] if proto == 'esp' else [])
    prop = P(1, P.Protocol.ESP if proto == 'esp' else P.Protocol.AH, b'OUT!', trs)
    child = ik.ChildSa(inbound_spi=b'IN!!', outbound_spi=b'OUT!', original_proposal=prop, proposal=prop, tsi=mine, tsr=peer, mode=ik.xfrm.Mode.TUNNEL, lifetime=-1)
    fake = types.SimpleNamespace(my_addr=world.IP1, peer_addr=world.IP2)
    KR = namedtuple('KR', ['sk_ai', 'sk_ar', 'sk_ei', 'sk_er'])
    keyring = KR(b'ai' * 16, b'ar' * 16, b'ei' * 16, b'er' * 16)
    E = world.Endpoint('X', None)
    E.kernel = symcrypto.RecKernel()
    with E:
        ik.xfrm.Xfrm.create_child_sa(fake, child, keyring, is_initiator)
    sas = [x for x in E.kernel.log if x['op'] == 'NEWSA']
    if len(sas) != 2:
        return {'class': ['kernel'], 'violation': f'{len(sas)} kernel SAs requested for one CHILD_SA'}
    out = [x for x in sas if x['spi'] == b'OUT!']
    inn = [x for x in sas if x['spi'] == b'IN!!']
    if len(out) != 1 or len(inn) != 1:
        return {'class': ['kernel'], 'violation': 'the two kernel SAs do not carry the outbound and the inbound SPI'}
    out, inn = out[0], inn[0]
    my_net, peer_net = ipaddress.ip_network('10.1.0.0/16'), ipaddress.ip_network('10.2.3.0/24')
    for sa, what, s_net, d_net, s_t, d_t, src, dst in ((out, 'outbound', my_net, peer_net, mine, peer, world.IP1, world.IP2),
                                                     (inn, 'inbound', peer_net, my_net, peer, mine, world.IP2, world.IP1)):
        if sa['src_selector'] != s_net or sa['dst_selector'] != d_net:
            return {'class': ['kernel'], 'violation': f'{what} SA: selector networks {sa["src_selector"]} -> {sa["dst_selector"]}, tracked {s_net} -> {d_net}'}
        if sa['src'] != src or sa['dst'] != dst:
            return {'class': ['kernel'], 'violation': f'{what} SA: endpoints {sa["src"]} -> {sa["dst"]}'}
        eng.prove(core.sym_and(sa['src_port'] == ref_port(s_t), sa['dst_port'] == ref_port(d_t)),
                  f'{what} SA: the selector ports are not (source = port of the {"local" if what == "outbound" else "peer"} selector, destination = port of the other one)')
        if int(sa['ip_proto']) != 6 or int(sa['mode']) != int(ik.xfrm.Mode.TUNNEL):
            return {'class': ['kernel'], 'violation': f'{what} SA: protocol/mode changed'}
    want = (b'ei' * 16, b'ai' * 16, b'er' * 16, b'ar' * 16) if is_initiator else (b'er' * 16, b'ar' * 16, b'ei' * 16, b'ai' * 16)
    got = (out['sk_e'], out['sk_a'], inn['sk_e'], inn['sk_a'])
    if proto == 'ah':
        want, got = (want[1], want[3]), (got[1], got[3])
    if tuple(got) != tuple(want):
        return {'class': ['kernel'], 'violation': 'the keys of the two directions are not (initiator->responder keys on the SA towards the responder)'}
    return ['kernel', 'ok']


WIRE_NETS = (('10.1.0.0/16', '10.2.3.0/24'), ('192.0.2.1/32', '10.0.0.0/8'), ('0.0.0.0/0', '198.51.100.64/26'), ('2001:db8:1::/48', '2001:db8:2:3::/64'),
             ('::/0', '2001:db8::1/128'), ('10.9.0.0/16', '10.9.0.0/16'))
WIRE_PORTS = ((0, 0), (0, 443), (8080, 0), (1024, 2048))


def h_kernel_wire(is_initiator):
    """the BYTES of the two XFRM_MSG_NEWSA requests that the real Xfrm.create_child_sa / create_sa emit for a CHILD_SA (decoded with the kernel ABI
    table): each selector denotes exactly the tracked networks and ports of its direction - address, prefix length, port and port mask of the
    source taken from the source side, of the destination from the destination side (case split over WIRE_NETS x WIRE_PORTS)"""
    from symx import core
    from . import world, klayout
    eng = core.engine()
    m, ik = MODS['message'], MODS['ikesa']
    TS, T, P = m.TrafficSelector, m.Transform, m.Proposal
    pick = lambda name, opts: opts[eng.concretize(c, 0, len(opts) - 1) if not isinstance((c := eng.sym_int(name, 0, len(opts) - 1)), int) else c]
    my_net, peer_net = (ipaddress.ip_network(x) for x in pick('networks', WIRE_NETS))
    my_port, peer_port = pick('ports', WIRE_PORTS)
    mk = lambda net, port: TS(TS.Type.TS_IPV4_ADDR_RANGE if net.version == 4 else TS.Type.TS_IPV6_ADDR_RANGE, TS.IpProtocol.UDP, port if port else 0, port if port else 65535,
                              net[0], net[-1])
    mine, peer = mk(my_net, my_port), mk(peer_net, peer_port)
    trs = [T(T.Type.INTEG, T.IntegId.AUTH_HMAC_SHA2_256_128), T(T.Type.ESN, T.EsnId.NO_ESN), T(T.Type.ENCR, T.EncrId.ENCR_AES_CBC, 256)]
    prop = P(1, P.Protocol.ESP, b'OUT!', trs)
    child = ik.ChildSa(inbound_spi=b'IN!!', outbound_spi=b'OUT!', original_proposal=prop, proposal=prop, tsi=mine, tsr=peer, mode=ik.xfrm.Mode.TUNNEL, lifetime=-1)
    fake = types.SimpleNamespace(my_addr=world.IP1, peer_addr=world.IP2)
    KR = namedtuple('KR', ['sk_ai', 'sk_ar', 'sk_ei', 'sk_er'])
    world.SWITCH.install(MODS['xfrm'], wire=True)
    world.wire_env(MODS)
    E = world.Endpoint('X', None)
    try:
        with E:
            ik.xfrm.Xfrm.create_child_sa(fake, child, KR(b'ai' * 16, b'ar' * 16, b'ei' * 16, b'er' * 16), is_initiator)
    finally:
        world.SWITCH.install(MODS['xfrm'], wire=False)
    sas = [x for x in E.kernel.log if x['op'] == 'NEWSA']
    if len(sas) != 2:
        return {'class': ['kernel_wire'], 'violation': f'{len(sas)} NEWSA requests'}
    Tb = klayout.table()
    K = Tb['const']
    hl = Tb['nlmsghdr']['__size']
    for sa in sas:
        outbound = bytes(sa['spi']) == b'OUT!'
        s_net, d_net, s_port, d_port = (my_net, peer_net, my_port, peer_port) if outbound else (peer_net, my_net, peer_port, my_port)
        v = klayout.View(sa['raw']).at(hl).sub('xfrm_usersa_info', 'sel')
        n = 4 if s_net.version == 4 else 16
        got = dict(family=v.u('xfrm_selector', 'family'), saddr=bytes(v.raw('xfrm_selector', 'saddr'))[:n], daddr=bytes(v.raw('xfrm_selector', 'daddr'))[:n],
                   plen_s=v.u('xfrm_selector', 'prefixlen_s'), plen_d=v.u('xfrm_selector', 'prefixlen_d'), sport=v.u('xfrm_selector', 'sport', big=True),
                   dport=v.u('xfrm_selector', 'dport', big=True), smask=v.u('xfrm_selector', 'sport_mask'), dmask=v.u('xfrm_selector', 'dport_mask'),
                   proto=v.u('xfrm_selector', 'proto'))
        want = dict(family=K['AF_INET'] if s_net.version == 4 else K['AF_INET6'], saddr=s_net[0].packed, daddr=d_net[0].packed, plen_s=s_net.prefixlen, plen_d=d_net.prefixlen,
                    sport=s_port, dport=d_port, smask=0xFFFF if s_port else 0, dmask=0xFFFF if d_port else 0, proto=17)
        bad = {k: (got[k], want[k]) for k in want if got[k] != want[k]}
        if bad:
            return {'class': ['kernel_wire'], 'violation': f'{"outbound" if outbound else "inbound"} kernel SA for {s_net}:{s_port} -> {d_net}:{d_port}: the selector bytes '
                                                           f'differ from the tracked networks/ports in {sorted(bad)} (got/wanted {bad})'}
    return ['kernel_wire', 'ok']


NET_BASES = {4: ('0.0.0.0', '10.0.0.0', '128.0.0.0', '255.255.255.255', '0.0.0.1'),
             6: ('::', '2001:db8::', '8000::', 'ffff:ffff:ffff:ffff:ffff:ffff:ffff:ffff', '::1', '::1:0:0', '0:0:1::')}


def h_network(version):
    """a selector built from a configured network denotes exactly that network again when it is turned back into the kernel's network/prefix form:
    every prefix length x a set of base addresses (solver-driven case split; the stdlib network arithmetic runs concretely)"""
    from symx import core
    eng = core.engine()
    TS = MODS['message'].TrafficSelector
    bits = 32 if version == 4 else 128
    bases = NET_BASES[version]
    c1 = eng.sym_int('prefixlen', 0, bits)
    plen = eng.concretize(c1, 0, bits) if not isinstance(c1, int) else c1
    c2 = eng.sym_int('base', 0, len(bases) - 1)
    base = int(ipaddress.ip_address(bases[eng.concretize(c2, 0, len(bases) - 1) if not isinstance(c2, int) else c2]))
    mask = ((1 << bits) - 1) ^ ((1 << (bits - plen)) - 1)
    net = ipaddress.IPv6Network((base & mask, plen)) if version == 6 else ipaddress.IPv4Network((base & mask, plen))
    ts = TS.from_network(net, 0, TS.IpProtocol.ANY)
    if ts.start_addr != net[0] or ts.end_addr != net[-1] or int(ts.ts_type) != (7 if version == 4 else 8):
        return {'class': ['network'], 'violation': f'from_network({net}) gives the range {ts.start_addr} - {ts.end_addr} of type {int(ts.ts_type)}'}
    back = ts.get_network()
    if back != net or back.version != version:
        return {'class': ['network'], 'violation': f'the selector of the configured network {net} is handed to the kernel as {back!r}'}
    return ['network', 'ok']


def h_responder_mode(sit, conf_mode):
    """responder: a CREATE_CHILD_SA request (new CHILD_SA / rekey of an existing one) arrives with or without USE_TRANSPORT_MODE (arbitrary): a
    CHILD_SA is installed only in the mode the policy prescribes"""
    from symx import core
    from . import world, c11
    eng = core.engine()
    m, ik = MODS['message'], MODS['ikesa']
    p = world.Pair(mode=conf_mode)
    req = p.to_state('A', 'NEW_CHILD_REQ_SENT' if sit == 'new' else 'REK_CHILD_REQ_SENT')
    b = p.b
    real_req = m.Message.parse(bytes(req), crypto=b.peer_crypto)
    with_notify = eng.sym_bool('use_transport_mode')
    enc = [x for x in real_req.encrypted_payloads
           if not (x.type == m.Payload.Type.NOTIFY and x.notification_type == m.PayloadNOTIFY.Type.USE_TRANSPORT_MODE)]
    if with_notify:
        enc.append(m.PayloadNOTIFY(m.Proposal.Protocol.NONE, m.PayloadNOTIFY.Type.USE_TRANSPORT_MODE))
    msg = m.Message(spi_i=b.spi_i, spi_r=b.spi_r, major=2, minor=0, exchange_type=36, is_response=False, can_use_higher_version=False,
                    is_initiator=True, message_id=b.peer_msg_id, payloads=[], encrypted_payloads=enc)
    msg.is_protected = True
    n_log, n_kids = len(p.B.kernel.log), len(b.child_sas)
    c11.MODS = MODS
    c11.deliver_object(b, p.B, msg)
    new = [x for x in p.B.kernel.log[n_log:] if x['op'] == 'NEWSA']
    want_transport = (conf_mode == 'transport')
    if new or len(b.child_sas) > n_kids:
        if bool(with_notify) != want_transport:
            return {'class': ['responder_mode'], 'violation': f'{sit}: the policy prescribes {conf_mode} mode, the request asked for '
                                                              f'{"transport" if with_notify else "tunnel"} mode, and a CHILD_SA was installed'}
        if any(int(x['mode']) != (0 if want_transport else 1) for x in new):
            return {'class': ['responder_mode'], 'violation': f'{sit}: kernel SAs installed in another mode than the policy prescribes'}
        return ['responder_mode', 'installed']
    return ['responder_mode', 'refused']


def h_two_entries(order, sit):
    """responder whose connection has TWO overlapping protect entries of different modes (A: tunnel, net <-> net, any protocol; B: transport, host <->
    host, one TCP port), in either order; a CREATE_CHILD_SA request with arbitrary protocol / port ranges between the two hosts and USE_TRANSPORT_MODE
    present or not: whatever is installed is allowed - selectors contained AND mode equal - by ONE entry"""
    from symx import core
    from . import world, c11
    eng = core.engine()
    m, ik, cfm = MODS['message'], MODS['ikesa'], MODS['configuration']
    p = world.Pair(mode='transport')
    eb = dict(p.confdict['bob']['protect'][0])
    ea = dict(eb, index=7, mode='tunnel', ip_proto='any', my_subnet='192.168.0.0/24', peer_subnet='192.168.0.0/24')
    ea.pop('peer_port', None); ea.pop('my_port', None)
    p.confdict['bob']['protect'] = [ea, eb] if order == 'AB' else [eb, ea]
    cf = cfm.Configuration([world.IP1, world.IP2], p.confdict)
    req = p.to_state('A', 'NEW_CHILD_REQ_SENT' if sit == 'new' else 'REK_CHILD_REQ_SENT')
    b = p.b
    b.configuration = cf.get_ike_configuration(world.IP2, world.IP1)       # (the IKE_SA and its first CHILD_SA exist; the policy now has both entries)
    real_req = m.Message.parse(bytes(req), crypto=b.peer_crypto)
    with_notify = eng.sym_bool('use_transport_mode')
    TS = m.TrafficSelector
    proto = eng.sym_int('offer.proto', 0, 255)
    ports = {}
    for side in ('i', 'r'):
        sp, ep = eng.sym_int(f'offer.ts{side}.sp', 0, 65535), eng.sym_int(f'offer.ts{side}.ep', 0, 65535)
        eng.assume(sp <= ep)
        ports[side] = (sp, ep)
    tsi = TS(7, proto, ports['i'][0], ports['i'][1], world.IP1, world.IP1)
    tsr = TS(7, proto, ports['r'][0], ports['r'][1], world.IP2, world.IP2)
    enc = []
    for x in real_req.encrypted_payloads:
        if x.type == m.Payload.Type.NOTIFY and x.notification_type == m.PayloadNOTIFY.Type.USE_TRANSPORT_MODE:
            continue
        if x.type == m.Payload.Type.TSi:
            x = m.PayloadTSi([tsi])
        elif x.type == m.Payload.Type.TSr:
            x = m.PayloadTSr([tsr])
        enc.append(x)
    if with_notify:
        enc.append(m.PayloadNOTIFY(m.Proposal.Protocol.NONE, m.PayloadNOTIFY.Type.USE_TRANSPORT_MODE))
    msg = m.Message(spi_i=b.spi_i, spi_r=b.spi_r, major=2, minor=0, exchange_type=36, is_response=False, can_use_higher_version=False,
                    is_initiator=True, message_id=b.peer_msg_id, payloads=[], encrypted_payloads=enc)
    msg.is_protected = True
    n_log, n_kids = len(p.B.kernel.log), len(b.child_sas)
    c11.MODS = MODS
    c11.deliver_object(b, p.B, msg)
    new = [x for x in p.B.kernel.log[n_log:] if x['op'] == 'NEWSA']
    if not new and len(b.child_sas) == n_kids:
        return ['two_entries', 'refused']
    if len(b.child_sas) != n_kids + 1 and sit == 'new':
        return {'class': ['two_entries'], 'violation': 'kernel SAs installed but no CHILD_SA tracked (or several)'}
    ch = b.child_sas[-1]
    mode_installed = {int(x['mode']) for x in new}
    if len(mode_installed) != 1 or int(ch.mode) not in mode_installed:
        return {'class': ['two_entries'], 'violation': 'the kernel SAs of one CHILD_SA differ in mode / from the tracked mode'}
    mode = mode_installed.pop()

    def inside(ts, pol):
        A = lambda a: int(a) if not hasattr(a, '_ip') or isinstance(a._ip, int) else core.SymInt(a._ip) if not isinstance(a._ip, core.SymInt) else a._ip
        return core.sym_and(core.sym_or(int(pol.ip_proto) == 0, ts.ip_proto == int(pol.ip_proto)), pol.start_port <= ts.start_port, ts.end_port <= pol.end_port,
                            int(pol.start_addr) <= A(ts.start_addr), A(ts.end_addr) <= int(pol.end_addr))
    # the responder's CHILD_SA keeps the peer's side in tsr and its own in tsi (see _process_create_child_sa_negotiation_req)
    allowed = False
    for e in b.configuration.protect:
        both = core.sym_or(core.sym_and(inside(ch.tsi, e.my_ts), inside(ch.tsr, e.peer_ts)), core.sym_and(inside(ch.tsr, e.my_ts), inside(ch.tsi, e.peer_ts)))
        allowed = core.sym_or(allowed, core.sym_and(int(e.mode) == mode, both))
    eng.prove(allowed, f'{sit}, entries {order}: a CHILD_SA was installed in mode {mode} with selectors that no single protect entry of that mode contains')
    if bool(with_notify) != (mode == 0):
        return {'class': ['two_entries'], 'violation': f'{sit}: installed mode {mode} does not match the request (USE_TRANSPORT_MODE {bool(with_notify)})'}
    return ['two_entries', 'installed']


def build_instances(tier):
    inst = [Instance(f'network <-> selector IPv{v}', h_network, (v,), engine_kw={'max_ticks': 10 ** 7}) for v in (4, 6)]
    inst += [Instance(f'kernel selector bytes initiator={i}', h_kernel_wire, (i,), native=common.native_of(h_kernel_wire), engine_kw={'max_ticks': 10 ** 7}) for i in (True, False)]
    for sit in ('new', 'rekey'):
        for cm in ('transport', 'tunnel'):
            inst.append(Instance(f'responder mode {sit} policy={cm}', h_responder_mode, (sit, cm), native=common.native_of(h_responder_mode),
                                 must_reach=[('installed', lambda o: o == ['responder_mode', 'installed']), ('refused', lambda o: o == ['responder_mode', 'refused'])]))
    for order in ('AB', 'BA'):
        for sit in ('new', 'rekey'):
            inst.append(Instance(f'two overlapping entries {order} {sit}', h_two_entries, (order, sit), native=common.native_of(h_two_entries),
                                 must_reach=[('installed', lambda o: o == ['two_entries', 'installed']), ('refused', lambda o: o == ['two_entries', 'refused'])]))
    inst += [Instance(f'kernel SAs initiator={i} {pr}', h_kernel, (i, pr), must_reach=[('ok', lambda o: o == ['kernel', 'ok'])])
            for i in (True, False) for pr in ('esp', 'ah')]
    inst += [Instance(f'is_subset types={a},{b}', h_subset, (a, b),
                     must_reach=[('returns False', lambda o: o == ['subset', False])] +
                                ([('returns True', lambda o: o == ['subset', True])] if a == b else []))
            for a, b in ((7, 7), (8, 8), (7, 8), (8, 7))]
    for ta in (7,):
        for n, pi, pp in ((1, 0, 6), (1, 6, 17)):
            inst.append(Instance(f'_get_ipsec_configuration type={ta} protos={pi},{pp} |TSi|=|TSr|={n}', h_narrow, (ta, n, pi, pp),
                                 must_reach=[('refused', lambda o: o == ['refused'])]))
    for n in ((1, 2) if tier == 'quick' else (1, 2, 3)):
        for mode_conf in ('transport', 'tunnel'):
            for nk in ('keep', 'drop', 'add'):
                if tier == 'quick' and n == 2 and nk != 'keep':
                    continue
                inst.append(Instance(f'initiator response |TS|={n} mode={mode_conf} notify={nk}', h_initiator, (n, mode_conf, nk),
                                     engine_kw={'max_wall_s': 600}))
                if n == 1 and nk == 'keep':
                    inst.append(Instance(f'initiator rekey response |TS|={n} mode={mode_conf} notify={nk}', h_initiator, (n, mode_conf, nk, 'rekey'),
                                         engine_kw={'max_wall_s': 600}))
                    inst.append(Instance(f'initiator rekey response after the peer deleted the replaced SA |TS|={n} mode={mode_conf}', h_initiator,
                                         (n, mode_conf, nk, 'rekey_deleted'), engine_kw={'max_wall_s': 600},
                                         must_reach=[('installed', lambda o: o == ['initiator', 'installed'])]))
    inst.append(Instance('from_network/get_port round trip', h_port, ()))
    inst.append(Instance('get_port', h_getport, ()))
    return inst


def _load_world_native():
    global MODS
    from . import world
    MODS = world.load(shim=False)


def replay_file(path):
    """native replay of a selector counterexample: recompute is_subset and brute-force the packet semantics on the
    boundary packets of both selectors"""
    global MODS
    if json.load(open(path)).get('instance', '').startswith(('initiator response', 'initiator rekey response', 'kernel SAs', 'network <->', 'responder mode', 'kernel selector bytes', 'two overlapping')):
        return common.generic_replay_file(path, lambda: build_instances('thorough') + build_instances('quick'), _load_world_native)
    MODS = common.load_repo(shim=False)
    TS = MODS['message'].TrafficSelector
    v = json.load(open(path))
    inp = v['inputs']
    name = v['instance']

    def mk(p, t):
        cls = ipaddress.IPv4Address if t == 7 else ipaddress.IPv6Address
        return TS(t, inp[f'{p}.proto'], inp[f'{p}.sp'], inp[f'{p}.ep'], cls(inp[f'{p}.sa']), cls(inp[f'{p}.ea']))

    def inside(ts, pkt):
        t, pr, po, ad = pkt
        return (ts.ts_type == t and (ts.ip_proto == 0 or ts.ip_proto == pr) and ts.start_port <= po <= ts.end_port
                and int(ts.start_addr) <= ad <= int(ts.end_addr))

    def packets(*sels):
        out = []
        for s in sels:
            for pr in {int(s.ip_proto), 6, 7, 8, 17}:
                for po in (s.start_port, s.end_port):
                    for ad in (int(s.start_addr), int(s.end_addr)):
                        out.append((int(s.ts_type), pr, po, ad))
        return out

    def truly_subset(a, b):
        return all(inside(b, p) for p in packets(a, b) if inside(a, p))
    if name.startswith('is_subset'):
        ta, tb = (int(x) for x in name.split('=')[1].split(','))
        A, B = mk('A', ta), mk('B', tb)
        got = A.is_subset(B)
        want = truly_subset(A, B)
        print('native is_subset =', got, ' packet-set inclusion =', want)
        return 1 if got != want else 0
    if name.startswith('_get_ipsec'):
        ta = int(name.split('type=')[1].split()[0]); n = int(name.rsplit('=', 1)[1])
        m = MODS['message']
        tsis = [mk(f'tsi{i}', ta) for i in range(n)]; tsrs = [mk(f'tsr{i}', ta) for i in range(n)]
        my, peer = mk('conf.my', ta), mk('conf.peer', ta)
        fake = types.SimpleNamespace(configuration=types.SimpleNamespace(protect=[types.SimpleNamespace(my_ts=my, peer_ts=peer, index=1)]))
        try:
            c, ctsr, ctsi = MODS['ikesa'].IkeSa._get_ipsec_configuration(fake, m.PayloadTSi(tsis), m.PayloadTSr(tsrs))
        except m.TsUnacceptable:
            bad = any(truly_subset(i, peer) and truly_subset(r, my) for i in tsis for r in tsrs)
            print('native: refused; some proposed pair inside policy:', bad)
            return 1 if bad else 0
        ok = (truly_subset(ctsi, peer) and truly_subset(ctsr, my) and any(truly_subset(ctsi, x) for x in tsis)
              and any(truly_subset(ctsr, x) for x in tsrs))
        print('native: chosen; contained in policy and proposal:', ok)
        return 0 if ok else 1
    if name.startswith('from_network'):
        ts = TS.from_network(ipaddress.ip_network('10.1.2.0/24'), inp['port'], TS.IpProtocol.TCP)
        ok = ts.get_port() == inp['port'] and ((ts.start_port <= inp['q'] <= ts.end_port) == (inp['port'] == 0 or inp['q'] == inp['port']))
        return 0 if ok else 1
    if name.startswith('get_port'):
        S = mk('S', 7)
        r = S.get_port()
        ok = (r == 0) if (S.start_port, S.end_port) == (0, 65535) else (S.start_port != S.end_port or r == S.end_port)
        return 0 if ok else 1
    return 2


def main(tier, seed):
    global MODS
    from . import world
    MODS = world.load(shim=True)
    m, ik = MODS['message'], MODS['ikesa']
    chk = Check('C12', tier, seed,
                functions=common.src_hash(m.TrafficSelector.is_subset, m.TrafficSelector.from_network, m.TrafficSelector.get_port,
                                          ik.IkeSa._get_ipsec_configuration, m.TrafficSelector.__init__),
                bounds={'selectors': 'every IPv4 and IPv6 range selector: protocol 0..255, ports 0..65535 with start<=end, '
                                     'addresses full width with start<=end; one arbitrary packet',
                        'narrowing': 'TSi/TSr lists of length 1 against a single-entry policy, IPv4, protocol pairs '
                                     '(TSi, policy) in (any,TCP) and (TCP,UDP), TSr/my protocol any, all ports and addresses',
                        'outside': 'TrafficSelector.get_network (stdlib ip_network/supernet loop on symbolic addresses), the mode '
                                   'check and the initiator-side check of a tampered response (need a whole handshake), multi-entry '
                                   'policies, the kernel selector encoding in xfrm.py (ctypes)'},
                assumptions=['a selector denotes a non-empty range (start <= end); empty selectors are outside the claim',
                             'ipaddress.IPv4Address/IPv6Address comparison is the stdlib Python code run on a symbolic _ip'],
                stubs=['enum.EnumType.__call__ (equality chain)', 'ipaddress objects built with a symbolic _ip'])
    chk.run(build_instances(tier))
    return chk.finish(replay=lambda v: common.native_replay_subprocess('C12', v))
