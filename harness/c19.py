"""C19 - configuration is loaded faithfully or rejected cleanly.
The real configuration.Configuration is run on dictionaries produced from the documented grammar:
(a) FAITHFUL: valid dictionaries whose integer leaves (IKE lifetime, DPD interval, CHILD lifetime, ports, index) are solver
    variables and whose algorithm lists / protocol / mode / identity strings are chosen by a solver-driven case split; the loaded
    connections are compared with an independent reading of the same dictionary written here (defaults aes256/sha256/sha256/14,
    900 s, 60 s, 300 s, tunnel, esp, any; no ENCR for AH; NO_ESN appended; order preserved; port 0 <-> 0..65535; identity typing).
(b) CLEAN REJECTION: from a valid base dictionary ONE position (quick; thorough: two) at the connection, auth or protect level is
    replaced by a value of every kind (missing, None, bool, int, numeric string, other string, empty string, list, mapping, float): the
    outcome is ConfigurationError or a Configuration - never any other exception; a local address the daemon does not listen
    on is always rejected.
Honest label: the crash class is kind-driven, so most of (b) is a finite enumeration organised by the solver; the solver decides
the integer leaves of (a)."""
import json
import re
import socket

from . import common, world
from .common import Instance, Check

MODS = None

ENCR = {'aes128': (12, 128), 'aes256': (12, 256)}
INTEG = {'sha256': 12, 'sha512': 14, 'sha1': 2}
PRF = {'sha1': 2, 'sha256': 5, 'sha512': 7}
DH = {'14': 14, '15': 15, '16': 16, '17': 17, '18': 18, '19': 19, '20': 20, '21': 21, 'modp2048': 14, 'modp3072': 15, 'modp4096': 16,
      'modp6144': 17, 'modp8192': 18, 'ecp256': 19, 'ecp384': 20, 'ecp521': 21}
IPPROTO = {'tcp': 6, 'any': 0, 'udp': 17, 'icmp': 1}
ID_STRINGS = ['alice@example.org', 'gw.example.org', '192.0.2.7', '2001:db8::7', '12345', '10.1', '0x0a000001', '10.0.0.1 backup-gw', '1.2.3',
              '256.1.1.1', 'a@b', '@', '::', '1.2.3.4.5', 'host_name', 'https://github.com/alejandro-perez/pyikev2', ' 10.0.0.1', '::ffff:1.2.3.4']


def choose(eng, name, options):
    """solver-driven case split over a finite list"""
    c = eng.sym_int(name, 0, len(options) - 1)
    j = eng.concretize(c, 0, len(options) - 1) if not isinstance(c, int) else c
    return options[j]


def ref_id(text):
    """independent identity typing: strict dotted quad / inet_pton IPv6 / '@' / FQDN"""
    m = re.fullmatch(r'(\d{1,3})\.(\d{1,3})\.(\d{1,3})\.(\d{1,3})', text)
    if m and all(int(x) <= 255 and (x == '0' or not x.startswith('0')) for x in m.groups()):
        return 1, bytes(int(x) for x in m.groups())
    try:
        if ':' in text and '%' not in text:
            return 5, socket.inet_pton(socket.AF_INET6, text)
    except OSError:
        pass
    return (3 if '@' in text else 2), text.encode()


def t_tuple(t):
    return (int(t.type), int(t.id), t.keylen)


def h_faithful(variant):
    """variant: which dimensions vary (the others take their first / default option): ike_algs, ike_id, ipsec_algs, ipsec_misc"""
    from symx import core
    eng = core.engine()
    real_choose = choose

    def choose_if(dim, name, options):
        if dim in DIMS[variant]:
            return real_choose(eng, name, options)
        return options[0]
    cf, m, x = MODS['configuration'], MODS['message'], MODS['xfrm']
    ike_lifetime = eng.sym_int('ike_lifetime', -2 ** 31, 2 ** 31)
    dpd = eng.sym_int('dpd', -2 ** 31, 2 ** 31)
    lifetime = eng.sym_int('lifetime', -2 ** 31, 2 ** 31)
    my_port = eng.sym_int('my_port', -2 ** 31, 2 ** 31)
    peer_port = eng.sym_int('peer_port', -2 ** 31, 2 ** 31)
    index = eng.sym_int('index', -2 ** 31, 2 ** 31)
    lists2 = lambda names: [[a] for a in names] + [[a, b] for a in names for b in names if a != b]
    encr = choose_if('algs', 'encr', lists2(list(ENCR)) + [None])
    integ = choose_if('algs', 'integ', [['sha256'], ['sha512', 'sha1'], ['sha1', 'sha256', 'sha512'], None])
    if variant.startswith('ike'):
        prf = choose_if('algs', 'prf', [['sha1'], ['sha512', 'sha256'], None])
        dh = choose_if('algs', 'dh', [['14'], ['ecp256', 'modp2048'], [20, 19], ['modp8192', '21', 'ecp384'], None])
        id_a = choose_if('id', 'id', ID_STRINGS + [None])
        ipsec_proto, mode, ip_proto, cdh = 'esp', None, None, None
        c_encr, c_integ = None, None
    else:
        prf, dh, id_a = None, None, 'alice@example.org'
        ipsec_proto = choose(eng, 'ipsec_proto', ['esp', 'ah', None])
        mode = choose_if('misc', 'mode', ['transport', 'tunnel', None])
        ip_proto = choose_if('misc', 'ip_proto', ['tcp', 'udp', 'icmp', 'any', None])
        cdh = choose_if('algs', 'child_dh', [None, [], ['ecp256'], ['14', '19']])
        c_encr, c_integ, encr, integ = encr, integ, None, None
    # pre-shared keys are octet strings: surrounding blanks, tabs, line ends (a YAML block scalar ends in one), inner blanks, non-ASCII text, text that
    # looks like a number, a PEM header or a hexadecimal literal are all part of the secret
    psk1 = choose_if('id', 'psk_mine', PSKS)
    psk2 = PSKS[(PSKS.index(psk1) + 5) % len(PSKS)]
    conn = {'my_addr': '192.0.2.1', 'peer_addr': '192.0.2.2', 'my_auth': {'psk': psk1}, 'peer_auth': {'id': 'bob@example.org', 'psk': psk2},
            'lifetime': ike_lifetime, 'dpd': dpd}
    if id_a is not None:
        conn['my_auth']['id'] = id_a
    for k, v in (('encr', encr), ('integ', integ), ('prf', prf), ('dh', dh)):
        if v is not None:
            conn[k] = v
    prot = {'lifetime': lifetime, 'my_port': my_port, 'peer_port': peer_port, 'index': index, 'my_subnet': '198.51.100.0/24', 'peer_subnet': '203.0.113.128/25'}
    for k, v in (('encr', c_encr), ('integ', c_integ), ('dh', cdh), ('ipsec_proto', ipsec_proto), ('mode', mode), ('ip_proto', ip_proto)):
        if v is not None:
            prot[k] = v
    conn['protect'] = [prot]
    from ipaddress import ip_address, ip_network
    try:
        c = cf.Configuration([ip_address('192.0.2.1')], {'conn1': conn})
    except cf.ConfigurationError as ex:
        return {'class': ['faithful', 'rejected'], 'violation': f'a valid dictionary was rejected: {ex}'}
    key = (ip_address('192.0.2.1'), ip_address('192.0.2.2'))
    if list(c.ike_configurations) != [key]:
        return {'class': ['faithful'], 'violation': 'connections are not keyed by (local, peer) address'}
    ic = c.ike_configurations[key]
    P = eng.prove
    P(core.sym_and(ic.lifetime == ike_lifetime, ic.dpd == dpd), 'IKE lifetime / DPD interval differ from the given values')
    want = [(1,) + ENCR[n] for n in (encr or ['aes256'])] + [(3, INTEG[n], None) for n in (integ or ['sha256'])] + \
           [(2, PRF[n], None) for n in (prf or ['sha256'])] + [(4, DH[str(n)], None) for n in (dh or ['14'])]
    got = [t_tuple(t) for t in ic.proposal.transforms]
    if got != want or int(ic.proposal.protocol_id) != 1:
        return {'class': ['faithful'], 'violation': f'IKE proposal {got} differs from the listed algorithms (or defaults) in order {want}'}
    wt, wd = ref_id(id_a if id_a is not None else 'https://github.com/alejandro-perez/pyikev2')
    if int(ic.my_auth.id.id_type) != wt or bytes(ic.my_auth.id.id_data) != wd:
        return {'class': ['faithful'], 'violation': f'identity {id_a!r} typed as {int(ic.my_auth.id.id_type)}/{bytes(ic.my_auth.id.id_data)!r}, expected {wt}/{wd!r}'}
    if ic.my_auth.psk != psk1.encode() or ic.peer_auth.psk != psk2.encode() or ic.my_auth.privkey is not None or ic.peer_auth.pubkey is not None:
        return {'class': ['faithful'], 'violation': f'credentials differ from the given ones: pre-shared keys {psk1!r} / {psk2!r} loaded as {ic.my_auth.psk!r} / {ic.peer_auth.psk!r}'}
    if ic.name != 'conn1' or ic.my_addr != key[0] or ic.peer_addr != key[1] or len(ic.protect) != 1:
        return {'class': ['faithful'], 'violation': 'name / addresses / number of protect entries differ'}
    pe = ic.protect[0]
    P(core.sym_and(pe.lifetime == lifetime, pe.index == index), 'CHILD_SA lifetime / index differ from the given values')
    proto_id = {'esp': 3, 'ah': 2}[ipsec_proto or 'esp']
    wantc = ([(1,) + ENCR[n] for n in (c_encr or ['aes256'])] if proto_id == 3 else []) + [(3, INTEG[n], None) for n in (c_integ or ['sha256'])] + \
            [(4, DH[str(n)], None) for n in (cdh or [])] + [(5, 0, None)]
    gotc = [t_tuple(t) for t in pe.proposal.transforms]
    if gotc != wantc or int(pe.proposal.protocol_id) != proto_id:
        return {'class': ['faithful'], 'violation': f'IPsec proposal {gotc} (protocol {int(pe.proposal.protocol_id)}) differs from the expected {wantc} (protocol {proto_id})'}
    if int(pe.mode) != {'transport': 0, 'tunnel': 1}[mode or 'tunnel']:
        return {'class': ['faithful'], 'violation': 'mode differs'}
    ipp = IPPROTO[ip_proto or 'any']
    for ts, port, net, nm in ((pe.my_ts, my_port, ip_network('198.51.100.0/24'), 'my'), (pe.peer_ts, peer_port, ip_network('203.0.113.128/25'), 'peer')):
        if int(ts.ip_proto) != ipp or int(ts.ts_type) != 7 or ts.start_addr != net[0] or ts.end_addr != net[-1]:
            return {'class': ['faithful'], 'violation': f'{nm} selector protocol/addresses differ from the configured network'}
        P(core.sym_and(ts.start_port == port, ts.end_port == core.sym_ite_int(port == 0, 65535, port)), f'{nm} selector ports differ from the given port')
    return ['faithful', variant]


PSKS = ['k1', 'k2', ' leading', 'trailing ', 'line end\n', '\ttab\t', 'in ner', 'gr\u00fc\u00dfe', '12345', '0x6b6579', '-----BEGIN PUBLIC KEY-----', ' ']
DIMS = {'ike_algs': ('algs',), 'ike_id': ('id',), 'ipsec_algs': ('algs',), 'ipsec_misc': ('misc',)}
KINDS = ('missing', 'none', 'true', 'int', 'numstr', 'str', 'empty', 'list', 'dict', 'float', 'inf', 'nan', 'negative', 'huge', 'bytes', 'list_of_int', 'list_of_unknown',
         'pem_rsa_priv', 'pem_rsa_pub', 'pem_ec_priv', 'pem_ec_pub', 'pem_ed25519_priv', 'pem_ed25519_pub', 'pem_truncated')
_PEMS = {}


def pems():
    """well-formed PEM keys of several kinds (generated once per process with the cryptography library)"""
    if not _PEMS:
        from cryptography.hazmat.primitives import serialization as ser
        from cryptography.hazmat.primitives.asymmetric import rsa, ec, ed25519
        def priv(k):
            return k.private_bytes(ser.Encoding.PEM, ser.PrivateFormat.PKCS8, ser.NoEncryption()).decode()
        def pub(k):
            return k.public_key().public_bytes(ser.Encoding.PEM, ser.PublicFormat.SubjectPublicKeyInfo).decode()
        r, e, d = rsa.generate_private_key(65537, 1024), ec.generate_private_key(ec.SECP256R1()), ed25519.Ed25519PrivateKey.generate()
        _PEMS.update(pem_rsa_priv=priv(r), pem_rsa_pub=pub(r), pem_ec_priv=priv(e), pem_ec_pub=pub(e), pem_ed25519_priv=priv(d), pem_ed25519_pub=pub(d))
        _PEMS['pem_truncated'] = _PEMS['pem_rsa_priv'][:200]
    return _PEMS


def kind_value(eng, kind, name):
    if kind == 'none':
        return None
    if kind == 'true':
        return True
    if kind == 'int':
        if name.endswith(('subnet', 'addr', '.id')):
            # the stdlib address constructors take integers through C-level type checks: a finite family instead of a symbolic value
            return choose(eng, f'{name}.intchoice', [-1, 0, 7, 2 ** 32 - 1, 2 ** 32, 2 ** 128])
        return eng.sym_int(f'{name}.int', -2 ** 31, 2 ** 31)
    if kind == 'numstr':
        return '17'
    if kind == 'str':
        return 'zzz'
    if kind == 'empty':
        return ''
    if kind == 'list':
        return []
    if kind == 'dict':
        return {}
    if kind == 'float':
        return 1.5
    if kind == 'inf':
        return float('inf')
    if kind == 'nan':
        return float('nan')
    if kind == 'negative':
        return -7
    if kind == 'huge':
        return 2 ** 70
    if kind == 'bytes':
        return b'192.0.2.1'
    if kind == 'list_of_int':
        return [7]
    if kind == 'list_of_unknown':
        return ['rot13', None]
    if kind.startswith('pem_'):
        return pems()[kind]
    raise ValueError(kind)


POSITIONS = [('conn', k) for k in ('my_addr', 'peer_addr', 'my_auth', 'peer_auth', 'lifetime', 'dpd', 'encr', 'integ', 'prf', 'dh', 'protect')] + \
            [('my_auth', k) for k in ('id', 'psk', 'pubkey', 'privkey')] + [('peer_auth', k) for k in ('id', 'psk', 'pubkey')] + \
            [('protect', k) for k in ('index', 'ip_proto', 'mode', 'lifetime', 'my_port', 'peer_port', 'ipsec_proto', 'encr', 'integ', 'dh',
                                      'my_subnet', 'peer_subnet')] + [('top', 'conn1'), ('protect_entry', 0), ('conn_lists', 'all'), ('protect_lists', 'all')]


def base_dict():
    return {'conn1': {'my_addr': '192.0.2.1', 'peer_addr': '192.0.2.2', 'my_auth': {'id': 'alice@example.org', 'psk': 'k1'},
                      'peer_auth': {'id': 'bob@example.org', 'psk': 'k2'}, 'lifetime': 100, 'dpd': 10, 'encr': ['aes256'], 'integ': ['sha256'],
                      'prf': ['sha256'], 'dh': ['ecp256'],
                      'protect': [{'index': 1, 'ip_proto': 'tcp', 'mode': 'transport', 'lifetime': 5, 'my_port': 0, 'peer_port': 23, 'ipsec_proto': 'esp',
                                   'encr': ['aes256'], 'integ': ['sha256'], 'dh': [], 'my_subnet': '198.51.100.0/24', 'peer_subnet': '203.0.113.0/24'}]}}


def apply(d, pos, kind, eng, tag):
    level, key = pos
    if level in ('conn_lists', 'protect_lists'):
        # all algorithm lists of that level at once (e.g. all empty)
        ok = False
        for k in (('encr', 'integ', 'prf', 'dh') if level == 'conn_lists' else ('encr', 'integ', 'dh')):
            ok |= apply(d, ('conn' if level == 'conn_lists' else 'protect', k), kind, eng, tag + k)
        return ok
    if level != 'top' and not isinstance(d.get('conn1'), dict):
        return False            # an earlier mutation replaced / removed the connection itself: nothing below it is left to mutate
    if level == 'top':
        target, k = d, key
    elif level == 'conn':
        target, k = d['conn1'], key
    elif level in ('my_auth', 'peer_auth'):
        target, k = d['conn1'].get(level), key
    elif level == 'protect':
        p = d['conn1'].get('protect')
        target, k = (p[0] if isinstance(p, list) and p and isinstance(p[0], dict) else None), key
    else:
        target, k = d['conn1'].get('protect'), 0
    if not isinstance(target, (dict, list)):
        return False
    if kind == 'missing':
        if isinstance(target, dict):
            target.pop(k, None)
        elif target:
            target.pop(0)
    else:
        v = kind_value(eng, kind, f'{tag}.{level}.{key}')
        if isinstance(target, dict):
            target[k] = v
        elif target:
            target[0] = v
    return True


def h_reject(n_mut, listen_kind, first_pos=None):
    """first_pos: index of the first mutated position (splits the two-mutation exploration into one instance per first position)"""
    from symx import core
    from ipaddress import ip_address
    eng = core.engine()
    cf = MODS['configuration']
    d = base_dict()
    done = []
    for i in range(n_mut):
        pos = choose(eng, f'position{i}', POSITIONS) if not (i == 0 and first_pos is not None) else POSITIONS[first_pos]
        kind = choose(eng, f'kind{i}', KINDS)
        apply(d, pos, kind, eng, f'm{i}')
        done.append(f'{pos[0]}.{pos[1]}={kind}')
    listening = [ip_address('192.0.2.1')] if listen_kind == 'listening' else [ip_address('192.0.2.99')]
    try:
        c = cf.Configuration(listening, d)
    except cf.ConfigurationError:
        return ['reject', 'ConfigurationError']
    except core.EngineAbort:
        raise
    except Exception as ex:      # noqa
        return {'class': ['reject', type(ex).__name__], 'violation': f'{", ".join(done)}: loading failed with {type(ex).__name__} instead of ConfigurationError: {ex}'}
    if listen_kind != 'listening' and c.ike_configurations:
        return {'class': ['reject'], 'violation': f'{", ".join(done)}: a connection whose local address the daemon does not listen on was accepted'}
    for key, ic in c.ike_configurations.items():
        if key != (ic.my_addr, ic.peer_addr):
            return {'class': ['reject'], 'violation': 'connection not keyed by its addresses'}
    return ['reject', 'loaded']


E1 = {'index': 5, 'ip_proto': 'udp', 'mode': 'transport', 'lifetime': 77, 'my_port': 1111, 'peer_port': 2222, 'ipsec_proto': 'ah', 'encr': ['aes128'],
      'integ': ['sha1'], 'dh': ['ecp384'], 'my_subnet': '198.51.100.0/24', 'peer_subnet': '203.0.113.0/24'}
E2 = {'index': 6, 'ip_proto': 'tcp', 'mode': 'tunnel', 'lifetime': 99, 'my_port': 3333, 'peer_port': 4444, 'ipsec_proto': 'esp', 'encr': ['aes256'],
      'integ': ['sha512'], 'dh': ['ecp256'], 'my_subnet': '10.9.0.0/16', 'peer_subnet': '10.8.0.0/16'}


def h_entries():
    """a connection with TWO protect entries; the second one omits an arbitrary key (or all / none): it is loaded exactly as if it were the
    only entry of the connection - nothing leaks from the entry before it (differential with the loader itself)"""
    import copy
    from symx import core
    from ipaddress import ip_address
    eng = core.engine()
    cf = MODS['configuration']
    omit = choose(eng, 'omitted', ['<none>', '<all>'] + sorted(E2))
    e2 = {} if omit == '<all>' else {k: v for k, v in E2.items() if k != omit}
    order = choose(eng, 'first_entry', ['E1', 'E2-full'])
    d_both, d_alone = base_dict(), base_dict()
    d_both['conn1']['protect'] = [copy.deepcopy(E1 if order == 'E1' else dict(E2, index=9)), copy.deepcopy(e2)]
    d_alone['conn1']['protect'] = [copy.deepcopy(e2)]
    listening = [ip_address('192.0.2.1')]
    try:
        both = cf.Configuration(listening, d_both)
        alone = cf.Configuration(listening, d_alone)
    except Exception as ex:      # noqa
        return {'class': ['entries'], 'violation': f'second entry omitting {omit}: loading failed with {type(ex).__name__}: {ex}'}
    p2 = list(both.ike_configurations.values())[0].protect
    p1 = list(alone.ike_configurations.values())[0].protect
    if len(p2) != 2 or len(p1) != 1:
        return {'class': ['entries'], 'violation': f'{len(p2)} / {len(p1)} protect entries loaded'}
    a, b = p2[1], p1[0]
    for f in a._fields:
        if f == 'index' and 'index' not in e2:
            continue
        x, y = getattr(a, f), getattr(b, f)
        same = (x == y) if f != 'proposal' else ([(int(t.type), int(t.id), t.keylen) for t in x.transforms] == [(int(t.type), int(t.id), t.keylen) for t in y.transforms]
                                               and x.protocol_id == y.protocol_id)
        if not same:
            return {'class': ['entries'], 'violation': f'a protect entry that omits {omit} is loaded with {f} = {x} when it follows another entry, but with {y} '
                                                       f'when it stands alone (a value leaks from the previous entry)'}
    return ['entries', omit]


def h_shared():
    """TWO connections with different endpoints whose `protect` is ONE shared object (what a YAML anchor/alias gives: `protect: &p [...]` /
    `protect: *p`), the shared entry omitting an arbitrary key (or all / none); sharing is at the list or at the entry level.  Each connection
    is loaded exactly as if it stood alone with its own copy of the entry (differential with the loader itself), and loading leaves the
    caller's dictionary as it was (a loader that writes defaults back into it makes the first connection's values the second one's)"""
    import copy
    from symx import core
    from ipaddress import ip_address
    eng = core.engine()
    cf = MODS['configuration']
    omit = choose(eng, 'omitted', ['<none>', '<all>'] + sorted(E2))
    level = choose(eng, 'shared_at', ['list', 'entry', 'auth_and_algs'])
    first = choose(eng, 'first_connection', ['conn1', 'conn2'])
    e2 = {} if omit == '<all>' else {k: v for k, v in E2.items() if k != omit}

    def conn(n):
        c = copy.deepcopy(base_dict()['conn1'])
        c['my_addr'], c['peer_addr'] = ('192.0.2.1', '192.0.2.2') if n == 1 else ('192.0.2.11', '192.0.2.12')
        c['peer_auth']['id'] = f'bob{n}@example.org'
        return c
    shared_entry = copy.deepcopy(e2)
    shared_list = [shared_entry]
    c1, c2 = conn(1), conn(2)
    if level == 'list':
        c1['protect'] = c2['protect'] = shared_list
    elif level == 'entry':
        c1['protect'], c2['protect'] = [shared_entry], [shared_entry]
    else:
        c1['protect'], c2['protect'] = [copy.deepcopy(e2)], [copy.deepcopy(e2)]
        for k in ('my_auth', 'encr', 'integ', 'prf', 'dh'):
            c2[k] = c1[k]
        if omit in c1:
            pass
    names = ['conn1', 'conn2'] if first == 'conn1' else ['conn2', 'conn1']
    both = {nm: (c1 if nm == 'conn1' else c2) for nm in names}
    before = copy.deepcopy(both)
    listening = [ip_address('192.0.2.1'), ip_address('192.0.2.11')]
    try:
        cb = cf.Configuration(listening, both)
        alone = {}
        for i, nm in ((1, 'conn1'), (2, 'conn2')):
            d = conn(i)
            d['protect'] = [copy.deepcopy(e2)]
            alone[nm] = cf.Configuration(listening, {nm: d})
    except Exception as ex:      # noqa
        return {'class': ['shared'], 'violation': f'shared protect ({level}) omitting {omit}: loading failed with {type(ex).__name__}: {ex}'}
    if both != before:
        diff = [f'{nm}.protect[0].{k}' for nm in both for k in (set(both[nm]['protect'][0]) ^ set(before[nm]['protect'][0]))] or ['(values)']
        return {'class': ['shared'], 'violation': f'loading changed the dictionary it was given ({", ".join(sorted(set(diff)))}): with a shared '
                                                  f'(aliased) protect object the value written for one connection becomes the other one\'s'}

    def flat(ic):
        out = []
        for f in ic._fields:
            v = getattr(ic, f)
            if f == 'protect':
                for e in v:
                    for g in e._fields:
                        w = getattr(e, g)
                        out.append((f'protect.{g}', ([(int(t.type), int(t.id), t.keylen) for t in w.transforms], int(w.protocol_id)) if g == 'proposal' else w))
            elif f == 'proposal':
                out.append((f, ([(int(t.type), int(t.id), t.keylen) for t in v.transforms], int(v.protocol_id))))
            else:
                out.append((f, norm(v)))
        return out

    def norm(v):
        if type(v).__name__ == 'PayloadID':
            return ('ID', int(v.id_type), bytes(v.id_data))
        if hasattr(v, '_fields'):
            return tuple(norm(getattr(v, g)) for g in v._fields)
        return v
    for nm in ('conn1', 'conn2'):
        peer = (ip_address(both[nm]['my_addr']), ip_address(both[nm]['peer_addr']))
        a = cb.ike_configurations.get(peer)
        b = alone[nm].ike_configurations.get(peer)
        if a is None or b is None:
            return {'class': ['shared'], 'violation': f'{nm} is not loaded under its peer address {peer}'}
        for (fa, x), (fb, y) in zip(flat(a), flat(b)):
            if fa == 'protect.index' and 'index' not in e2:
                continue
            if fa != fb or not (x == y):
                return {'class': ['shared'], 'violation': f'{nm} shares its protect object ({level}, omitting {omit}) with another connection and is loaded with '
                                                          f'{fa} = {x}, but with {y} when it stands alone (a value of the other connection leaks into it)'}
    return ['shared', level, omit]


ORDER_LISTS = {'encr': (['aes256', 'aes128'], ['aes128', 'aes256'], ['aes128', 'aes128'], ['aes128']),
               'integ': (['sha512', 'sha1'], ['sha1', 'sha512'], ['sha1', 'sha1', 'sha512']),
               'dh': (['ecp256', 'modp2048'], ['modp2048', 'ecp256'], ['ecp256'])}


def h_orders():
    """two algorithm lists of the same kind in ONE configuration (IKE level and protect entry, or two protect entries, or two connections) with the
    same set of names in another order / with repetitions: each proposal lists exactly its own names in its own order (differential: the second
    list is loaded as it is when the first one is absent)"""
    import copy
    from symx import core
    from ipaddress import ip_address
    eng = core.engine()
    cf = MODS['configuration']
    kind = choose(eng, 'kind', sorted(ORDER_LISTS))
    l1 = choose(eng, 'first_list', ORDER_LISTS[kind])
    l2 = choose(eng, 'second_list', ORDER_LISTS[kind])
    where = choose(eng, 'where', ['ike_then_protect', 'two_protect_entries', 'two_connections'])

    def build(with_first):
        d = base_dict()
        d['conn1']['protect'][0].pop(kind, None)
        if kind != 'dh':
            d['conn1'].pop(kind, None)
        if where == 'ike_then_protect':
            if with_first:
                d['conn1'][kind] = list(l1)
            d['conn1']['protect'][0][kind] = list(l2)
            pick = lambda c: c.ike_configurations[(ip_address('192.0.2.1'), ip_address('192.0.2.2'))].protect[0].proposal
        elif where == 'two_protect_entries':
            e1 = copy.deepcopy(d['conn1']['protect'][0]); e1['index'] = 8
            e2 = copy.deepcopy(d['conn1']['protect'][0]); e2['index'] = 9
            if with_first:
                e1[kind] = list(l1)
            e2[kind] = list(l2)
            d['conn1']['protect'] = [e1, e2]
            pick = lambda c: c.ike_configurations[(ip_address('192.0.2.1'), ip_address('192.0.2.2'))].protect[1].proposal
        else:
            d['conn2'] = copy.deepcopy(d['conn1'])
            d['conn2']['peer_addr'] = '192.0.2.3'
            if with_first:
                d['conn1'][kind] = list(l1)
            d['conn2'][kind] = list(l2)
            pick = lambda c: c.ike_configurations[(ip_address('192.0.2.1'), ip_address('192.0.2.3'))].proposal
        return d, pick
    try:
        d_both, pick = build(True)
        d_alone, _ = build(False)
        both = cf.Configuration([ip_address('192.0.2.1')], d_both)
        alone = cf.Configuration([ip_address('192.0.2.1')], d_alone)
    except cf.ConfigurationError:
        return ['orders', 'rejected']
    except Exception as ex:      # noqa
        return {'class': ['orders'], 'violation': f'{kind} lists {l1} / {l2} ({where}): loading failed with {type(ex).__name__}: {ex}'}
    tr = lambda p: [(int(t.type), int(t.id), t.keylen) for t in p.transforms]
    if tr(pick(both)) != tr(pick(alone)):
        return {'class': ['orders'], 'violation': f'{where}: after the {kind} list {l1} the later list {l2} is loaded as {tr(pick(both))}, alone it is loaded as '
                                                  f'{tr(pick(alone))} (order / repetitions follow the earlier list)'}
    return ['orders', 'loaded']


RESOLVER = {'one4': ['192.0.2.1'], 'other4': ['192.0.2.77'], 'dual46': ['192.0.2.1', '2001:db8::1'], 'dual64': ['2001:db8::1', '192.0.2.1'],
            'multi': ['192.0.2.77', '192.0.2.1'], 'multi3': ['198.51.100.9', '192.0.2.77', '192.0.2.1'], 'dup': ['192.0.2.1', '192.0.2.1', '192.0.2.77'],
            'nothing': None}
LISTEN_SETS = (('192.0.2.1',), ('192.0.2.77',), ('2001:db8::1',), ('192.0.2.1', '2001:db8::1'), ('192.0.2.77', '198.51.100.9'), ())


def h_resolve():
    """my_addr / peer_addr given as HOST NAMES; the resolver answers with 1-3 addresses in an arbitrary order (case split over RESOLVER) and the
    daemon listens on an arbitrary set: a connection is loaded only with a local address that (a) the name resolves to and (b) the daemon listens on"""
    import socket as _socket
    import types
    from symx import core
    from ipaddress import ip_address
    eng = core.engine()
    cf = MODS['configuration']
    my_name = choose(eng, 'my_name', sorted(RESOLVER))
    peer_name = choose(eng, 'peer_name', ['one4', 'dual64', 'nothing'])
    listening = [ip_address(x) for x in choose(eng, 'listen_set', LISTEN_SETS)]

    def getaddrinfo(host, port, *a, **k):
        name = str(host).split('.')[0]
        if name in RESOLVER:
            if RESOLVER[name] is None:
                raise _socket.gaierror(-2, 'Name or service not known')
            return [((_socket.AF_INET6 if ':' in x else _socket.AF_INET), _socket.SOCK_STREAM, 6, '', (x, 0) if ':' not in x else (x, 0, 0, 0)) for x in RESOLVER[name]]
        return _socket.getaddrinfo(host, port, *a, **k)
    real_socket = cf.socket
    cf.socket = types.SimpleNamespace(getaddrinfo=getaddrinfo, gaierror=_socket.gaierror, **{k: getattr(_socket, k) for k in ('AF_INET', 'AF_INET6', 'error')})
    d = base_dict()
    d['conn1']['my_addr'], d['conn1']['peer_addr'] = f'{my_name}.example.org', f'{peer_name}.example.org'
    try:
        c = cf.Configuration(listening, d)
    except cf.ConfigurationError:
        return ['resolve', 'ConfigurationError']
    except core.EngineAbort:
        raise
    except Exception as ex:      # noqa
        return {'class': ['resolve', type(ex).__name__], 'violation': f'my_addr={my_name} peer_addr={peer_name}: loading failed with {type(ex).__name__} instead of '
                                                                      f'ConfigurationError: {ex}'}
    finally:
        cf.socket = real_socket
    for key, ic in c.ike_configurations.items():
        if key != (ic.my_addr, ic.peer_addr):
            return {'class': ['resolve'], 'violation': 'connection not keyed by its addresses'}
        if ic.my_addr not in listening:
            return {'class': ['resolve'], 'violation': f'my_addr={my_name} (resolves to {RESOLVER[my_name]}), listening on {[str(x) for x in listening]}: the connection was '
                                                       f'loaded with local address {ic.my_addr}, which the daemon does not listen on'}
        if str(ic.my_addr) not in (RESOLVER[my_name] or []) or str(ic.peer_addr) not in (RESOLVER[peer_name] or []):
            return {'class': ['resolve'], 'violation': f'the connection was loaded with addresses {ic.my_addr} / {ic.peer_addr} that the configured names do not resolve to'}
    return ['resolve', 'loaded' if c.ike_configurations else 'empty']


def build_instances(tier):
    inst = []
    nat = common.native_of
    inst.append(Instance('two algorithm lists of one kind in different order', h_orders, (), native=nat(h_orders), engine_kw={'max_ticks': 10 ** 7},
                         must_reach=[('loaded', lambda o: o == ['orders', 'loaded'])]))
    inst.append(Instance('second protect entry omitting keys', h_entries, (), native=nat(h_entries), engine_kw={'max_ticks': 10 ** 7}))
    inst.append(Instance('two connections sharing one protect object (YAML alias)', h_shared, (), native=nat(h_shared), engine_kw={'max_ticks': 10 ** 7},
                         must_reach=[('loaded', lambda o: o[0] == 'shared')]))
    inst.append(Instance('host names, resolver answers and listening sets', h_resolve, (), native=nat(h_resolve), engine_kw={'max_ticks': 10 ** 7},
                         must_reach=[('rejected', lambda o: o == ['resolve', 'ConfigurationError']), ('loaded', lambda o: o == ['resolve', 'loaded'])]))
    for v in ('ike_algs', 'ike_id', 'ipsec_algs', 'ipsec_misc'):
        inst.append(Instance(f'faithful {v}', h_faithful, (v,), native=nat(h_faithful), engine_kw={'max_ticks': 10 ** 7, 'max_wall_s': 1500}))
    inst.append(Instance('one ill-typed / missing value', h_reject, (1, 'listening'), native=nat(h_reject), engine_kw={'max_ticks': 10 ** 7},
                         must_reach=[('rejected', lambda o: o == ['reject', 'ConfigurationError']), ('loaded', lambda o: o == ['reject', 'loaded'])]))
    inst.append(Instance('one ill-typed / missing value, not listening', h_reject, (1, 'other'), native=nat(h_reject), engine_kw={'max_ticks': 10 ** 7}))
    if tier == 'thorough':
        for fp in range(len(POSITIONS)):
            inst.append(Instance(f'two ill-typed / missing values, the first at {POSITIONS[fp][0]}.{POSITIONS[fp][1]}', h_reject, (2, 'listening', fp), native=nat(h_reject),
                                 engine_kw={'max_ticks': 10 ** 7, 'max_wall_s': 3000, 'max_paths': 400000}))
    return inst


def _load(shim):
    global MODS
    MODS = world.load(shim=shim)
    cfm = MODS['configuration']
    if shim:
        import builtins
        from symx import core

        def sym_int_ctor(x=0, *a):
            if isinstance(x, core.SymInt):
                return x
            return builtins.int(x, *a)
        cfm.int = sym_int_ctor
    cfm.random = __import__('types').SimpleNamespace(randint=lambda a, b: world.ENV.randint(a, b))
    if shim:
        from symx import shims
        for tbl in ('_ip_proto_name_to_enum', '_mode_name_to_enum', '_ipsec_proto_name_to_enum', '_encr_name_to_transform', '_integ_name_to_transform',
                    '_prf_name_to_transform', '_dh_name_to_transform'):
            setattr(cfm, tbl, shims.SymDict(getattr(cfm, tbl)))
    return MODS


def replay_file(path):
    return common.generic_replay_file(path, lambda: build_instances('thorough') + build_instances('quick'), lambda: _load(False))


def main(tier, seed):
    _load(True)
    cf = MODS['configuration'].Configuration
    chk = Check('C19', tier, seed,
                functions=common.src_hash(cf.__init__, cf._load_ike_conf, cf._load_ipsec_conf, cf._load_auth_conf, cf._get_payload_id, cf._load_crypto_algs,
                                          cf._load_from_dict, cf._load_ip_network, cf._load_ip_address),
                bounds={'faithful': 'IKE lifetime, DPD, CHILD lifetime, both ports and the index any 32-bit integer (symbolic); algorithm lists of 1-2 names (all ordered '
                                    'pairs) or omitted, 5 DH list shapes (names, numbers, integers), ESP/AH/omitted, both modes/omitted, 4 IP protocols/omitted, 18 identity '
                                    'strings (lax IPv4 forms, IPv6, e-mail, FQDN) or omitted',
                        'rejection': 'one (thorough: two) of 33 positions at connection / auth / protect level replaced by each of 12 kinds of value; listening and '
                                     'not-listening local address',
                        'outside': 'PEM parsing of pubkey/privkey (any non-PEM value is rejected by the library: covered as a kind), DNS resolution of host names, string '
                                   'contents beyond the listed corpus, YAML parsing'},
                assumptions=['the independent reading transcribes the documented grammar (README / example.yaml) and defaults', 'literal IP addresses resolve without DNS'],
                stubs=['configuration.int accepts symbolic ints', 'configuration.random deterministic', 'enum lookup'])
    chk.run(build_instances(tier))
    return chk.finish(replay=lambda v: common.native_replay_subprocess('C19', v))
