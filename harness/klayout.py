"""Kernel ABI table for C14/C15: a generated C program is compiled (gcc, offline) against the installed <linux/xfrm.h> and
<linux/netlink.h> and prints offsetof/sizeof of every field the daemon touches plus the message/attribute constants.  Produced on
every run; nothing of /repo is consulted."""
import json
import os
import shutil
import subprocess
import tempfile

STRUCTS = {
    'nlmsghdr': ['nlmsg_len', 'nlmsg_type', 'nlmsg_flags', 'nlmsg_seq', 'nlmsg_pid'],
    'nlmsgerr': ['error', 'msg'],
    'nlattr': ['nla_len', 'nla_type'],
    'xfrm_selector': ['daddr', 'saddr', 'dport', 'dport_mask', 'sport', 'sport_mask', 'family', 'prefixlen_d', 'prefixlen_s', 'proto', 'ifindex', 'user'],
    'xfrm_id': ['daddr', 'spi', 'proto'],
    'xfrm_lifetime_cfg': ['soft_byte_limit', 'hard_byte_limit', 'soft_packet_limit', 'hard_packet_limit', 'soft_add_expires_seconds',
                          'hard_add_expires_seconds', 'soft_use_expires_seconds', 'hard_use_expires_seconds'],
    'xfrm_usersa_info': ['sel', 'id', 'saddr', 'lft', 'curlft', 'stats', 'seq', 'reqid', 'family', 'mode', 'replay_window', 'flags'],
    'xfrm_userpolicy_info': ['sel', 'lft', 'curlft', 'priority', 'index', 'dir', 'action', 'flags', 'share'],
    'xfrm_user_tmpl': ['id', 'family', 'saddr', 'reqid', 'mode', 'share', 'optional', 'aalgos', 'ealgos', 'calgos'],
    'xfrm_algo': ['alg_name', 'alg_key_len', 'alg_key'],
    'xfrm_usersa_id': ['daddr', 'spi', 'family', 'proto'],
    'xfrm_usersa_flush': ['proto'],
    'xfrm_user_acquire': ['id', 'saddr', 'sel', 'policy', 'aalgos', 'ealgos', 'calgos', 'seq'],
    'xfrm_user_expire': ['state', 'hard'],
}
CONSTS = ['XFRM_MSG_NEWSA', 'XFRM_MSG_DELSA', 'XFRM_MSG_NEWPOLICY', 'XFRM_MSG_ACQUIRE', 'XFRM_MSG_EXPIRE', 'XFRM_MSG_FLUSHSA', 'XFRM_MSG_FLUSHPOLICY',
          'XFRMA_ALG_AUTH', 'XFRMA_ALG_CRYPT', 'XFRMA_TMPL', 'NLM_F_REQUEST', 'NLM_F_ACK', 'NLMSG_ERROR', 'NLMSG_DONE', 'XFRM_POLICY_IN', 'XFRM_POLICY_OUT',
          'XFRM_POLICY_FWD', 'XFRM_MODE_TRANSPORT', 'XFRM_MODE_TUNNEL', 'XFRM_POLICY_ALLOW', 'AF_INET', 'AF_INET6', 'IPPROTO_ESP', 'IPPROTO_AH',
          'XFRMGRP_ACQUIRE', 'XFRMGRP_EXPIRE', 'NETLINK_XFRM']

_CACHE = None


def table():
    global _CACHE
    if _CACHE is not None:
        return _CACHE
    lines = ['#include <stdio.h>', '#include <stddef.h>', '#include <sys/socket.h>', '#include <netinet/in.h>', '#include <linux/netlink.h>',
             '#include <linux/xfrm.h>', 'int main(void){', 'printf("{\\n");']
    for s, fields in STRUCTS.items():
        lines.append(f'printf("\\"{s}\\": {{\\"__size\\": %zu", sizeof(struct {s}));')
        for f in fields:
            if s == 'xfrm_algo' and f == 'alg_key':
                lines.append(f'printf(", \\"{f}\\": [%zu, 0]", offsetof(struct {s}, {f}));')
            else:
                lines.append(f'printf(", \\"{f}\\": [%zu, %zu]", offsetof(struct {s}, {f}), sizeof(((struct {s}*)0)->{f}));')
        lines.append('printf("},\\n");')
    lines.append('printf("\\"const\\": {");')
    for i, c in enumerate(CONSTS):
        lines.append(f'printf("%s\\"{c}\\": %ld", "{", " if i else ""}", (long){c});')
    lines.append('printf("}}\\n"); return 0;}')
    d = tempfile.mkdtemp(prefix='klayout-', dir='/var/tmp')
    try:
        src = os.path.join(d, 'k.c')
        open(src, 'w').write('\n'.join(lines))
        subprocess.run(['gcc', '-o', os.path.join(d, 'k'), src], check=True, capture_output=True)
        out = subprocess.run([os.path.join(d, 'k')], check=True, capture_output=True, text=True).stdout
        _CACHE = json.loads(out)
    finally:
        shutil.rmtree(d, ignore_errors=True)
    return _CACHE


class View:
    """reads kernel fields out of a datagram (bytes or SymBytes) at the offsets of the ABI table"""

    def __init__(self, data, base=0):
        from symx import core
        self.d = core.SymBytes.lift(data)
        self.base = base
        self.t = table()

    def at(self, off):
        return View(self.d, self.base + off)

    def raw(self, struct, field):
        off, size = self.t[struct][field]
        return self.d[self.base + off:self.base + off + size]

    def sub(self, struct, field):
        return View(self.d, self.base + self.t[struct][field][0])

    def u(self, struct, field, big=False):
        """unsigned integer value of a field (host = little endian unless big)"""
        from symx import core
        b = core.SymBytes.lift(self.raw(struct, field))
        items = b.items if big else b.items[::-1]
        return core.SymBytes(items).to_int()

    def s32(self, struct, field):
        from symx import core
        import z3
        v = self.u(struct, field)
        if isinstance(v, int):
            return v - (1 << 32) if v >= 1 << 31 else v
        t = z3.Extract(31, 0, v.t)
        return core._mk_int(z3.SignExt(core.W - 32, t))


def encode(struct_fields, total):
    """build a byte list of `total` bytes from [(offset, size, value, big)] (values: int / SymInt / bytes / SymBytes)"""
    from symx import core, ctmodel
    items = [0] * total
    for off, size, value, big in struct_fields:
        if isinstance(value, (bytes, bytearray, core.SymBytes)):
            its = core.SymBytes.lift(value).items
            its = its + [0] * (size - len(its))
        else:
            its = ctmodel._scalar_items(value, size, big)
        items[off:off + size] = its[:size]
    return items
