"""Models of the C boundaries the proxies cannot cross, installed into the namespaces of the freshly
imported /repo modules (no source edit).  Each model is exact on concrete arguments (it calls the
real function) and symbolic otherwise."""
import builtins
import enum
import hashlib
import hmac as _hmac
import ipaddress
import re
import struct as _struct

import z3

from .core import (Cut, SymInt, SymBool, SymBytes, Unsupported, engine, active, is_sym, _mk_int, _mk_bool, _simp, _bv, W,
                   byte_to_int, as_z3_bool, sym_and, sym_or)

# ----------------------------------------------------------------------------- struct
_FMT_RE = re.compile(r'(\d*)([xcbB?hHiIlLqQsp])')
_SIZES = {'x': 1, 'c': 1, 'b': 1, 'B': 1, '?': 1, 'h': 2, 'H': 2, 'i': 4, 'I': 4, 'l': 4, 'L': 4, 'q': 8, 'Q': 8}


_TOKEN_RE = None


def _resolve_fmt(fmt):
    """a struct format built by string formatting from symbolic sizes ('>{0}s{1}s'.format(key_size, ...)) carries value tokens: each is
    resolved by a case split over its feasible values (sizes: 0..512)"""
    global _TOKEN_RE
    if not isinstance(fmt, str) or '\u27e6' not in fmt:
        return fmt
    import re
    from . import core
    if _TOKEN_RE is None:
        _TOKEN_RE = re.compile('\u27e6(\\d+)\u27e7')
    eng = engine()

    def sub(mo):
        term = core.TOKENS[int(mo.group(1))]
        return str(eng.concretize(core._mk_int(term), 0, 512))
    return _TOKEN_RE.sub(sub, fmt)


def _parse_fmt(fmt):
    if isinstance(fmt, bytes):
        fmt = fmt.decode()
    order = '@'
    if fmt and fmt[0] in '@=<>!':
        order, fmt = fmt[0], fmt[1:]
    if order == '@':
        raise Unsupported('native-alignment struct format with symbolic data')
    big = order in '>!'
    fields = []
    pos = 0
    fmt = fmt.replace(' ', '')
    while pos < len(fmt):
        m = _FMT_RE.match(fmt, pos)
        if not m:
            raise _struct.error('bad char in struct format')
        cnt = int(m.group(1)) if m.group(1) else 1
        code = m.group(2)
        if code == 's':
            fields.append(('s', cnt))
        elif code == 'p':
            raise Unsupported('p format')
        else:
            for _ in range(cnt):
                fields.append((code, _SIZES[code]))
        pos = m.end()
    return big, fields, sum(sz for _, sz in fields)


def _any_sym(args):
    return any(is_sym(a) for a in args)


def unpack_from(fmt, buffer, offset=0):
    fmt = _resolve_fmt(fmt)
    if not isinstance(buffer, SymBytes) and not isinstance(offset, SymInt):
        return _struct.unpack_from(fmt, buffer, offset)
    eng = engine()
    eng.tick()
    buffer = SymBytes.lift(buffer)
    n = len(buffer.items)
    big, fields, size = _parse_fmt(fmt)
    if isinstance(offset, SymInt):
        if eng.branch(offset.t < 0):
            raise Unsupported('negative struct offset')
        if eng.branch(offset.t > n - size):
            raise _struct.error(f'unpack_from requires a buffer of at least {size} bytes')
        offset = eng.concretize(offset, 0, max(0, n - size))
    if offset < 0:
        raise Unsupported('negative struct offset')
    if n - offset < size:
        raise _struct.error(f'unpack_from requires a buffer of at least {size} bytes for unpacking {size} bytes at '
                            f'offset {offset} (actual buffer size is {n})')
    out = []
    pos = offset
    for code, sz in fields:
        chunk = buffer.items[pos:pos + sz]
        pos += sz
        if code == 'x':
            continue
        if code == 's':
            out.append(SymBytes(chunk).lower())
            continue
        if not big:
            chunk = chunk[::-1]
        if all(isinstance(c, int) for c in chunk):
            v = int.from_bytes(bytes(chunk), 'big', signed=code in 'bhilq')
            out.append(bool(v) if code == '?' else v)
            continue
        parts = [z3.BitVecVal(c, 8) if isinstance(c, int) else c for c in chunk]
        t = parts[0] if len(parts) == 1 else z3.Concat(*parts)
        if code in 'bhilq':
            t = z3.SignExt(W - 8 * sz, t) if 8 * sz < W else t
        else:
            if 8 * sz >= W:
                t = z3.ZeroExt(8, t)
            else:
                t = z3.ZeroExt(W - 8 * sz, t)
        v = _mk_int(t)
        out.append(v if code != '?' else (v != 0))
    return tuple(out)


def unpack(fmt, buffer):
    fmt = _resolve_fmt(fmt)
    if not isinstance(buffer, SymBytes):
        return _struct.unpack(fmt, buffer)
    big, fields, size = _parse_fmt(fmt)
    if len(buffer) != size:
        raise _struct.error(f'unpack requires a buffer of {size} bytes')
    return unpack_from(fmt, buffer, 0)


def _pack_items(fmt, args):
    eng = engine()
    eng.tick()
    big, fields, size = _parse_fmt(fmt)
    args = list(args)
    n_args = sum(1 for c, _ in fields if c != 'x')
    if n_args != len(args):
        raise _struct.error(f'pack expected {n_args} items for packing (got {len(args)})')
    items = []
    for code, sz in fields:
        if code == 'x':
            items.extend([0] * sz)
            continue
        a = args.pop(0)
        if code == 's':
            if not isinstance(a, (bytes, bytearray, SymBytes)):
                raise _struct.error("argument for 's' must be a bytes object")
            its = SymBytes.lift(a).items[:sz]
            items.extend(its + [0] * (sz - len(its)))
            continue
        if isinstance(a, SymBool):
            a = SymInt(_bv(a))
        if isinstance(a, SymInt):
            signed = code in 'bhilq'
            lo, hi = (-(1 << (8 * sz - 1)), (1 << (8 * sz - 1)) - 1) if signed else (0, (1 << (8 * sz)) - 1)
            w = a.t.size()
            if eng.branch(z3.Or(a.t < z3.BitVecVal(lo, w), a.t > z3.BitVecVal(hi, w))):
                raise _struct.error('argument out of range')
            bs = [_simp(z3.Extract(8 * i + 7, 8 * i, a.t)) for i in range(sz)]     # little endian order
            bs = [b.as_long() if z3.is_bv_value(b) else b for b in bs]
            if big:
                bs.reverse()
            items.extend(bs)
        else:
            if not isinstance(a, int):
                # enum members are ints; anything else is a struct.error in the real function too
                raise _struct.error('required argument is not an integer')
            items.extend(_struct.pack(('>' if big else '<') + code, a))
    return items


def pack(fmt, *args):
    fmt = _resolve_fmt(fmt)
    if not _any_sym(args):
        return _struct.pack(fmt, *args)
    return SymBytes(_pack_items(fmt, args)).lower()


def pack_into(fmt, buffer, offset, *args):
    fmt = _resolve_fmt(fmt)
    if not _any_sym(args) and not isinstance(buffer, SymBytes) and not isinstance(offset, SymInt):
        return _struct.pack_into(fmt, buffer, offset, *args)
    if not isinstance(buffer, SymBytes):
        raise Unsupported('pack_into of symbolic values into a real bytearray')
    if isinstance(offset, SymInt):
        offset = engine().concretize(offset, 0, len(buffer))
    items = _pack_items(fmt, args)
    if offset < 0 or offset + len(items) > len(buffer.items):
        raise _struct.error('pack_into requires a buffer of at least ... bytes')
    buffer.items[offset:offset + len(items)] = items


# ----------------------------------------------------------------------------- bytes / bytearray
_real_bytes = builtins.bytes
_real_bytearray = builtins.bytearray


class _BytesMeta(type):
    def __instancecheck__(cls, inst):
        return isinstance(inst, (cls._real, SymBytes)) if cls._real is _real_bytes else \
            (isinstance(inst, _real_bytearray) or (isinstance(inst, SymBytes) and inst.mutable))


class sym_bytes(metaclass=_BytesMeta):
    _real = _real_bytes

    def __new__(cls, *a, **k):
        if a and isinstance(a[0], SymBytes):
            return SymBytes(a[0].items, False).lower()
        if a and isinstance(a[0], SymInt):
            return _real_bytes(engine().concretize(a[0], 0, 70000))
        return _real_bytes(*a, **k)

    fromhex = _real_bytes.fromhex


class sym_bytearray(metaclass=_BytesMeta):
    _real = _real_bytearray

    def __new__(cls, *a, **k):
        if a and isinstance(a[0], SymBytes):
            return SymBytes(a[0].items, True)
        if a and isinstance(a[0], SymInt):
            return _real_bytearray(engine().concretize(a[0], 0, 70000))
        return _real_bytearray(*a, **k)

    fromhex = _real_bytearray.fromhex


def sym_range(*a):
    """range() with a symbolic bound: values above engine().range_cap leave the stated bounds (Cut)"""
    if not any(isinstance(x, SymInt) for x in a):
        return builtins.range(*a)
    eng = engine()
    cap = getattr(eng, 'range_cap', 4)
    out = []
    for x in a:
        if isinstance(x, SymInt):
            if eng.branch(x.t > cap):
                raise Cut(f'range bound above the cap {cap}')
            if eng.branch(x.t < 0):
                x = -1
            else:
                x = eng.concretize(x, 0, cap)
        out.append(x)
    return builtins.range(*out)


# ----------------------------------------------------------------------------- enums and dicts
_orig_enum_call = enum.EnumType.__call__


class PseudoMember(SymInt):
    """value of an enum class that equals none of its members (SafeIntEnum._missing_)"""
    __slots__ = ('cls',)

    def __init__(self, cls, t):
        SymInt.__init__(self, t)
        self.cls = cls

    @property
    def name(self):
        return f'{self.cls.__name__}_<sym>'

    @property
    def value(self):
        return SymInt(self.t)

    def __hash__(self):
        # only ever looked up in dicts keyed by members of its own class (none of which it equals)
        return 0x5ca1ab1e

    def __repr__(self):
        return self.name

    __str__ = __repr__

    def __format__(self, spec):
        return self.name


def _enum_call(cls, value, *args, **kw):
    if isinstance(value, SymBool):
        value = SymInt(_bv(value))
    if isinstance(value, SymInt) and not args and not kw and active():
        if isinstance(value, PseudoMember) and value.cls is cls:
            return value
        for m in cls:
            if value == m.value:
                return m
        if any(c.__name__ == 'SafeIntEnum' for c in cls.__mro__):
            return PseudoMember(cls, value.t)
        raise ValueError(f'<symint> is not a valid {cls.__qualname__}')
    return _orig_enum_call(cls, value, *args, **kw)


class SymDict(dict):
    """dict whose lookups with a symbolic key are an equality chain over the keys"""

    def _find(self, k):
        if isinstance(k, PseudoMember):
            # equals no member of its class; keys of other kinds are compared
            for key in dict.keys(self):
                if not isinstance(key, k.cls) and k == key:
                    return key
            return _MISSING
        if isinstance(k, (SymInt, SymBytes)):
            for key in dict.keys(self):
                if k == key:
                    return key
            return _MISSING
        return k if dict.__contains__(self, k) else _MISSING

    def __getitem__(self, k):
        key = self._find(k)
        if key is _MISSING:
            raise KeyError(k)
        return dict.__getitem__(self, key)

    def get(self, k, default=None):
        key = self._find(k)
        return default if key is _MISSING else dict.__getitem__(self, key)

    def __contains__(self, k):
        return self._find(k) is not _MISSING


_MISSING = object()


# ----------------------------------------------------------------------------- hash / set (structural)
class SymHash:
    """idealised collision-free hash: equal iff the hashed structures are equal"""
    __slots__ = ('parts',)

    def __init__(self, parts):
        self.parts = parts

    def __eq__(self, o):
        if not isinstance(o, SymHash):
            return False
        return struct_eq(self.parts, o.parts)

    def __ne__(self, o):
        r = self.__eq__(o)
        return (not r) if isinstance(r, bool) else _mk_bool(z3.Not(r.t))

    __hash__ = None


def struct_eq(a, b):
    if isinstance(a, tuple) and isinstance(b, tuple):
        if len(a) != len(b):
            return False
        return sym_and(*[struct_eq(x, y) for x, y in zip(a, b)]) if a else True
    if isinstance(a, SymHash) or isinstance(b, SymHash):
        return a == b
    if a is None or b is None:
        return a is b
    r = (a == b)
    return r


def _has_sym(x):
    if is_sym(x):
        return True
    if isinstance(x, tuple):
        return any(_has_sym(i) for i in x)
    return False


def sym_hash(x):
    if isinstance(x, tuple):
        if _has_sym(x) or active():
            # always structural while the engine runs: a concrete hash and a structural one are not comparable
            return SymHash(x)
        return builtins.hash(x)
    if is_sym(x):
        return SymHash((x,))
    h = type(x).__hash__
    if h is None:
        raise TypeError(f'unhashable type: {type(x).__name__}')
    if getattr(h, '__module__', None) in ('message',):      # user-defined hash of the repo: may return SymHash
        return h(x)
    return builtins.hash(x)


class SymSet:
    """eq-chain set: membership and equality by structural equality of the elements' own __eq__"""

    def __init__(self, items):
        self.items = []
        for i in items:
            self.items.append(i)

    def _contains(self, x):
        return sym_or(*[(x == y) for y in self.items]) if self.items else False

    def __contains__(self, x):
        return bool(self._contains(x))

    def __eq__(self, o):
        if isinstance(o, (set, frozenset)):
            o = SymSet(list(o))
        if not isinstance(o, SymSet):
            return False
        a = [o._contains(x) for x in self.items]
        b = [self._contains(x) for x in o.items]
        return sym_and(*(a + b)) if (a or b) else True

    def __ne__(self, o):
        r = self.__eq__(o)
        return (not r) if isinstance(r, bool) else _mk_bool(z3.Not(r.t))

    def __iter__(self):
        raise Unsupported('iteration over a symbolic set')

    def __len__(self):
        raise Unsupported('len of a symbolic set')

    __hash__ = None


def sym_set(iterable=()):
    items = list(iterable)
    try:
        for i in items:
            h = sym_hash(i)
            if isinstance(h, SymHash):
                return SymSet(items)
        return builtins.set(items)
    except Unsupported:
        return SymSet(items)


# ----------------------------------------------------------------------------- ipaddress
_real_ip_address = ipaddress.ip_address


_real_v6_str = ipaddress._BaseV6.__dict__['_string_from_ip_int']


def _v6_string_from_ip_int(cls, ip_int=None):
    """text of an IPv6 address whose integer is symbolic: a value token (the stdlib formats with '%x', a C boundary)"""
    if isinstance(ip_int, SymInt):
        from . import core
        return '[v6:' + core.token_of(ip_int.t) + ']'
    return _real_v6_str.__func__(cls, ip_int)


ipaddress._BaseV6._string_from_ip_int = classmethod(_v6_string_from_ip_int)


def _mk_addr(cls, ip):
    o = object.__new__(cls)
    o._ip = ip
    if cls is ipaddress.IPv6Address:
        o._scope_id = None
    return o


def ip_address(a):
    if isinstance(a, SymBytes):
        if a.is_concrete():
            return _real_ip_address(bytes(a.items))
        if len(a) == 4:
            return _mk_addr(ipaddress.IPv4Address, a.to_int())
        if len(a) == 16:
            return _mk_addr(ipaddress.IPv6Address, a.to_int())
        raise ValueError('does not appear to be an IPv4 or IPv6 address')
    if isinstance(a, SymInt):
        # stdlib semantics for an integer argument: IPv4 if it fits 32 bits, else IPv6 if it fits 128 bits
        if a < 0:
            raise ValueError('does not appear to be an IPv4 or IPv6 address')
        if a <= 0xFFFFFFFF:
            return _mk_addr(ipaddress.IPv4Address, a)
        if a.t.size() <= 128 or a <= (1 << 128) - 1:
            return _mk_addr(ipaddress.IPv6Address, a)
        raise ValueError('does not appear to be an IPv4 or IPv6 address')
    return _real_ip_address(a)


def sym_ipv4(eng, name):
    v = eng.sym_int(name, 0, 0xFFFFFFFF)
    return _mk_addr(ipaddress.IPv4Address, v)


# ----------------------------------------------------------------------------- uninterpreted crypto
class UF:
    """Uninterpreted function bytes* -> bytes[n] with functional consistency.  Calls are memoised on
    the structure of their arguments; for structurally different calls of equal shape the Ackermann
    constraint (args equal => results equal) is added to the path condition."""

    def __init__(self, name, injective=False):
        self.name = name
        self.injective = injective      # axiom: equal results => equal arguments (collision-freeness), added per pair of calls

    def calls(self):
        return engine().ackermann.setdefault(self.name, [])

    link_concrete = False   # True: applications to concrete arguments (evaluated by the real function) are recorded as well, so that the
                            # consistency / collision-freeness axioms relate them to the applications on symbolic arguments

    def record(self, value, *args):
        """the real function gave `value` for these concrete arguments"""
        if not self.link_concrete or not active():
            return
        eng = engine()
        if not hasattr(eng, 'ackermann') or not hasattr(eng, '_add'):
            return
        self(len(value), *args, _value=bytes(value))

    def __call__(self, out_len, *args, _value=None):
        eng = engine()
        eng.tick()
        args = [SymBytes.lift(a) if not isinstance(a, (int, str)) else a for a in args]
        key = tuple(a.key() if isinstance(a, SymBytes) else a for a in args)
        calls = self.calls()
        for k, a2, res in calls:
            if k == key and len(res.items) == out_len:
                return res
        if _value is not None:
            res = SymBytes(list(_value))
        else:
            res = SymBytes(eng.sym_byte_terms(f'{self.name}', out_len))
            eng.inputs[f'{self.name}#{len(calls)}'] = list(res.items)
        for k, a2, res2 in calls:
            if _value is not None and res2.is_concrete():
                continue
            if len(res2.items) != out_len or len(a2) != len(args):
                continue
            eqs = []
            ok = True
            for x, y in zip(args, a2):
                if isinstance(x, SymBytes) and isinstance(y, SymBytes):
                    t = x.eq_term(y)
                    eqs.append(t)
                elif x != y:
                    ok = False
                    break
            if not ok:
                continue
            pre = _simp(z3.And(*eqs)) if eqs else z3.BoolVal(True)
            if z3.is_false(pre):
                if self.injective:
                    eng._add(z3.Not(res.eq_term(res2)))
                continue
            if self.injective:
                eng._add(pre == res.eq_term(res2))
            else:
                eng._add(z3.Implies(pre, res.eq_term(res2)))
        calls.append((key, args, res))
        eng.uf_log.append((self.name, args, res))
        return res


HMAC_UF = UF('hmac')
HASH_LEVEL = False      # True: HMAC is expanded per RFC 2104 over an uninterpreted HASH function (and hashlib is modelled)
HASH_UF = UF('hash')


class SymHasher:
    """model of a hashlib object: real hash on concrete data, uninterpreted function otherwise"""
    _sizes = {'sha1': (20, 64), 'sha256': (32, 64), 'sha512': (64, 128), 'md5': (16, 64), 'sha384': (48, 128)}

    def __init__(self, name, data=b''):
        self.name = name
        self.digest_size, self.block_size = self._sizes[name]
        self._chunks = []
        if data is not None and len(data):
            self.update(data)

    def update(self, data):
        self._chunks.append(SymBytes.lift(data) if not isinstance(data, SymBytes) else data)

    def copy(self):
        h = SymHasher(self.name)
        h._chunks = list(self._chunks)
        return h

    def digest(self):
        items = []
        for c in self._chunks:
            items.extend(c.items)
        if all(isinstance(i, int) for i in items):
            return hashlib.new(self.name, bytes(items)).digest()
        return HASH_UF(self.digest_size, self.name, SymBytes(items))

    def hexdigest(self):
        d = self.digest()
        return d.hex()


def model_hash_ctor(name):
    def ctor(data=b''):
        return SymHasher(name, data)
    ctor.__name__ = f'openssl_{name}'
    ctor.hash_name = name
    return ctor


MODEL_HASHLIB = None


def model_hashlib():
    import types as _t
    global MODEL_HASHLIB
    if MODEL_HASHLIB is None:
        MODEL_HASHLIB = _t.SimpleNamespace(**{n: model_hash_ctor(n) for n in SymHasher._sizes})
        MODEL_HASHLIB.new = lambda name, data=b'': SymHasher(name, data)
    return MODEL_HASHLIB


def _hash_name(digestmod):
    if hasattr(digestmod, 'hash_name'):
        return digestmod.hash_name
    return digestmod().name if callable(digestmod) else str(digestmod)


def hmac_rfc2104(key, msg, name):
    """HMAC(K, m) = H((K' ^ opad) || H((K' ^ ipad) || m)), K' = H(K) if len(K) > block size, zero-padded to the block size"""
    size, block = SymHasher._sizes[name]
    k = SymBytes.lift(key)
    if len(k) > block:
        k = SymBytes.lift(SymHasher(name, k).digest())
    k = k.ljust(block, b'\0')
    ipad = k.translate(bytes(x ^ 0x36 for x in range(256)))
    opad = k.translate(bytes(x ^ 0x5C for x in range(256)))
    inner = SymHasher(name, ipad + SymBytes.lift(msg)).digest()
    return SymHasher(name, opad + SymBytes.lift(inner)).digest()


class SymHMAC:
    """drop-in for hmac.HMAC(key, msg, digestmod).digest(): real HMAC when concrete, else UF"""

    def __init__(self, key, msg=None, digestmod=None):
        self.key, self.msg, self.digestmod = key, msg, digestmod
        self.digest_size = digestmod().digest_size if callable(digestmod) else None

    def update(self, data):
        if self.msg is None or len(self.msg) == 0:
            self.msg = data
        else:
            self.msg = SymBytes.lift(self.msg) + data
            if self.msg.is_concrete():
                self.msg = bytes(self.msg.items)

    def copy(self):
        return SymHMAC(self.key, self.msg, self.digestmod)

    def hexdigest(self):
        return self.digest().hex()

    def digest(self):
        k, m = self.key, (self.msg if self.msg is not None else b'')
        if isinstance(k, SymBytes) and k.is_concrete():
            k = bytes(k.items)
        if isinstance(m, SymBytes) and m.is_concrete():
            m = bytes(m.items)
        if not isinstance(k, SymBytes) and not isinstance(m, SymBytes):
            dm = self.digestmod
            if hasattr(dm, 'hash_name'):
                dm = getattr(hashlib, dm.hash_name)
            out = _hmac.HMAC(bytes(k), bytes(m), digestmod=dm).digest()
            if HMAC_UF.link_concrete and not HASH_LEVEL:
                HMAC_UF.record(out, _hash_name(self.digestmod), bytes(k), bytes(m))
            return out
        name = _hash_name(self.digestmod)
        if HASH_LEVEL:
            return hmac_rfc2104(k, m, name)
        size = self.digestmod().digest_size
        return HMAC_UF(size, name, k, m)


ENC_UF = UF('aes_cbc_enc')
DEC_UF = UF('aes_cbc_dec')


class _SizeSet:
    """the key_sizes frozenset of a cryptography algorithm class with a membership test that takes symbolic ints (hashing is a C boundary)"""

    def __init__(self, real):
        self._real = real

    def __contains__(self, x):
        if isinstance(x, SymInt):
            return bool(sym_or(*[x == v for v in sorted(self._real)]))
        return x in self._real

    def __len__(self):
        return len(self._real)

    def __iter__(self):
        return iter(self._real)

    def __getitem__(self, i):
        return self._real[i]        # a frozenset is not subscriptable: same TypeError as the real object

    def __repr__(self):
        return repr(self._real)


class _AlgProxy:
    def __init__(self, real):
        self._real = real
        self.key_sizes = _SizeSet(real.key_sizes)

    def __getattr__(self, name):
        return getattr(self._real, name)

    def __call__(self, *a, **k):
        return self._real(*a, **k)


def install_cipher_model(crypto_mod):
    """Cipher.encrypt/decrypt -> real AES-CBC on concrete arguments, otherwise an uninterpreted
    length-preserving pair with dec(k, iv, enc(k, iv, p)) = p; ValueError when len % 16 != 0."""
    real_enc, real_dec = crypto_mod.Cipher.encrypt, crypto_mod.Cipher.decrypt

    def _conc(x):
        if isinstance(x, SymBytes) and x.is_concrete():
            return bytes(x.items)
        return x

    def encrypt(self, key, iv, data):
        key, iv, data = _conc(key), _conc(iv), _conc(data)
        if not any(isinstance(x, SymBytes) for x in (key, iv, data)):
            return real_enc(self, key, iv, data)
        if len(key) != self.key_size:
            raise crypto_mod.EncrError('Key must be of the indicated size {}'.format(self.key_size))
        if len(iv) != 16:
            raise ValueError('Invalid IV size')
        if len(data) % 16:
            raise ValueError('The length of the provided data is not a multiple of the block length.')
        res = ENC_UF(len(data), key, iv, data)
        engine().ackermann.setdefault('encdec', []).append((SymBytes.lift(key).key(), SymBytes.lift(iv).key(),
                                                             res.key(), SymBytes.lift(data)))
        return res

    def decrypt(self, key, iv, data):
        key, iv, data = _conc(key), _conc(iv), _conc(data)
        if not any(isinstance(x, SymBytes) for x in (key, iv, data)):
            return real_dec(self, key, iv, data)
        if len(key) != self.key_size:
            raise crypto_mod.EncrError('Key must be of the indicated size {}'.format(self.key_size))
        if len(iv) != 16:
            raise ValueError('Invalid IV size')
        if len(data) % 16:
            raise ValueError('The length of the provided data is not a multiple of the block length.')
        kk = (SymBytes.lift(key).key(), SymBytes.lift(iv).key(), SymBytes.lift(data).key())
        for k, i, c, p in engine().ackermann.get('encdec', []):
            if (k, i, c) == kk:
                return p
        return DEC_UF(len(data), key, iv, data)

    crypto_mod.Cipher.encrypt = encrypt
    crypto_mod.Cipher.decrypt = decrypt


def sym_compare_digest(a, b):
    if not isinstance(a, SymBytes) and not isinstance(b, SymBytes):
        return _hmac.compare_digest(a, b)
    a, b = SymBytes.lift(a), SymBytes.lift(b)
    if len(a) != len(b):
        return False
    return a == b


# ----------------------------------------------------------------------------- installation
def install_hash_level(mods):
    """C04 only: hashlib of crypto.py / ikesa.py is the model, HMAC is RFC 2104 over the uninterpreted hash"""
    global HASH_LEVEL
    HASH_LEVEL = True
    mh = model_hashlib()
    c = mods['crypto']
    c.hashlib = mh
    for cls in (c.Prf, c.Integrity):
        d = cls._digestmod_dict
        new = {}
        for k in dict.keys(d):
            v = dict.__getitem__(d, k)
            if isinstance(v, tuple):
                new[k] = (getattr(mh, v[0]().name),) + v[1:]
            else:
                new[k] = getattr(mh, v().name)
        cls._digestmod_dict = SymDict(new)
    mods['ikesa'].hashlib = mh


class _IntMeta(type):
    def __instancecheck__(cls, x):
        return isinstance(x, int)

    def __subclasscheck__(cls, sub):
        return issubclass(sub, int)


class sym_int_type(int, metaclass=_IntMeta):
    """`int` as seen by message.py: int(<symbolic int>) keeps the term, int.from_bytes(<symbolic bytes>) is the big/little-endian term"""

    def __new__(cls, x=0, *a):
        if cls is not sym_int_type:
            return int.__new__(cls, x, *a)          # `int.__new__(EnumClass, value)` in the code under test
        if isinstance(x, SymInt):
            return x
        if hasattr(x, '__symint__'):
            return x.__symint__()                    # durations / instants of the virtual clock: whole seconds, as a term
        return int(x, *a)

    @staticmethod
    def from_bytes(b, byteorder='big', *, signed=False):
        if isinstance(b, SymBytes) and not b.is_concrete():
            if signed:
                raise Unsupported('signed int.from_bytes of symbolic bytes')
            return (b if byteorder == 'big' else SymBytes(b.items[::-1])).to_int()
        return int.from_bytes(bytes(b.items) if isinstance(b, SymBytes) else b, byteorder, signed=signed)


def install(mods):
    """mods: dict name -> imported /repo module"""
    enum.EnumType.__call__ = _enum_call
    m = mods.get('message')
    if m is not None:
        m.unpack_from, m.pack, m.pack_into = unpack_from, pack, pack_into
        m.bytes, m.bytearray = sym_bytes, sym_bytearray
        m.hash, m.set = sym_hash, sym_set
        m.int = sym_int_type
        m.range = sym_range
        m.ip_address = ip_address
        m.Message.type_2_payload = SymDict(m.Message.type_2_payload)
        m.Transform._transform_id_enums = SymDict(m.Transform._transform_id_enums)
    c = mods.get('crypto')
    if c is not None:
        c.HMAC = SymHMAC
        c.bytes = sym_bytes
        c.Prf._digestmod_dict = SymDict(c.Prf._digestmod_dict)
        c.Integrity._digestmod_dict = SymDict(c.Integrity._digestmod_dict)
        c.Cipher._algorithm_dict = SymDict({k: (v if isinstance(v, _AlgProxy) else _AlgProxy(v)) for k, v in dict.items(c.Cipher._algorithm_dict)})
        install_cipher_model(c)
    i = mods.get('ikesa')
    if i is not None:
        i.HMAC = SymHMAC
        i.unpack = unpack
        i.bytes, i.bytearray = sym_bytes, sym_bytearray
        i.int = sym_int_type
    ic = mods.get('ikesacontroller')
    if ic is not None:
        ic.bytes = sym_bytes
    for mod in mods.values():
        if hasattr(mod, 'compare_digest'):
            mod.compare_digest = sym_compare_digest
        # whatever struct functions a module imported by name
        for name, fn in (('pack', pack), ('unpack', unpack), ('unpack_from', unpack_from), ('pack_into', pack_into)):
            if getattr(mod, name, None) is getattr(_struct, name):
                setattr(mod, name, fn)
