"""A pure-Python model of the part of `ctypes` that xfrm.py / netlink.py use, able to hold symbolic values.
The real source of the two modules is imported a second time against this module (load_against_model), so the request-building
code runs unchanged while field values may be SymInt/SymBytes; `bytes(struct)` yields SymBytes.  Layout rules: x86-64 natural
alignment, structure alignment = largest member alignment, BigEndianStructure / __ctype_be__ members big-endian.  Every model
class is compared (size, field offsets, field sizes) with the real ctypes class on every run (validate_layouts)."""
import sys
import types

import z3

from . import core
from .core import SymInt, SymBool, SymBytes


# ----------------------------------------------------------------------------- scalar types
class _ScalarMeta(type):
    def __mul__(cls, n):
        return _array_type(cls, n)

    @property
    def __ctype_be__(cls):
        return _be_variant(cls)


class _Scalar(metaclass=_ScalarMeta):
    _size_, _signed_, _big_ = 1, False, False
    _kind_ = 'scalar'

    def __init__(self, value=0):
        self.value = value


def _mk_scalar(name, size, signed=False):
    return _ScalarMeta(name, (_Scalar,), {'_size_': size, '_signed_': signed, '_big_': False})


c_ubyte = _mk_scalar('c_ubyte', 1)
c_uint16 = _mk_scalar('c_uint16', 2)
c_uint32 = _mk_scalar('c_uint32', 4)
c_uint64 = _mk_scalar('c_uint64', 8)
c_int = _mk_scalar('c_int', 4, True)
_BE = {}


def _be_variant(cls):
    if cls._big_:
        return cls
    if cls not in _BE:
        _BE[cls] = _ScalarMeta(cls.__name__ + '_be', (_Scalar,), {'_size_': cls._size_, '_signed_': cls._signed_, '_big_': True})
    return _BE[cls]


def _align_of(t):
    if t._kind_ == 'scalar':
        return t._size_
    if t._kind_ == 'array':
        return _align_of(t._type_)
    return t._align_


def _size_of(t):
    if t._kind_ == 'scalar':
        return t._size_
    if t._kind_ == 'array':
        return _size_of(t._type_) * t._length_
    return t._size_


def _mask(v, size, signed):
    """value as stored in a field of `size` bytes (ctypes truncates silently)"""
    bits = 8 * size
    if isinstance(v, SymBool):
        v = SymInt(core._bv(v))
    if isinstance(v, SymInt):
        t = v.t
        w = t.size()
        low = z3.Extract(bits - 1, 0, t) if w > bits else (z3.ZeroExt(bits - w, t) if w < bits else t)
        ext = (z3.SignExt if signed else z3.ZeroExt)(max(core.W, bits + 8) - bits, low)
        return core._mk_int(ext)
    v = int(v) & ((1 << bits) - 1)
    if signed and v >= 1 << (bits - 1):
        v -= 1 << bits
    return v


def _scalar_items(v, size, big):
    if isinstance(v, SymBool):
        v = SymInt(core._bv(v))
    if isinstance(v, SymInt):
        t = v.t
        w = t.size()
        if w < 8 * size:
            t = z3.SignExt(8 * size - w, t)
        bs = []
        for i in range(size):
            b = core._simp(z3.Extract(8 * i + 7, 8 * i, t))
            bs.append(b.as_long() if z3.is_bv_value(b) else b)
    else:
        bs = list((int(v) & ((1 << (8 * size)) - 1)).to_bytes(size, 'little'))
    return bs[::-1] if big else bs


def _scalar_load(items, size, big, signed):
    items = list(items) + [0] * (size - len(items))
    if big:
        items = items[::-1]
    if all(isinstance(i, int) for i in items):
        return int.from_bytes(bytes(items), 'little', signed=signed)
    parts = [z3.BitVecVal(i, 8) if isinstance(i, int) else i for i in items[::-1]]
    t = parts[0] if len(parts) == 1 else z3.Concat(*parts)
    width = max(core.W, 8 * size + 8)
    t = (z3.SignExt if signed else z3.ZeroExt)(width - 8 * size, t)
    return core._mk_int(t)


# ----------------------------------------------------------------------------- arrays
class Array:
    _kind_ = 'array'
    _type_, _length_ = None, 0
    _big_ = False

    def __init__(self, *values):
        if len(values) > self._length_:
            raise IndexError('invalid index')
        self._v = [self._default() for _ in range(self._length_)]
        for i, v in enumerate(values):
            self[i] = v

    @classmethod
    def _default(cls):
        return 0 if cls._type_._kind_ == 'scalar' else cls._type_()

    def __len__(self):
        return self._length_

    def __getitem__(self, i):
        if isinstance(i, slice):
            return self._v[i]
        return self._v[i]

    def __setitem__(self, i, v):
        if self._type_._kind_ == 'scalar':
            self._v[i] = _mask(v, self._type_._size_, self._type_._signed_)
        else:
            self._v[i] = v

    def __iter__(self):
        return iter(self._v)

    def _items(self):
        out = []
        big = self._big_ or getattr(self._type_, '_big_', False)
        for v in self._v:
            if self._type_._kind_ == 'scalar':
                out.extend(_scalar_items(v, self._type_._size_, big))
            else:
                out.extend(v._items())
        return out

    def _load(self, items):
        sz = _size_of(self._type_)
        big = self._big_ or getattr(self._type_, '_big_', False)
        for i in range(self._length_):
            chunk = items[i * sz:(i + 1) * sz]
            if not chunk:
                break
            if self._type_._kind_ == 'scalar':
                self._v[i] = _scalar_load(chunk, sz, big, self._type_._signed_)
            else:
                self._v[i]._load(chunk)

    def __bytes__(self):
        return bytes(SymBytes(self._items()))


_ARRAY_TYPES = {}


def _array_type(t, n):
    key = (t, n)
    if key not in _ARRAY_TYPES:
        _ARRAY_TYPES[key] = type(f'{t.__name__}_Array_{n}', (Array,), {'_type_': t, '_length_': n})
    return _ARRAY_TYPES[key]


# ----------------------------------------------------------------------------- structures
class _StructMeta(type):
    def __new__(mcs, name, bases, ns):
        cls = super().__new__(mcs, name, bases, ns)
        fields = ns.get('_fields_')
        if fields is not None:
            big = any(getattr(b, '_is_big_', False) for b in cls.__mro__)
            off, align, layout = 0, 1, []
            for fname, ftype in fields:
                a = _align_of(ftype)
                off = (off + a - 1) // a * a
                layout.append((fname, ftype, off, _size_of(ftype)))
                off += _size_of(ftype)
                align = max(align, a)
            cls._layout_ = layout
            cls._align_ = align
            cls._size_ = (off + align - 1) // align * align
            cls._big_struct_ = big
            cls._names_ = {f[0] for f in layout}
        return cls

    def __mul__(cls, n):
        return _array_type(cls, n)


class Structure(metaclass=_StructMeta):
    _kind_ = 'struct'
    _is_big_ = False
    _layout_, _size_, _align_, _names_ = [], 0, 1, set()

    def __init__(self, *args, **kw):
        d = object.__getattribute__(self, '__dict__')
        for fname, ftype, off, sz in self._layout_:
            if ftype._kind_ == 'scalar':
                d[fname] = 0
            elif ftype._kind_ == 'array':
                inst = ftype()
                inst._big_ = self._big_struct_
                d[fname] = inst
            else:
                d[fname] = ftype()
        for (fname, _, _, _), v in zip(self._layout_, args):
            setattr(self, fname, v)
        for k, v in kw.items():
            if k not in self._names_:
                raise TypeError(f'unexpected keyword {k}')
            setattr(self, k, v)

    def __setattr__(self, name, value):
        for fname, ftype, off, sz in self._layout_:
            if fname == name:
                if ftype._kind_ == 'scalar':
                    if isinstance(value, (bytes, bytearray, str, SymBytes)) or value is None:
                        raise TypeError('an integer is required')
                    self.__dict__[name] = _mask(value, ftype._size_, ftype._signed_)
                elif ftype._kind_ == 'array':
                    if not isinstance(value, Array) or value._length_ != ftype._length_ or value._type_ is not ftype._type_:
                        raise TypeError(f'expected {ftype.__name__} instance, got {type(value).__name__}')
                    inst = ftype()
                    inst._big_ = self._big_struct_
                    inst._v = list(value._v)
                    self.__dict__[name] = inst
                else:
                    if not isinstance(value, ftype):
                        raise TypeError(f'expected {ftype.__name__} instance, got {type(value).__name__}')
                    new = ftype()
                    new._load(value._items())
                    self.__dict__[name] = new
                return
        object.__setattr__(self, name, value)

    def _items(self):
        out = []
        pos = 0
        for fname, ftype, off, sz in self._layout_:
            out.extend([0] * (off - pos))
            v = self.__dict__[fname]
            if ftype._kind_ == 'scalar':
                out.extend(_scalar_items(v, ftype._size_, ftype._big_ or self._big_struct_))
            else:
                out.extend(v._items())
            pos = off + sz
        out.extend([0] * (self._size_ - pos))
        return out

    def _load(self, items):
        items = list(items)
        for fname, ftype, off, sz in self._layout_:
            chunk = items[off:off + sz]
            if not chunk:
                break
            if ftype._kind_ == 'scalar':
                cur = _scalar_items(self.__dict__[fname], ftype._size_, ftype._big_ or self._big_struct_)
                chunk = chunk + cur[len(chunk):]          # a partial memmove overwrites only the leading bytes
                self.__dict__[fname] = _scalar_load(chunk, ftype._size_, ftype._big_ or self._big_struct_, ftype._signed_)
            else:
                self.__dict__[fname]._load(chunk)

    def __bytes__(self):
        return bytes(SymBytes(self._items()))


class BigEndianStructure(Structure):
    _is_big_ = True


def sizeof(x):
    t = x if isinstance(x, type) else type(x)
    return _size_of(t)


def addressof(obj):
    return obj


def memmove(dst, src, n):
    if isinstance(n, SymInt):
        n = core.engine().concretize(n, 0, sizeof(dst))
    items = SymBytes.lift(src).items[:n] if not isinstance(src, (Structure, Array)) else src._items()[:n]
    dst._load(items)


def ct_bytes(x=b'', *a):
    """bytes() of the model-aware namespaces"""
    if isinstance(x, (Structure, Array)):
        return SymBytes(x._items()).lower()
    if isinstance(x, SymBytes):
        return SymBytes(x.items, False).lower()
    return bytes(x, *a)


def ct_bytearray(x=b'', *a):
    if isinstance(x, (Structure, Array)):
        return SymBytes(x._items(), True)
    if isinstance(x, SymBytes):
        return SymBytes(x.items, True)
    return SymBytes(list(bytearray(x, *a)), True)


def as_module():
    m = types.ModuleType('ctypes')
    for k in ('c_ubyte', 'c_uint16', 'c_uint32', 'c_uint64', 'c_int', 'Structure', 'BigEndianStructure', 'Array', 'sizeof', 'addressof', 'memmove'):
        setattr(m, k, globals()[k])
    return m


def load_against_model(repo):
    """import /repo's netlink.py and xfrm.py a second time with `ctypes` = this model -> (netlink, xfrm) module objects"""
    import importlib.util
    from . import shims
    saved = {k: sys.modules.get(k) for k in ('ctypes', 'netlink', 'xfrm')}
    try:
        sys.modules['ctypes'] = as_module()
        out = []
        for name in ('netlink', 'xfrm'):
            sys.modules.pop(name, None)
            spec = importlib.util.spec_from_file_location(name, f'{repo}/{name}.py')
            mod = importlib.util.module_from_spec(spec)
            sys.modules[name] = mod
            spec.loader.exec_module(mod)
            mod.bytes, mod.bytearray = ct_bytes, ct_bytearray
            mod.unpack_from = shims.unpack_from
            out.append(mod)
        out[1].ip_address = shims.ip_address
        return out
    finally:
        for k, v in saved.items():
            if v is None:
                sys.modules.pop(k, None)
            else:
                sys.modules[k] = v


def validate_layouts(model_mod, real_mod):
    """every Structure subclass of the model module has the size / field offsets / field sizes of the real ctypes class"""
    import ctypes
    bad = []
    n = 0
    for name, mcls in vars(model_mod).items():
        if isinstance(mcls, type) and issubclass(mcls, Structure) and mcls._layout_ and hasattr(real_mod, name):
            rcls = getattr(real_mod, name)
            n += 1
            if ctypes.sizeof(rcls) != mcls._size_:
                bad.append(f'{name}: size {mcls._size_} != ctypes {ctypes.sizeof(rcls)}')
            for fname, ftype, off, sz in mcls._layout_:
                rf = getattr(rcls, fname)
                if (rf.offset, rf.size) != (off, sz):
                    bad.append(f'{name}.{fname}: model ({off},{sz}) != ctypes ({rf.offset},{rf.size})')
    return n, bad
