"""symx - a small concolic executor for the real pyikev2 code objects.

Values are proxies (SymInt / SymBool / SymBytes) over z3 bit-vector terms.  A harness function is
re-executed once per path; every `SymBool.__bool__` is a decision that is checked for
satisfiability against the path condition with z3 (both sides), the infeasible side is pruned
and the feasible sibling is queued (DFS by decision prefix).  `Engine.prove` discharges an
assertion on the current path: unsat of (path condition and not assertion) = holds for every
value that follows this path.

Nothing here knows pyikev2; the module shims live in shims.py.
"""
import os
import struct as _struct
import time as _time
import z3

W = 64


class EngineAbort(BaseException):
    """Base of the control-flow exceptions of the engine (never caught by `except Exception`)."""


class Unsupported(EngineAbort):
    """The real code did something the proxies cannot represent: the path is inconclusive."""


class BudgetExceeded(EngineAbort):
    """The per-path step budget was exhausted (used as the non-termination / super-linear oracle)."""


class SolverUnknown(EngineAbort):
    pass


class WallClock(EngineAbort):
    """the instance exceeded its wall-clock budget: inconclusive, never a verdict"""


class Cut(EngineAbort):
    """The path left the stated bounds of the harness (a deliberate, reported cut - not a verdict)."""


_ENGINE = None


def engine():
    if _ENGINE is None:
        raise RuntimeError('no active symx engine')
    return _ENGINE


def active():
    return _ENGINE is not None


# ----------------------------------------------------------------------------- helpers
TOKENS = {}


def token_of(term):
    """a printable token standing for a symbolic term inside formatted text"""
    i = term.get_id()
    TOKENS[i] = term
    return '\u27e6%d\u27e7' % i


def is_sym(x):
    return isinstance(x, (SymInt, SymBool, SymBytes))


def _bv(x, width=W):
    """python int / bool / SymInt -> z3 bit-vector of `width` (sign-extended)."""
    if isinstance(x, SymInt):
        t = x.t
        w = t.size()
        if w == width:
            return t
        if w < width:
            return z3.SignExt(width - w, t)
        raise Unsupported('narrowing a wide SymInt')
    if isinstance(x, SymBool):
        return z3.If(x.t, z3.BitVecVal(1, width), z3.BitVecVal(0, width))
    if isinstance(x, bool):
        return z3.BitVecVal(int(x), width)
    if isinstance(x, int):
        if not (-(1 << (width - 1)) <= x < (1 << (width - 1))):
            raise Unsupported(f'constant {x} does not fit {width} bits')
        return z3.BitVecVal(int(x), width)
    raise TypeError(type(x))


def _width(*xs):
    w = W
    for x in xs:
        if isinstance(x, SymInt):
            w = max(w, x.t.size())
        elif isinstance(x, int) and not isinstance(x, bool):
            bl = x.bit_length() + 2
            if bl > w:
                w = bl
    return w


def _simp(t):
    return z3.simplify(t)


def _mk_int(t):
    t = _simp(t)
    if z3.is_bv_value(t):
        return t.as_signed_long()
    return SymInt(t)


def _mk_bool(t):
    t = _simp(t)
    if z3.is_true(t):
        return True
    if z3.is_false(t):
        return False
    return SymBool(t)


def as_z3_bool(x):
    if isinstance(x, SymBool):
        return x.t
    if isinstance(x, bool):
        return z3.BoolVal(x)
    if isinstance(x, SymInt):
        return x.t != 0
    return z3.BoolVal(bool(x))


def sym_and(*xs):
    return _mk_bool(z3.And(*[as_z3_bool(x) for x in xs]))


def sym_or(*xs):
    return _mk_bool(z3.Or(*[as_z3_bool(x) for x in xs]))


def sym_not(x):
    return _mk_bool(z3.Not(as_z3_bool(x)))


def sym_implies(a, b):
    return _mk_bool(z3.Implies(as_z3_bool(a), as_z3_bool(b)))


def sym_ite_int(c, a, b):
    w = _width(a, b)
    return _mk_int(z3.If(as_z3_bool(c), _bv(a, w), _bv(b, w)))


# ----------------------------------------------------------------------------- SymBool
class SymBool:
    __slots__ = ('t',)

    def __init__(self, t):
        self.t = t

    def __bool__(self):
        return engine().branch(self.t)

    def __eq__(self, o):
        return _mk_bool(self.t == as_z3_bool(o))

    def __ne__(self, o):
        return _mk_bool(self.t != as_z3_bool(o))

    __hash__ = None

    def __and__(self, o):
        return sym_and(self, o)

    __rand__ = __and__

    def __or__(self, o):
        return sym_or(self, o)

    __ror__ = __or__

    def __invert__(self):
        return sym_not(self)

    def __lshift__(self, k):
        return SymInt(_bv(self)) << k

    def __int__(self):
        return int(bool(self))

    __index__ = __int__

    def __repr__(self):
        return '<symbool>'

    def __format__(self, spec):
        return '<symbool>'


# ----------------------------------------------------------------------------- SymInt
class SymInt:
    """Python int semantics on a signed bit-vector wide enough never to wrap for the values this
    code base computes (64 bits; wider for IP addresses).  No-overflow is not assumed silently:
    harness inputs are range-constrained (bytes, 16/32-bit fields) and only + - * by small
    constants, shifts and masks are applied to them."""
    __slots__ = ('t',)

    def __init__(self, t):
        self.t = t

    # arithmetic
    def _bin(self, o, f, swap=False):
        if not isinstance(o, (int, SymInt, SymBool)):
            return NotImplemented
        w = _width(self, o)
        a, b = _bv(self, w), _bv(o, w)
        if swap:
            a, b = b, a
        return _mk_int(f(a, b))

    def __add__(self, o): return self._bin(o, lambda a, b: a + b)
    def __radd__(self, o): return self._bin(o, lambda a, b: a + b, True)
    def __sub__(self, o): return self._bin(o, lambda a, b: a - b)
    def __rsub__(self, o): return self._bin(o, lambda a, b: a - b, True)
    def __mul__(self, o):
        if isinstance(o, (bytes, bytearray, SymBytes, str, list, tuple)):
            return o * engine().concretize(self, 0, 70000)
        return self._bin(o, lambda a, b: a * b)
    def __rmul__(self, o):
        if isinstance(o, (bytes, bytearray, SymBytes, str, list, tuple)):
            return o * engine().concretize(self, 0, 70000)
        return self._bin(o, lambda a, b: a * b, True)
    def __and__(self, o): return self._bin(o, lambda a, b: a & b)
    __rand__ = __and__
    def __or__(self, o): return self._bin(o, lambda a, b: a | b)
    __ror__ = __or__
    def __xor__(self, o): return self._bin(o, lambda a, b: a ^ b)
    __rxor__ = __xor__
    def __lshift__(self, o):
        if isinstance(o, int) and not isinstance(o, bool) and 0 < o <= 1024:
            # python integers do not wrap: a left shift by a constant widens the term (capped)
            w = self.t.size()
            nw = min(w + o, 4096)
            if nw > w:
                return _mk_int(z3.SignExt(nw - w, self.t) << o)
        return self._bin(o, lambda a, b: a << b)
    def __rlshift__(self, o): return self._bin(o, lambda a, b: a << b, True)
    def __rshift__(self, o): return self._bin(o, lambda a, b: a >> b)      # arithmetic shift = python
    def __rrshift__(self, o): return self._bin(o, lambda a, b: a >> b, True)

    @staticmethod
    def _floordiv(a, b):
        # python floor division for b > 0 (the only case used); signed
        q = a / b           # z3 signed division truncates toward zero
        r = z3.SRem(a, b)
        return z3.If(z3.And(r != 0, (r < 0) != (b < 0)), q - 1, q)

    @staticmethod
    def _mod(a, b):
        r = z3.SRem(a, b)
        return z3.If(z3.And(r != 0, (r < 0) != (b < 0)), r + b, r)

    def __floordiv__(self, o): return self._bin(o, SymInt._floordiv)
    def __rfloordiv__(self, o): return self._bin(o, SymInt._floordiv, True)
    def __mod__(self, o): return self._bin(o, SymInt._mod)
    def __rmod__(self, o): return self._bin(o, SymInt._mod, True)
    def __neg__(self): return _mk_int(-self.t)
    def __pos__(self): return self
    def __abs__(self): return _mk_int(z3.If(self.t < 0, -self.t, self.t))
    def __invert__(self): return _mk_int(~self.t)

    def __truediv__(self, o):
        if os.environ.get('SYMX_DEBUG_DIV'):
            import traceback; traceback.print_stack(limit=8)
        raise Unsupported('float division on a symbolic int')

    # comparisons (signed)
    def _cmp(self, o, f):
        if not isinstance(o, (int, SymInt, SymBool)):
            return NotImplemented
        w = _width(self, o)
        return _mk_bool(f(_bv(self, w), _bv(o, w)))

    def __eq__(self, o):
        r = self._cmp(o, lambda a, b: a == b)
        return False if r is NotImplemented else r

    def __ne__(self, o):
        r = self._cmp(o, lambda a, b: a != b)
        return True if r is NotImplemented else r

    def __lt__(self, o): return self._cmp(o, lambda a, b: a < b)
    def __le__(self, o): return self._cmp(o, lambda a, b: a <= b)
    def __gt__(self, o): return self._cmp(o, lambda a, b: a > b)
    def __ge__(self, o): return self._cmp(o, lambda a, b: a >= b)

    def __hash__(self):
        # a value the path condition forces to a single constant hashes like that constant
        if active():
            u = engine().unique_value(self)
            if u is not None:
                return hash(u)
        raise Unsupported('hash() of a symbolic int (un-shimmed dict / set / enum lookup)')

    def __bool__(self):
        return engine().branch(self.t != 0)

    def __index__(self):
        return engine().concretize(self, None, None)

    __int__ = __index__

    def to_bytes(self, length=1, byteorder='big', *, signed=False):
        if isinstance(length, SymInt):
            length = engine().concretize(length, 0, 1024)      # case split over the feasible lengths
        w = self.t.size()
        items = []
        for i in range(length):
            lo = 8 * i
            if lo + 8 <= w:
                items.append(_simp(z3.Extract(lo + 7, lo, self.t)))
            else:
                items.append(0)
        if 8 * length < w - 1:
            hi = 1 << (8 * length)
            if engine().branch(z3.Or(self.t < 0, self.t >= z3.BitVecVal(hi, w))):
                raise OverflowError('int too big to convert')
        if byteorder == 'big':
            items.reverse()
        return SymBytes(items)

    def bit_length(self):
        """number of bits of a NON-NEGATIVE symbolic int (a negative one is refused), as a term"""
        w = self.t.size()
        if engine().branch(self.t < 0):
            raise Unsupported('bit_length of a negative symbolic int')
        rw = max(W, 16)
        bl = z3.BitVecVal(0, rw)
        for i in range(w - 1):
            bl = z3.If(z3.Extract(i, i, self.t) == 1, z3.BitVecVal(i + 1, rw), bl)
        return _mk_int(bl)

    def __repr__(self):
        return token_of(self.t)

    __str__ = __repr__

    def __format__(self, spec):
        return token_of(self.t)


class SymEnumVal(SymInt):
    """a symbolic int standing for the value of an enum field (has .name/.value like a member, compares as an int)"""
    __slots__ = ()

    @property
    def name(self):
        return '<sym>'

    @property
    def value(self):
        return SymInt(self.t)


def byte_to_int(item):
    if isinstance(item, int):
        return item
    return _mk_int(z3.ZeroExt(W - 8, item))


def int_to_byte(v):
    """int / SymInt (assumed 0..255) -> item"""
    if isinstance(v, int):
        return v
    t = _simp(z3.Extract(7, 0, v.t))
    return t.as_long() if z3.is_bv_value(t) else t


# ----------------------------------------------------------------------------- SymBytes
class SymBytes:
    """bytes / bytearray whose length is concrete and whose items are ints or 8-bit z3 terms."""
    __slots__ = ('items', 'mutable')

    def __init__(self, items, mutable=False):
        self.items = list(items)
        self.mutable = mutable

    # -- construction helpers
    @staticmethod
    def lift(x, mutable=None):
        if isinstance(x, SymBytes):
            return x
        if isinstance(x, (bytes, bytearray, memoryview)):
            return SymBytes(list(bytes(x)), isinstance(x, bytearray) if mutable is None else mutable)
        raise TypeError(f'cannot lift {type(x)} to bytes')

    def is_concrete(self):
        return all(isinstance(i, int) for i in self.items)

    def lower(self):
        """-> real bytes/bytearray when every item is concrete, else self"""
        if self.is_concrete():
            return bytearray(self.items) if self.mutable else bytes(self.items)
        return self

    def key(self):
        """structural key (hashable) used to memoise uninterpreted functions"""
        return tuple(i if isinstance(i, int) else ('t', i.get_id()) for i in self.items)

    def __len__(self):
        return len(self.items)

    def __bool__(self):
        return len(self.items) > 0

    def __iter__(self):
        return (byte_to_int(i) for i in self.items)

    def _idx(self, i, n, default, upper):
        """slice bound -> concrete int in [0, n]"""
        if i is None:
            return default
        if isinstance(i, SymInt):
            eng = engine()
            # python clamps; negative bounds are relative to the end
            if eng.branch(i.t < 0):
                if eng.branch(i.t < -n):
                    return 0
                return n + eng.concretize(i, -n, -1)
            if eng.branch(i.t > n):
                return n
            return eng.concretize(i, 0, n)
        if i < 0:
            i += n
            if i < 0:
                i = 0
        if i > n:
            i = n
        return i

    def __getitem__(self, k):
        n = len(self.items)
        if isinstance(k, slice):
            if k.step not in (None, 1):
                if is_sym(k.start) or is_sym(k.stop) or is_sym(k.step):
                    raise Unsupported('symbolic extended slice')
                return SymBytes(self.items[k], self.mutable).lower()
            a = self._idx(k.start, n, 0, n)
            b = self._idx(k.stop, n, n, n)
            return SymBytes(self.items[a:b], self.mutable).lower()
        if isinstance(k, SymInt):
            eng = engine()
            if eng.branch(z3.Or(k.t >= n, k.t < -n)):
                raise IndexError('index out of range')
            k = eng.concretize(k, -n, n - 1)
        return byte_to_int(self.items[k])

    def __setitem__(self, k, v):
        if isinstance(k, slice):
            a, b, _ = k.indices(len(self.items))
            self.items[a:b] = SymBytes.lift(v).items
        else:
            self.items[k] = int_to_byte(v)

    def __add__(self, o):
        if not isinstance(o, (bytes, bytearray, SymBytes, memoryview)):
            return NotImplemented
        return SymBytes(self.items + SymBytes.lift(o).items, self.mutable)

    def __radd__(self, o):
        if not isinstance(o, (bytes, bytearray, memoryview)):
            return NotImplemented
        return SymBytes(list(bytes(o)) + self.items, isinstance(o, bytearray))

    def __iadd__(self, o):
        if self.mutable:
            self.items.extend(SymBytes.lift(o).items)
            return self
        return self.__add__(o)

    def __mul__(self, k):
        if isinstance(k, SymInt):
            k = engine().concretize(k, 0, 70000)
        return SymBytes(self.items * k, self.mutable)

    __rmul__ = __mul__

    def eq_term(self, o):
        if isinstance(o, (bytes, bytearray, memoryview)):
            o = SymBytes.lift(o)
        if not isinstance(o, SymBytes):
            return None
        if len(o.items) != len(self.items):
            return z3.BoolVal(False)
        cs = []
        for a, b in zip(self.items, o.items):
            if isinstance(a, int) and isinstance(b, int):
                if a != b:
                    return z3.BoolVal(False)
            else:
                ta = z3.BitVecVal(a, 8) if isinstance(a, int) else a
                tb = z3.BitVecVal(b, 8) if isinstance(b, int) else b
                cs.append(ta == tb)
        return z3.And(*cs) if cs else z3.BoolVal(True)

    def __eq__(self, o):
        t = self.eq_term(o)
        if t is None:
            return False
        return _mk_bool(t)

    def __ne__(self, o):
        t = self.eq_term(o)
        if t is None:
            return True
        return _mk_bool(z3.Not(t))

    def __hash__(self):
        if self.is_concrete():
            return hash(bytes(self.items))
        raise Unsupported('hash() of symbolic bytes')

    def hex(self, *a):
        # symbolic bytes render as tokens that keep the term (used by the log non-interference check, C20)
        return ''.join('%02x' % i if isinstance(i, int) else token_of(i) for i in self.items)

    def decode(self, encoding='utf-8', errors='strict'):
        if self.is_concrete():
            return bytes(self.items).decode(encoding, errors)
        if errors == 'strict' and encoding.lower().replace('-', '').replace('_', '') in ('utf8', 'ascii'):
            # exact in two regions: a byte 0xFF is never valid UTF-8 / ASCII (UnicodeDecodeError); all bytes below 0x80 decode to themselves (the text keeps
            # value tokens for the symbolic ones).  Anything else (multi-byte sequences) is not modelled.
            sym = [i for i in self.items if not isinstance(i, int)]
            conc_bad = any(isinstance(i, int) and i == 0xFF for i in self.items)
            if conc_bad or engine().branch(z3.Or(*[i == 0xFF for i in sym])):
                raise UnicodeDecodeError(encoding, bytes(i if isinstance(i, int) else 0xFF for i in self.items), 0, 1, 'invalid start byte')
            if all(i < 0x80 for i in self.items if isinstance(i, int)) and engine().branch(z3.And(*[z3.ULT(i, 0x80) for i in sym])):
                return ''.join(chr(i) if isinstance(i, int) else token_of(i) for i in self.items)
            raise Unsupported('strict decode of symbolic bytes that may hold multi-byte sequences')
        if errors == 'strict':
            raise Unsupported('strict decode of symbolic bytes')
        return ''.join(chr(i) if isinstance(i, int) and i < 128 else ('?' if isinstance(i, int) else token_of(i)) for i in self.items)

    def __bytes__(self):
        if self.is_concrete():
            return bytes(self.items)
        raise Unsupported('bytes(SymBytes) reached a C boundary')

    def startswith(self, p):
        return self[:len(p)] == p

    def endswith(self, p):
        return self[len(self) - len(p):] == p if len(p) <= len(self) else False

    def __contains__(self, o):
        # `x in data`: an octet value, or a contiguous run of octets at some offset
        if isinstance(o, (int, SymInt)):
            return bool(sym_or(*[self[i] == o for i in range(len(self.items))])) if self.items else False
        o = SymBytes.lift(o)
        n, k = len(self.items), len(o.items)
        if k > n:
            return False
        if k == 0:
            return True
        terms = [SymBytes(self.items[i:i + k]).eq_term(o) for i in range(n - k + 1)]
        return bool(_mk_bool(_simp(z3.Or(*terms))))

    def __buffer__(self, flags):
        # symbolic octets handed to C code through the buffer protocol (e.g. as the left operand of `in` on real bytes): not modelled - an engine error
        # (inconclusive), never a TypeError the real code would not see
        if self.is_concrete():
            return memoryview(bytes(self.items))
        raise Unsupported('symbolic bytes reached a C boundary through the buffer protocol')

    def ljust(self, width, fill=b' '):
        f = list(bytes(fill))[0]
        return SymBytes(self.items + [f] * max(0, width - len(self.items)), self.mutable)

    def rjust(self, width, fill=b' '):
        f = list(bytes(fill))[0]
        return SymBytes([f] * max(0, width - len(self.items)) + self.items, self.mutable)

    def translate(self, table, delete=b''):
        if delete:
            raise Unsupported('bytes.translate with a delete set on symbolic bytes')
        table = bytes(table)
        out = []
        xor = table[0]
        is_xor = all(table[i] == i ^ xor for i in range(256))
        for it in self.items:
            if isinstance(it, int):
                out.append(table[it])
            elif is_xor:
                out.append(_simp(it ^ z3.BitVecVal(xor, 8)))
            else:
                t = z3.BitVecVal(table[255], 8)
                for i in range(254, -1, -1):
                    t = z3.If(it == i, z3.BitVecVal(table[i], 8), t)
                out.append(t)
        return SymBytes(out, self.mutable)

    def copy(self):
        return SymBytes(self.items, self.mutable)

    def to_int(self, signed=False):
        """big-endian integer value"""
        n = len(self.items)
        if n == 0:
            return 0
        w = max(W, 8 * n + 8)
        parts = [z3.BitVecVal(i, 8) if isinstance(i, int) else i for i in self.items]
        t = parts[0] if n == 1 else z3.Concat(*parts)
        return _mk_int(z3.ZeroExt(w - 8 * n, t))

    def __repr__(self):
        return f'<symbytes {self.hex()}>'

    __str__ = __repr__

    def __format__(self, spec):
        return repr(self)


def concat_items(parts):
    items = []
    for p in parts:
        items.extend(SymBytes.lift(p).items)
    return items


# ----------------------------------------------------------------------------- engine
class PathResult:
    __slots__ = ('outcome', 'decisions', 'model_inputs', 'n_sym_decisions', 'proved', 'failed', 'aborted', 'ticks')

    def __init__(self):
        self.outcome = None
        self.decisions = ()
        self.model_inputs = {}
        self.n_sym_decisions = 0
        self.proved = 0
        self.failed = []      # [(label, inputs)]
        self.aborted = None   # None | ('unsupported'|'budget'|'unknown', msg)
        self.ticks = 0


class Stats:
    def __init__(self):
        self.paths = 0
        self.queries = 0
        self.solver_s = 0.0
        self.proved = 0
        self.failed = 0
        self.unknown = 0
        self.aborted = 0
        self.sym_paths = 0

    def add(self, o):
        for k, v in o.__dict__.items():
            setattr(self, k, getattr(self, k) + v)

    def as_dict(self):
        d = dict(self.__dict__)
        d['solver_s'] = round(d['solver_s'], 3)
        return d


class Engine:
    def __init__(self, max_decisions=4000, max_ticks=100000, query_timeout_ms=60000, max_paths=200000, pinned=None, max_wall_s=900):
        self.max_wall_s = max_wall_s
        self.pinned = dict(pinned or {})      # input name -> concrete value (counterexample refinement)
        self.max_decisions = max_decisions
        self.max_ticks = max_ticks
        self.query_timeout_ms = query_timeout_ms
        self.max_paths = max_paths
        self.stats = Stats()
        self.inputs = {}      # name -> z3 term / list of terms, re-created per path
        self.assumptions = []

    # ---- per-path state
    def _reset(self, prefix):
        TOKENS.clear()
        self.solver = z3.Solver()
        self.solver.set('timeout', self.query_timeout_ms)
        self.prefix = prefix
        self.trace = []
        self.n_new = 0
        self.counter = 0
        self.ticks = 0
        self.inputs = {}
        self.model = None
        self.cur = PathResult()
        self.ackermann = {}
        self.uf_log = []

    def fresh_name(self, base):
        self.counter += 1
        return f'{base}!{self.counter}'

    # ---- symbolic inputs
    def sym_int(self, name, lo=None, hi=None, width=W):
        if name in self.pinned:
            v = int(self.pinned[name])
            self.inputs[name] = z3.BitVecVal(v, width)
            return v
        t = z3.BitVec(self.fresh_name(name), width)
        self.inputs[name] = t
        if lo is not None:
            self._add(t >= lo)
        if hi is not None:
            self._add(t <= hi)
        return SymInt(t)

    def sym_byte_terms(self, name, n):
        base = self.fresh_name(name)
        ts = [z3.BitVec(f'{base}[{i}]', 8) for i in range(n)]
        return ts

    def sym_bytes(self, name, n, mutable=False):
        if name in self.pinned:
            v = self.pinned[name]
            b = bytes.fromhex(v) if isinstance(v, str) else bytes(v)
            self.inputs[name] = [z3.BitVecVal(x, 8) for x in b]
            return bytearray(b) if mutable else b
        ts = self.sym_byte_terms(name, n)
        self.inputs[name] = ts
        return SymBytes(ts, mutable)

    def sym_bool(self, name):
        if name in self.pinned:
            self.inputs[name] = z3.BoolVal(bool(self.pinned[name]))
            return bool(self.pinned[name])
        t = z3.Bool(self.fresh_name(name))
        self.inputs[name] = t
        return SymBool(t)

    def assume(self, c):
        """constrain the inputs; must be called before the code it constrains"""
        t = _simp(as_z3_bool(c))
        if z3.is_true(t):
            return
        self._add(t)
        if self._check() != z3.sat:
            raise Unsupported('assumption made the path infeasible')

    # ---- solver plumbing
    def _add(self, t):
        self.solver.add(t)
        if self.model is not None:
            try:
                if not z3.is_true(self.model.eval(t, model_completion=True)):
                    self.model = None
            except z3.Z3Exception:
                self.model = None

    def _check(self, *assumptions):
        t0 = _time.perf_counter()
        r = self.solver.check(*assumptions)
        if r == z3.unknown and self.query_timeout_ms:
            # one more attempt with four times the allowance (a loaded machine must not turn a slow query into an inconclusive run)
            self.solver.set('timeout', 4 * self.query_timeout_ms)
            try:
                r = self.solver.check(*assumptions)
            finally:
                self.solver.set('timeout', self.query_timeout_ms)
        self.stats.solver_s += _time.perf_counter() - t0
        self.stats.queries += 1
        if r == z3.unknown:
            self.stats.unknown += 1
            raise SolverUnknown(self.solver.reason_unknown())
        return r

    def _get_model(self):
        if self.model is None:
            if self._check() != z3.sat:
                raise Unsupported('path condition became unsatisfiable')
            self.model = self.solver.model()
        return self.model

    def tick(self, n=1):
        self.ticks += n
        if self.ticks > self.max_ticks:
            raise BudgetExceeded(f'step budget {self.max_ticks} exhausted')

    def branch(self, cond):
        cond = _simp(cond)
        if z3.is_true(cond):
            return True
        if z3.is_false(cond):
            return False
        self.tick()
        idx = len(self.trace)
        if idx >= self.max_decisions:
            raise BudgetExceeded(f'decision budget {self.max_decisions} exhausted')
        if idx < len(self.prefix):
            taken = self.prefix[idx]
            self.solver.add(cond if taken else z3.Not(cond))
            self.model = None
            self.trace.append(taken)
            return taken
        m = self._get_model()
        mv = z3.is_true(m.eval(cond, model_completion=True))
        # the side the model takes is feasible; ask about the other one
        other = z3.Not(cond) if mv else cond
        r = self._check(other)
        if r == z3.sat:
            # both feasible: explore `mv` now, queue the sibling
            self.pending.append(tuple(self.trace) + (not mv,))
            self.n_new += 1
        self.solver.add(cond if mv else z3.Not(cond))
        self.trace.append(mv)
        return mv

    def unique_value(self, v):
        """concrete value if the path condition forces one, else None (no decision recorded)"""
        t = _simp(v.t)
        if z3.is_bv_value(t):
            return t.as_signed_long()
        m = self._get_model()
        mv = m.eval(t, model_completion=True)
        if self._check(t != mv) == z3.unsat:
            return mv.as_signed_long()
        return None

    def concretize(self, v, lo, hi):
        """Concrete python int for `v`, case-splitting over the feasible values in [lo, hi].
        The caller has already excluded values outside [lo, hi] (or passes None = unbounded,
        which is only accepted when at most 64 values are feasible)."""
        if isinstance(v, int):
            return v
        self.tick()
        u = self.unique_value(v)
        if u is not None:
            return u
        if lo is None:
            # enumerate by model values is not replay-deterministic; refuse
            raise Unsupported('unbounded concretisation of a symbolic int (C boundary)')
        for k in range(lo, hi):
            if self.branch(v.t == k):
                return k
        return hi

    def prove(self, cond, label):
        """assert `cond` on the current path.  Returns True if discharged."""
        t = _simp(as_z3_bool(cond))
        if z3.is_true(t):
            self.cur.proved += 1
            self.stats.proved += 1
            return True
        if z3.is_false(t):
            r = z3.sat
            self._get_model()
        else:
            r = self._check(z3.Not(t))
        if r == z3.unsat:
            self.cur.proved += 1
            self.stats.proved += 1
            return True
        m = self.solver.model() if not z3.is_false(t) else self.model
        self.cur.failed.append((label, self.extract_inputs(m)))
        self.stats.failed += 1
        return False

    def extract_inputs(self, m):
        out = {}
        for name, t in self.inputs.items():
            if isinstance(t, list):
                out[name] = bytes(m.eval(x, model_completion=True).as_long() for x in t).hex()
            elif z3.is_bool(t):
                out[name] = z3.is_true(m.eval(t, model_completion=True))
            else:
                out[name] = m.eval(t, model_completion=True).as_signed_long()
        return out

    def eval_bytes(self, m, sb):
        if isinstance(sb, (bytes, bytearray)):
            return bytes(sb)
        return bytes(i if isinstance(i, int) else m.eval(i, model_completion=True).as_long() for i in sb.items)

    def eval_int(self, m, v):
        if isinstance(v, int):
            return v
        return m.eval(v.t, model_completion=True).as_signed_long()

    # ---- exploration
    def explore(self, fn, on_path=None, want_model=True):
        """run fn() once per feasible path; fn returns an outcome object. -> list[PathResult]"""
        global _ENGINE
        results = []
        self.partial_results = results        # kept when the exploration is aborted: violations found so far remain valid
        self.pending = [()]
        t_start = _time.time()
        while self.pending:
            if self.stats.paths >= self.max_paths:
                raise BudgetExceeded(f'path budget {self.max_paths} exhausted')
            if _time.time() - t_start > self.max_wall_s:
                raise WallClock(f'wall-clock budget {self.max_wall_s} s exhausted after {self.stats.paths} paths ({len(self.pending)} pending)')
            prefix = self.pending.pop()
            self._reset(prefix)
            prev = _ENGINE
            _ENGINE = self
            try:
                try:
                    self.cur.outcome = fn()
                except Unsupported as e:
                    self.cur.aborted = ('unsupported', str(e))
                except Cut as e:
                    self.cur.aborted = ('cut', str(e))
                except BudgetExceeded as e:
                    self.cur.aborted = ('budget', str(e))
                except SolverUnknown as e:
                    self.cur.aborted = ('unknown', str(e))
                if want_model and not (self.cur.aborted and self.cur.aborted[0] == 'unknown'):
                    try:
                        self.cur.model_inputs = self.extract_inputs(self._get_model())
                    except EngineAbort:
                        pass
                if on_path is not None:
                    on_path(self.cur, self)
            finally:
                _ENGINE = prev
            self.cur.decisions = tuple(self.trace)
            self.cur.n_sym_decisions = len(self.trace)
            self.cur.ticks = self.ticks
            self.stats.paths += 1
            if self.trace:
                self.stats.sym_paths += 1
            if self.cur.aborted:
                self.stats.aborted += 1
            results.append(self.cur)
        return results


# ----------------------------------------------------------------------------- concrete re-run
class AssumptionFailed(EngineAbort):
    """a concrete re-run was given inputs that violate an assumption of the harness"""


class ReplayEngine:
    """Stand-in for Engine that feeds concrete values (a model extracted from a symbolic path, or a counterexample
    file) to the same harness function.  Used for the per-path cross validation and for native replays: with concrete
    inputs no proxy is ever created, so the real code runs on real ints/bytes."""

    def __init__(self, inputs):
        self.given = dict(inputs)
        self.inputs = {}
        self.failed = []
        self.proved = 0
        self.ticks = 0
        self.uf_log = []
        self.ackermann = {}
        self.stats = Stats()

    def _get(self, name, default):
        v = self.given.get(name, default)
        self.inputs[name] = v
        return v

    def sym_int(self, name, lo=None, hi=None, width=W):
        v = int(self._get(name, lo if lo is not None else 0))
        if (lo is not None and v < lo) or (hi is not None and v > hi):
            raise AssumptionFailed(f'{name}={v} outside [{lo}, {hi}]')
        return v

    def sym_bytes(self, name, n, mutable=False):
        v = self._get(name, '00' * n)
        b = bytes.fromhex(v) if isinstance(v, str) else bytes(v)
        if len(b) != n:
            b = (b + bytes(n))[:n]
        return bytearray(b) if mutable else b

    def sym_bool(self, name):
        return bool(self._get(name, False))

    def sym_byte_terms(self, name, n):
        raise Unsupported('uninterpreted function reached in a concrete re-run')

    def assume(self, c):
        if not bool(c):
            raise AssumptionFailed('assumption violated by the concrete inputs')

    def prove(self, cond, label):
        if bool(cond):
            self.proved += 1
            return True
        self.failed.append((label, dict(self.given)))
        return False

    def tick(self, n=1):
        self.ticks += n

    def branch(self, cond):
        raise Unsupported('symbolic branch in a concrete re-run')

    def concretize(self, v, lo, hi):
        return int(v)

    def fresh_name(self, base):
        return base

    def run(self, fn):
        """-> (outcome, failed labels) ; engine is active so that shims keep working on concrete data"""
        global _ENGINE
        prev = _ENGINE
        _ENGINE = self
        try:
            out = fn()
        finally:
            _ENGINE = prev
        return out, [l for l, _ in self.failed]

