from common import *
A, B, ip1, ip2, calls = two_controllers()
from message import Message, Payload, Proposal
from ikesa import IkeSa
import xfrm
# restore a kernel interface that builds the real ctypes structures (send_recv mocked by two_controllers keeps working)
a = A.ike_sas[0]; b = B.ike_sas[0]
from ipaddress import ip_network
from message import TrafficSelector as TS
req = a.process_acquire(TS.from_network(ip_network('192.168.0.1/32'), 9999, TS.IpProtocol.TCP), TS.from_network(ip_network('192.168.0.2/32'), 23, TS.IpProtocol.TCP), 1)
res = b.process_message(req)
m = Message.parse(res, crypto=a.peer_crypto)
sa = m.get_payload(Payload.Type.SA, True)
sa.proposals[0].spi = b'\x01\x02'
m2 = Message(m.spi_i, m.spi_r, 2, 0, m.exchange_type, True, False, False, m.message_id, [], m.encrypted_payloads, crypto=b.my_crypto)
try:
    r = A.dispatch_message(m2.to_bytes(), ip1, ip2)
    pass
except BaseException as e:
    pass
bad = []
if any(x.state == IkeSa.State.DELETED for x in A.ike_sas):
    bad.append(f'a CREATE_CHILD_SA response whose proposal carries a 2-byte SPI left an IKE_SA in state DELETED in the table (states {[x.state.name for x in A.ike_sas]}, '
               f'{[len(x.child_sas) for x in A.ike_sas]} CHILD_SAs tracked): its clean-up raises TypeError on every main_loop iteration, so DPD and rekey timers are never served again')
verdict('F15', bad)
