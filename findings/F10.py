from common import *
from message import Message
A, B, ip1, ip2, calls = two_controllers()
bad = []
n0 = len(B.ike_sas)
# an IKE_SA_INIT request whose INITIATOR flag is clear (or whose Message ID is not 0, or whose payloads are malformed) is ignored ...
req = bytearray(A.ike_sas[0].ike_sa_init_req_data)
req[0:8] = b'SPOOFED!'
req[19] = 0x00
for i in range(3):
    try:
        B.dispatch_message(bytes(req), ip2, ip1)
    except Exception:
        pass
garbage = bytes(req[:28]) + b'\x00\x00\x00\x03'
g = bytearray(garbage); g[19] = 0x08; g[24:28] = len(g).to_bytes(4, 'big')
try:
    B.dispatch_message(bytes(g), ip2, ip1)
except Exception:
    pass
# ... but the responder IKE_SA created for it stays in the table forever (state INITIAL, SPI unknown to everybody)
if len(B.ike_sas) != n0:
    bad.append(f'ignored/malformed IKE_SA_INIT requests left {len(B.ike_sas) - n0} unreachable IKE_SAs in the table: '
               f'{[x.state.name for x in B.ike_sas[n0:]]}')
verdict('F10', bad)
