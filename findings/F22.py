from common import *
A, B, ip1, ip2, calls = two_controllers()
from message import Message, Payload
bad = []
a, b = A.ike_sas[0], B.ike_sas[0]
req = Message(a.spi_i, a.spi_r, 2, 0, Message.Exchange.IKE_SA_INIT, False, False, True, a.my_msg_id, [], [], crypto=a.my_crypto)
ret = b.process_message(req.to_bytes())
if ret is not None and ret[16] != Payload.Type.SK:
    m = Message.parse(ret)
    bad.append(f'an established IKE_SA answered a protected request typed IKE_SA_INIT with a CLEARTEXT response (first payload {int(ret[16])}, payloads '
               f'{[str(p) for p in m.payloads]}) and went to {b.state.name}')
verdict('F22', bad)
