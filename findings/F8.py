from common import *
import select as _select, socket as _socket, types
import ikesacontroller, xfrm
A, B, ip1, ip2, calls = two_controllers()
bad = []
class End(BaseException): pass
def run(events, send_exc=None):
    """the real main_loop over scripted sockets"""
    evs = list(events)
    socks = {}
    class S:
        def __init__(self, kind): self.kind = kind
        def bind(self, a):
            if self.kind == 'udp': socks[a[0]] = self
        def listen(self): pass
        def setsockopt(self, *a): pass
        def recvfrom(self, n): return cur['data'], (cur['src'], 500)
        def sendto(self, d, dst):
            if send_exc: raise send_exc('injected')
        def recv(self, n): return cur.get('data', b'')
        def close(self): pass
    ctl = S('ctl'); xs = S('xfrm')
    fake = types.SimpleNamespace(socket=lambda f=None, t=None, p=0: ctl if t == _socket.SOCK_STREAM else S('udp'), AF_INET=_socket.AF_INET,
                                 AF_INET6=_socket.AF_INET6, SOCK_DGRAM=_socket.SOCK_DGRAM, SOCK_STREAM=_socket.SOCK_STREAM,
                                 SOL_SOCKET=_socket.SOL_SOCKET, SO_REUSEADDR=_socket.SO_REUSEADDR, gaierror=_socket.gaierror)
    cur = {}
    def select(r, w, x, t=None):
        if not evs: raise End()
        cur.clear(); cur.update(evs.pop(0))
        return ([socks[str(ip2)]] if cur['kind'] == 'udp' else [xs] if cur['kind'] == 'xfrm' else []), [], []
    ikesacontroller.socket, ikesacontroller.select = fake, select
    xfrm.Xfrm.get_socket = classmethod(lambda cls: xs)
    try:
        B.main_loop()
    except End:
        return None
    except BaseException as ex:
        return f'{type(ex).__name__}: {ex}'
for name, evs, exc in (('datagram shorter than an IKE header', [{'kind': 'udp', 'src': str(ip1), 'data': b'\x00' * 10}], None),
                       ('IKE_SA_INIT request from an unconfigured source address', [{'kind': 'udp', 'src': '203.0.113.7', 'data': bytes(A.ike_sas[0].ike_sa_init_req_data)}], None),
                       ('sendto failing with OSError', [{'kind': 'udp', 'src': str(ip1), 'data': bytes(A.ike_sas[0].ike_sa_init_req_data)}], OSError)):
    r = run(evs, exc)
    if r:
        bad.append(f'{name}: main_loop terminated with {r}')
verdict('F8', bad)
