from common import *
from message import Transform
bad = []
t = Transform(Transform.Type.ENCR, Transform.EncrId.ENCR_AES_CBC, 0)
back = Transform.parse(bytes(t.to_bytes()))
if back.keylen != 0 or 'keylen' not in t.to_dict():
    bad.append(f'Transform(ENCR, AES_CBC, keylen=0) serialises to {bytes(t.to_bytes()).hex()} and parses back with keylen={back.keylen}; dump: {dict(t.to_dict())}')
verdict('F21', bad)
