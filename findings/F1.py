from common import *
from message import Message, IkeSaError
# header + one generic payload header: first payload type 1 (unknown), next payload 1, length 0
d = b'\0' * 16 + bytes([1, 0x20, 34, 0]) + (0).to_bytes(4, 'big') + (32).to_bytes(4, 'big') + bytes([1, 0, 0, 0])
bad = []
signal.alarm(3)
try: Message.parse(d)
except IkeSaError: pass
except TimeoutError: bad.append(f'Message.parse does not terminate on {d.hex()}')
signal.alarm(0)
verdict('F1', bad)
