from common import *
import hmac, hashlib
import xfrm
xfrm.Xfrm.send_recv = classmethod(lambda cls, *a, **k: [])
from configuration import Configuration
from ikesa import IkeSa
from message import Message, Payload, TrafficSelector as TS, Transform
ip1 = ip_address("192.168.0.1"); ip2 = ip_address("192.168.0.2")
def side(me, peer, idx, port, prfs):
    return {"my_addr": str(me), "peer_addr": str(peer), "my_auth": {"id": f"{me}", "psk": "k"}, "peer_auth": {"id": f"{peer}", "psk": "k"},
            "dh": ['ecp256'], "integ": ["sha256"], "prf": prfs,
            "protect": [{"index": idx, "ip_proto": "tcp", "mode": "transport", "lifetime": 5, "peer_port": port, "ipsec_proto": "esp", "encr": ["aes256"]}]}
# the two peers prefer different PRFs: the initial exchange (responder bob) selects sha512, the rekey started by bob (responder alice) selects sha256
cf = Configuration([ip1, ip2], {"a": side(ip1, ip2, 1, 0, ['sha256', 'sha512']), "b": side(ip2, ip1, 2, 23, ['sha512', 'sha256'])})
a = IkeSa(True, b'\0' * 8, cf.get_ike_configuration(ip1, ip2), ip1, ip2)
b = IkeSa(False, a.my_spi, cf.get_ike_configuration(ip2, ip1), ip2, ip1)
m = a.process_acquire(TS.from_network(ip_network('192.168.0.1/32'), 8765, TS.IpProtocol.TCP), TS.from_network(ip_network('192.168.0.2/32'), 23, TS.IpProtocol.TCP), 1)
to = b
while m:
    m = to.process_message(m)
    to = a if to is b else b
bad = []
assert a.state == b.state == IkeSa.State.ESTABLISHED
old_prf = a.chosen_proposal.get_transform(Transform.Type.PRF).id
b.rekey_ike_sa_at = 0
req = b.check_rekey_ike_sa_timer()
res = a.process_message(req)
b.process_message(res)
nb, na = b.new_ike_sa, a.new_ike_sa
new_prf = nb.chosen_proposal.get_transform(Transform.Type.PRF).id
H = {Transform.PrfId.PRF_HMAC_SHA2_256: hashlib.sha256, Transform.PrfId.PRF_HMAC_SHA2_512: hashlib.sha512}
ni = Message.parse(req, crypto=a.peer_crypto).get_payload(Payload.Type.NONCE, True).nonce
nr = Message.parse(res, crypto=b.peer_crypto).get_payload(Payload.Type.NONCE, True).nonce
g_ir = nb.dh.shared_secret
# RFC 7296 2.18: SKEYSEED = prf(SK_d (old), g^ir (new) | Ni | Nr) with the PRF of the OLD IKE_SA; the keys then come from prf+ of the NEW one
skeyseed = hmac.new(b.ike_sa_keyring.sk_d, g_ir + ni + nr, H[old_prf]).digest()
sk_d = hmac.new(skeyseed, ni + nr + nb.my_spi + nb.peer_spi + b'\x01', H[new_prf]).digest()
if old_prf == new_prf:
    bad.append('set-up: the rekey did not change the PRF')
elif nb.ike_sa_keyring.sk_d != sk_d[:len(nb.ike_sa_keyring.sk_d)] or na.ike_sa_keyring.sk_d != nb.ike_sa_keyring.sk_d:
    bad.append(f'IKE_SA rekey that changes the PRF ({old_prf.name} -> {new_prf.name}): SK_d of the new IKE_SA is not prf+(prf_old(SK_d(old), g^ir | Ni | Nr), ...) '
               f'as RFC 7296 2.18 prescribes (the new PRF was used for SKEYSEED)')
verdict('F16', bad)
