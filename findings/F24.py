from common import *
import xfrm
xfrm.Xfrm.send_recv = classmethod(lambda cls, *a, **k: [])
from configuration import Configuration
from ikesa import IkeSa
import ikesa as ikm
from ikesacontroller import IkeSaController
from message import Message, Payload, TrafficSelector as TS
from xfrm import (XfrmUserAcquire, XfrmId, XfrmAddress, XfrmSelector, XfrmUserPolicyInfo, XfrmUserTmpl, XFRMA_TMPL)
ip1 = ip_address("192.168.0.1"); ip2 = ip_address("192.168.0.2")
def side(me, peer, idx, port):
    return {"my_addr": str(me), "peer_addr": str(peer), "my_auth": {"id": f"{me}", "psk": "k"}, "peer_auth": {"id": f"{peer}", "psk": "k"},
            "dh": ['ecp256'], "integ": ["sha256"], "prf": ["sha256"], "lifetime": 100,
            "protect": [{"index": idx, "ip_proto": "tcp", "mode": "transport", "lifetime": 5, "peer_port": port, "ipsec_proto": "esp", "encr": ["aes256"]}]}
cf = Configuration([ip1, ip2], {"a": side(ip1, ip2, 1, 0), "b": side(ip2, ip1, 2, 23)})
now = [1000.0]
ikm.time.time = lambda: now[0]
def acquire():
    return (XfrmUserAcquire(id=XfrmId(daddr=XfrmAddress.from_ipaddr(ip1)), saddr=XfrmAddress.from_ipaddr(ip2),
                            sel=XfrmSelector(saddr=XfrmAddress.from_ipaddr(ip2), sport=23, daddr=XfrmAddress.from_ipaddr(ip1), dport=8765, proto=6, family=socket.AF_INET),
                            policy=XfrmUserPolicyInfo(index=2 << 3 | 1)), {XFRMA_TMPL: XfrmUserTmpl(family=socket.AF_INET)})
def peer():
    a = IkeSa(True, b'\0' * 8, cf.get_ike_configuration(ip1, ip2), ip1, ip2)
    m = a.process_acquire(TS.from_network(ip_network('192.168.0.1/32'), 8765, TS.IpProtocol.TCP), TS.from_network(ip_network('192.168.0.2/32'), 23, TS.IpProtocol.TCP), 1)
    return a, m
bad = []
# (1) the peer starts an initial exchange and never comes back (or somebody else used its address): the responder IKE_SA stays half-open
B = IkeSaController([ip2], cf)
a, m1 = peer()
B.dispatch_message(m1, ip2, ip1)
assert B.ike_sas[0].state == IkeSa.State.INIT_RES_SENT
req, _, _ = B.process_acquire(*acquire())
now[0] += 3600
if req is None and not any(x.is_initiator for x in B.ike_sas):
    bad.append('with a half-open responder IKE_SA for that peer in the table (its IKE_AUTH never arrives) a kernel ACQUIRE is queued on it for good: nothing is ever '
               'negotiated with that peer again')
# (2) the peer has rekeyed the IKE_SA, its DELETE for the old one is still under way: the ACQUIRE goes to the replaced IKE_SA and is lost with it
B = IkeSaController([ip2], cf)
a, m = peer()
to_b = True
while m:
    m = B.dispatch_message(m, ip2, ip1) if to_b else a.process_message(m)
    to_b = not to_b
now[0] = a.rekey_ike_sa_at + 10
rk = a.check_rekey_ike_sa_timer()
dele = a.process_message(B.dispatch_message(rk, ip2, ip1))
assert [x.state for x in B.ike_sas] == [IkeSa.State.REKEYED, IkeSa.State.ESTABLISHED]
req, _, _ = B.process_acquire(*acquire())
B.dispatch_message(dele, ip2, ip1)
B.ike_sas = [x for x in B.ike_sas if x.state != IkeSa.State.DELETED]
if req is None and not any(x.pending_events for x in B.ike_sas):
    bad.append('an ACQUIRE arriving between the rekey of an IKE_SA and the DELETE of the old one is queued on the replaced IKE_SA and lost with it')
verdict('F24', bad)
