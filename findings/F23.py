from common import *
import xfrm
xfrm.Xfrm.send_recv = classmethod(lambda cls, *a, **k: [])
from configuration import Configuration
from ikesa import IkeSa
from message import Message, Payload, PayloadNOTIFY, TrafficSelector as TS
ip1 = ip_address("192.168.0.1"); ip2 = ip_address("192.168.0.2")
def side(me, peer, idx, port):
    return {"my_addr": str(me), "peer_addr": str(peer), "my_auth": {"id": f"{me}", "psk": "k"}, "peer_auth": {"id": f"{peer}", "psk": "k"},
            "dh": ['ecp256'], "integ": ["sha256"], "prf": ["sha256"],
            "protect": [{"index": idx, "ip_proto": "tcp", "mode": "transport", "lifetime": 5, "peer_port": port, "ipsec_proto": "esp", "encr": ["aes256"]}]}
cf = Configuration([ip1, ip2], {"a": side(ip1, ip2, 1, 0), "b": side(ip2, ip1, 2, 23)})
secret = b'S' * 8
def responder(a):
    return IkeSa(False, a.my_spi, cf.get_ike_configuration(ip2, ip1), ip2, ip1, cookie_secret=secret)
a = IkeSa(True, b'\0' * 8, cf.get_ike_configuration(ip1, ip2), ip1, ip2)
m1 = a.process_acquire(TS.from_network(ip_network('192.168.0.1/32'), 8765, TS.IpProtocol.TCP), TS.from_network(ip_network('192.168.0.2/32'), 23, TS.IpProtocol.TCP), 1)
# the request and a retransmission of it both reach the loaded responder: two identical COOKIE responses are on their way
c1 = responder(a).process_message(bytes(m1))
c2 = responder(a).process_message(bytes(m1))
ck = lambda d: Message.parse(bytes(d)).get_notifies(PayloadNOTIFY.Type.COOKIE)[0].notification_data
assert ck(c1) == ck(c2)
retry = a.process_message(bytes(c1))             # the initiator repeats the request with the cookie placed first
b = responder(a)
m2 = b.process_message(bytes(retry))             # ... which the responder accepts
again = a.process_message(bytes(c2))             # meanwhile the second (duplicate) COOKIE response arrives at the initiator
bad = []
if again is not None:
    n = [x for x in Message.parse(bytes(again)).payloads if x.type == Payload.Type.NOTIFY and x.notification_type == PayloadNOTIFY.Type.COOKIE]
    if len(n) != 1 or bytes(again) != bytes(retry):
        bad.append(f'after a duplicate of the COOKIE response the initiator sends a request with {len(n)} COOKIE notifications (not the request with the cookie placed first)')
m3 = a.process_message(bytes(m2))                # the answer to the (first) retry
m4 = b.process_message(bytes(m3)) if m3 else None
if m4:
    a.process_message(bytes(m4))
if a.state != IkeSa.State.ESTABLISHED or b.state != IkeSa.State.ESTABLISHED:
    bad.append(f'the exchange does not complete after the cookie round trip: initiator {a.state.name}, responder {b.state.name}')
verdict('F23', bad)
