from common import *
import xfrm
installed = []
xfrm.Xfrm.send_recv = classmethod(lambda cls, *a, **k: [])
real = xfrm.Xfrm.create_child_sa.__func__
xfrm.Xfrm.create_child_sa = classmethod(lambda cls, ike_sa, child_sa, keyring, is_initiator: installed.append((ike_sa, child_sa)))
from configuration import Configuration
from ikesa import IkeSa
from message import Message, Payload, PayloadTSi, PayloadTSr, TrafficSelector as TS
ip1 = ip_address("192.168.0.1"); ip2 = ip_address("192.168.0.2")
def side(me, peer, idx):
    return {"my_addr": str(me), "peer_addr": str(peer), "my_auth": {"id": f"{me}", "psk": "k"}, "peer_auth": {"id": f"{peer}", "psk": "k"},
            "dh": ['ecp256'], "integ": ["sha256"], "prf": ["sha256"],
            "protect": [{"index": idx, "ip_proto": "tcp", "mode": "transport", "lifetime": 5, "ipsec_proto": "esp", "encr": ["aes256"]}]}
cf = Configuration([ip1, ip2], {"a": side(ip1, ip2, 1), "b": side(ip2, ip1, 2)})
a = IkeSa(True, b'\0' * 8, cf.get_ike_configuration(ip1, ip2), ip1, ip2)
b = IkeSa(False, a.my_spi, cf.get_ike_configuration(ip2, ip1), ip2, ip1)
m = a.process_acquire(TS.from_network(ip_network('192.168.0.1/32'), 0, TS.IpProtocol.TCP), TS.from_network(ip_network('192.168.0.2/32'), 0, TS.IpProtocol.TCP), 1)
to = b
while m:
    m = to.process_message(m); to = a if to is b else b
old = a.child_sas[0]
req = a.process_expire(old.inbound_spi, False)           # soft expire: rekey of the CHILD_SA (all TCP ports between the two hosts)
res = Message.parse(bytes(b.process_message(req)), crypto=a.peer_crypto)
# the responder (or whoever speaks with its keys) answers with NARROWER selectors: only port 23
enc = []
for x in res.encrypted_payloads:
    if x.type == Payload.Type.TSr:
        t = x.traffic_selectors[0]
        x = PayloadTSr([TS(t.ts_type, t.ip_proto, 23, 23, t.start_addr, t.end_addr)])
    enc.append(x)
forged = Message(res.spi_i, res.spi_r, 2, 0, res.exchange_type, True, False, res.is_initiator, res.message_id, [], enc, crypto=b.my_crypto)
del installed[:]
a.process_message(forged.to_bytes())
bad = []
for _, ch in installed:
    if (ch.tsi, ch.tsr) != (old.tsi, old.tsr):
        bad.append(f'the CHILD_SA installed by a rekey has selectors {ch.tsr.start_port}-{ch.tsr.end_port}, the replaced one {old.tsr.start_port}-{old.tsr.end_port}: '
                   f'for a rekey they must be equal (the initiator accepted a narrowed response)')
verdict('F27', bad)
