from common import *
import os
import xfrm
from netlink import NetlinkError
SAD = {}
def create_sa(cls, src_selector, dst_selector, src_port, dst_port, spi, ip_proto, ipsec_proto, mode, src, dst, *a, **k):
    key = (CUR[0], str(dst), int(ipsec_proto), bytes(spi))
    if key in SAD:
        raise NetlinkError('EEXIST')          # what XFRM_MSG_NEWSA answers for an SA that exists
    SAD[key] = True
def delete_sa(cls, daddr, proto, spi):
    SAD.pop((CUR[0], str(daddr), int(proto), bytes(spi)), None)
xfrm.Xfrm.create_sa = classmethod(create_sa); xfrm.Xfrm.delete_sa = classmethod(delete_sa)
xfrm.Xfrm.send_recv = classmethod(lambda cls, *a, **k: [])
from configuration import Configuration
from ikesa import IkeSa
import ikesa as ikm
from message import Message, Payload, TrafficSelector as TS
ip1 = ip_address("192.168.0.1"); ip2 = ip_address("192.168.0.2")
def side(me, peer, idx, port):
    return {"my_addr": str(me), "peer_addr": str(peer), "my_auth": {"id": f"{me}", "psk": "k"}, "peer_auth": {"id": f"{peer}", "psk": "k"},
            "dh": ['ecp256'], "integ": ["sha256"], "prf": ["sha256"],
            "protect": [{"index": idx, "ip_proto": "tcp", "mode": "transport", "lifetime": 5, "peer_port": port, "ipsec_proto": "esp", "encr": ["aes256"]}]}
cf = Configuration([ip1, ip2], {"a": side(ip1, ip2, 1, 0), "b": side(ip2, ip1, 2, 23)})
CUR = ['a']
a = IkeSa(True, b'\0' * 8, cf.get_ike_configuration(ip1, ip2), ip1, ip2)
b = IkeSa(False, a.my_spi, cf.get_ike_configuration(ip2, ip1), ip2, ip1)
def run(m):
    to = b
    while m:
        CUR[0] = 'b' if to is b else 'a'
        m = to.process_message(m); to = a if to is b else b
CUR[0] = 'a'
run(a.process_acquire(TS.from_network(ip_network('192.168.0.1/32'), 8765, TS.IpProtocol.TCP), TS.from_network(ip_network('192.168.0.2/32'), 23, TS.IpProtocol.TCP), 1))
assert len(b.child_sas) == 1 and len([k for k in SAD if k[0] == 'b']) == 2
first = b.child_sas[0]
# the peer's next CHILD_SA happens to get the SPI of its first one (equal random draws; an authenticated peer may also simply reuse the value)
real = os.urandom
ikm.os.urandom = lambda n: bytes(first.outbound_spi) if n == 4 else real(n)
CUR[0] = 'a'
req = a.process_acquire(TS.from_network(ip_network('192.168.0.1/32'), 9000, TS.IpProtocol.TCP), TS.from_network(ip_network('192.168.0.2/32'), 23, TS.IpProtocol.TCP), 1)
ikm.os.urandom = real
CUR[0] = 'b'
b.process_message(req)
bad = []
have = {k[1:] for k in SAD if k[0] == 'b'}
for ch in b.child_sas:
    for key in ((str(ip1), 50, bytes(ch.outbound_spi)), (str(ip2), 50, bytes(ch.inbound_spi))):
        if key not in have:
            bad.append(f'responder: the kernel refused a new CHILD_SA whose SPI an existing CHILD_SA owns (EEXIST); the roll-back removed the SA {key[0]}/{key[2].hex()} of '
                       f'that existing, still tracked CHILD_SA')
verdict('F25', bad)
