from common import *
import xfrm
xfrm.Xfrm.send_recv = classmethod(lambda cls, *a, **k: [])
from configuration import Configuration
from ikesa import IkeSa
import ikesa as ikm
from message import Message, Payload, TrafficSelector as TS
ip1 = ip_address("192.168.0.1"); ip2 = ip_address("192.168.0.2")
def side(me, peer, idx, port):
    return {"my_addr": str(me), "peer_addr": str(peer), "my_auth": {"id": f"{me}", "psk": "k"}, "peer_auth": {"id": f"{peer}", "psk": "k"},
            "dh": ['ecp256'], "integ": ["sha256"], "prf": ["sha256"],
            "protect": [{"index": idx, "ip_proto": "tcp", "mode": "transport", "lifetime": 5, "peer_port": port, "ipsec_proto": "esp", "encr": ["aes256"]}]}
cf = Configuration([ip1, ip2], {"a": side(ip1, ip2, 1, 0), "b": side(ip2, ip1, 2, 23)})
def pair():
    a = IkeSa(True, b'\0' * 8, cf.get_ike_configuration(ip1, ip2), ip1, ip2)
    b = IkeSa(False, a.my_spi, cf.get_ike_configuration(ip2, ip1), ip2, ip1)
    m = a.process_acquire(TS.from_network(ip_network('192.168.0.1/32'), 8765, TS.IpProtocol.TCP), TS.from_network(ip_network('192.168.0.2/32'), 23, TS.IpProtocol.TCP), 1)
    to = b
    while m:
        m = to.process_message(m); to = a if to is b else b
    return a, b
x, bx = pair(); y, by = pair()
now = [1000.0]
ikm.time.time = lambda: now[0]
r1 = x.process_acquire(TS.from_network(ip_network('192.168.0.1/32'), 9001, TS.IpProtocol.TCP), TS.from_network(ip_network('192.168.0.2/32'), 23, TS.IpProtocol.TCP), 1)
r2 = y.process_acquire(TS.from_network(ip_network('192.168.0.1/32'), 9002, TS.IpProtocol.TCP), TS.from_network(ip_network('192.168.0.2/32'), 23, TS.IpProtocol.TCP), 1)
now[0] += 100
r1b = x.check_retransmission_timer()
s1 = Message.parse(r1, crypto=bx.peer_crypto).get_payload(Payload.Type.SA, True).proposals[0].spi
s1b = Message.parse(r1b, crypto=bx.peer_crypto).get_payload(Payload.Type.SA, True).proposals[0].spi
bad = []
if bytes(r1) != bytes(r1b):
    bad.append(f'two IKE_SAs of the same connection: the CREATE_CHILD_SA request of the first one is retransmitted with SPI {s1b.hex()} (the SPI of the request the '
               f'second IKE_SA built meanwhile) instead of {s1.hex()}: not byte-identical, and the responder would install the wrong outbound SPI')
verdict('F17', bad)
