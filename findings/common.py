"""Shared set-up for the native reproducers of the findings F1..F9 (DESIGN.md section 4).
Usage: /venv/bin/python /verif/findings/Fn.py [tree]   (default tree: /repo)
Exit 0 = defect absent (repaired), 1 = defect present."""
import sys, logging, signal, socket, time
TREE = sys.argv[1] if len(sys.argv) > 1 else '/repo'
sys.path.insert(0, TREE)
logging.disable(logging.CRITICAL); logging.indent = None
from ipaddress import ip_address, ip_network

def alarm(*a): raise TimeoutError('HANG')
signal.signal(signal.SIGALRM, alarm)

def two_controllers(dha=('ecp256',), dhb=('ecp256',)):
    import xfrm
    calls = []
    def rec(cls, t, flags, payload, attributes=None):
        calls.append((t, bytes(payload))); return []
    xfrm.Xfrm.send_recv = classmethod(rec)
    from configuration import Configuration
    from ikesacontroller import IkeSaController
    from xfrm import (XfrmUserAcquire, XfrmId, XfrmAddress, XfrmSelector, XfrmUserPolicyInfo, XfrmUserTmpl, XFRMA_TMPL)
    ip1 = ip_address("192.168.0.1"); ip2 = ip_address("192.168.0.2")
    def side(me, peer, idx, port, dh):
        return {"my_addr": str(me), "peer_addr": str(peer), "my_auth": {"id": f"{me}", "psk": "k"},
                "peer_auth": {"id": f"{peer}", "psk": "k"}, "dh": list(dh), "integ": ["sha256"], "prf": ["sha256"],
                "protect": [{"index": idx, "ip_proto": "tcp", "mode": "transport", "lifetime": 5, "peer_port": port,
                             "ipsec_proto": "esp", "encr": ["aes256"]}]}
    ca = Configuration([ip1], {"a": side(ip1, ip2, 1, 0, dha)}); cb = Configuration([ip2], {"b": side(ip2, ip1, 2, 23, dhb)})
    A = IkeSaController([ip1], ca); B = IkeSaController([ip2], cb)
    acq = XfrmUserAcquire(id=XfrmId(daddr=XfrmAddress.from_ipaddr(ip2)), saddr=XfrmAddress.from_ipaddr(ip1),
                          sel=XfrmSelector(saddr=XfrmAddress.from_ipaddr(ip1), sport=8765, daddr=XfrmAddress.from_ipaddr(ip2),
                                           dport=23, proto=6, family=socket.AF_INET),
                          policy=XfrmUserPolicyInfo(index=1 << 3))
    m, _, _ = A.process_acquire(acq, {XFRMA_TMPL: XfrmUserTmpl(family=socket.AF_INET)})
    while m:
        m = B.dispatch_message(m, ip2, ip1)
        if not m: break
        m = A.dispatch_message(m, ip1, ip2)
    return A, B, ip1, ip2, calls

def verdict(name, bad):
    for b in bad: print(f'{name}: DEFECT PRESENT: {b}')
    if not bad: print(f'{name}: defect absent')
    sys.exit(1 if bad else 0)
