from common import *
from message import Message, PayloadDELETE, Proposal
A, B, ip1, ip2, calls = two_controllers()
b = B.ike_sas[0]
bad = []
def clear(exch, mid, is_response=False, payloads=()):
    return bytes(Message(spi_i=b.spi_i, spi_r=b.spi_r, major=2, minor=0, exchange_type=exch, is_response=is_response,
                         can_use_higher_version=False, is_initiator=True, message_id=mid, payloads=list(payloads),
                         encrypted_payloads=[]).to_bytes())
snap = lambda: (b.state, b.my_msg_id, b.peer_msg_id, len(b.child_sas), b.start_dpd_at)
b.start_dpd_at -= 5
s0 = snap()
r = B.dispatch_message(clear(37, b.peer_msg_id), ip2, ip1)
if r is not None or snap() != s0:
    bad.append(f'cleartext INFORMATIONAL request with the expected Message ID: reply={r is not None}, {s0} -> {snap()}')
if b in B.ike_sas:
    s0 = snap()
    r = B.dispatch_message(clear(36, b.peer_msg_id), ip2, ip1)
    if r is not None or b not in B.ike_sas or snap() != s0:
        bad.append(f'cleartext CREATE_CHILD_SA request: reply={r is not None}, IKE_SA still held={b in B.ike_sas}, {s0} -> {snap()}')
verdict('F3', bad)
