from common import *
from message import Transform
bad = []
for kind in ('ike', 'child'):
    A, B, ip1, ip2, calls = two_controllers()
    a = A.ike_sas[0]
    if kind == 'ike':
        # A offers groups 14 then 19 for the rekey, B only accepts 19 -> INVALID_KE_PAYLOAD -> retry
        a.configuration.proposal.transforms[:] = [t for t in a.configuration.proposal.transforms if t.type != Transform.Type.DH] + [
            Transform(Transform.Type.DH, 14), Transform(Transform.Type.DH, 19)]
        a.rekey_ike_sa_at = time.time() - 1
        req = a.check_rekey_ike_sa_timer()
    else:
        b = B.ike_sas[0]
        for conf, dh in ((a.configuration, [14, 19]), (b.configuration, [19])):
            p = conf.protect[0].proposal
            p.transforms[:] = [t for t in p.transforms if t.type != Transform.Type.DH] + [Transform(Transform.Type.DH, g) for g in dh]
        req = a.process_expire(a.child_sas[0].inbound_spi, hard=False)
    res = B.dispatch_message(req, ip2, ip1)
    retry = A.dispatch_message(res, ip1, ip2)
    if retry is None:
        print(f'F5[{kind}]: no retry produced (state {a.state.name})'); continue
    a.retransmit_at = time.time() - 1
    rt = a.check_retransmission_timer()
    if bytes(rt) != bytes(retry):
        bad.append(f'{kind}: retransmission after INVALID_KE_PAYLOAD retry differs from the retry (equals first request: {bytes(rt) == bytes(req)})')
verdict('F5', bad)
