from common import *
from message import Transform
import xfrm
A, B, ip1, ip2, calls = two_controllers()
a, b = A.ike_sas[0], B.ike_sas[0]
a.configuration.proposal.transforms[:] = [t for t in a.configuration.proposal.transforms if t.type != Transform.Type.DH] + [
    Transform(Transform.Type.DH, 14), Transform(Transform.Type.DH, 19)]
a.rekey_ike_sa_at = time.time() - 1
installed = sum(1 for c in calls if c[0] == xfrm.XFRM_MSG_NEWSA) // 2   # both endpoints share the recorder; B installed half
calls.clear()
req = a.check_rekey_ike_sa_timer()
res = B.dispatch_message(req, ip2, ip1)     # INVALID_KE_PAYLOAD: B wants group 19, A sent 14
dels = sum(1 for c in calls if c[0] == xfrm.XFRM_MSG_DELSA)
tracked = sum(2 * len(s.child_sas) for s in B.ike_sas)
bad = []
if installed - dels != tracked:
    bad.append(f'failed IKE_SA rekey on the responder: {installed} kernel SAs installed, {dels} deleted, {tracked} tracked by the {len(B.ike_sas)} remaining IKE_SAs')
verdict('F4', bad)
