from common import *
from configuration import Configuration, ConfigurationError
import copy
base = {"my_addr": "192.168.0.1", "peer_addr": "192.168.0.2", "my_auth": {"id": "a", "psk": "k"}, "peer_auth": {"id": "b", "psk": "k"},
        "protect": [{"index": 1}]}
def mut(path, value):
    d = copy.deepcopy(base); t = d
    for k in path[:-1]: t = t[k]
    t[path[-1]] = value; return d
cases = {'lifetime: None': mut(['lifetime'], None), 'dpd: "x"': mut(['dpd'], 'x'), 'protect: a mapping': mut(['protect'], {'a': 1}),
         'my_auth: a list': mut(['my_auth'], []), 'peer_port: "x"': mut(['protect', 0, 'peer_port'], 'x'),
         'psk: 5': mut(['my_auth', 'psk'], 5), 'id: 7': mut(['peer_auth', 'id'], 7), 'connection: a list': [], 'pubkey: garbage': mut(['peer_auth', 'pubkey'], 'zz'),
         'my_subnet: 5.5': mut(['protect', 0, 'my_subnet'], 5.5), 'protect entry: int': mut(['protect', 0], 3), 'mode: []': mut(['protect', 0, 'mode'], [])}
bad = []
for name, d in cases.items():
    try: Configuration([ip_address("192.168.0.1")], {'c': d})
    except ConfigurationError: pass
    except Exception as e: bad.append(f'{name} -> {type(e).__name__}: {e}')
verdict('F9', bad)
