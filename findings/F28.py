from common import *
import xfrm
xfrm.Xfrm.send_recv = classmethod(lambda cls, *a, **k: [])
from configuration import Configuration
from ikesa import IkeSa
from ikesacontroller import IkeSaController
from message import Message, Payload
from xfrm import (XfrmUserAcquire, XfrmId, XfrmAddress, XfrmSelector, XfrmUserPolicyInfo, XfrmUserTmpl, XFRMA_TMPL)
peer = ip_address("192.168.0.1"); l1 = ip_address("192.168.0.2"); l2 = ip_address("192.168.5.2")
def conn(me, idx):
    return {"my_addr": str(me), "peer_addr": str(peer), "my_auth": {"id": f"{me}", "psk": "k"}, "peer_auth": {"id": f"{peer}", "psk": "k"},
            "dh": ['ecp256'], "protect": [{"index": idx, "ip_proto": "tcp", "mode": "transport", "lifetime": 5, "ipsec_proto": "esp", "encr": ["aes256"]}]}
cf = Configuration([l1, l2], {"via1": conn(l1, 11), "via2": conn(l2, 22)})
G = IkeSaController([l1, l2], cf)
def acquire(me, index):
    return (XfrmUserAcquire(id=XfrmId(daddr=XfrmAddress.from_ipaddr(peer)), saddr=XfrmAddress.from_ipaddr(me),
                            sel=XfrmSelector(saddr=XfrmAddress.from_ipaddr(me), sport=1000, daddr=XfrmAddress.from_ipaddr(peer), dport=23, proto=6, family=socket.AF_INET),
                            policy=XfrmUserPolicyInfo(index=index << 3 | 1)), {XFRMA_TMPL: XfrmUserTmpl(family=socket.AF_INET)})
bad = []
r1, a1, p1 = G.process_acquire(*acquire(l1, 11))
r2, a2, p2 = G.process_acquire(*acquire(l2, 22))
if r1 is None:
    bad.append('first connection: ACQUIRE not negotiated')
if r2 is None:
    bad.append('two connections to one peer from different local addresses: the ACQUIRE of the second connection (its own policy index) is handed to the IKE_SA of the '
               'first connection, which does not know the index - it is dropped / queued there instead of being negotiated from the second local address')
elif a2 != l2:
    bad.append(f'the negotiation for the second connection leaves from {a2} instead of {l2}')
verdict('F28', bad)
