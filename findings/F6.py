from common import *
import json
from message import *
bad = []
cases = {'non-UTF-8 vendor id': PayloadVENDOR(b'\xff\xfe'), 'non-UTF-8 FQDN id': PayloadIDi(2, b'\xff\xfe'),
         'non-UTF-8 e-mail id': PayloadIDr(3, b'a@\xff'), '3-byte IPv4 id': PayloadIDi(1, b'123'), '5-byte IPv6 id': PayloadIDi(5, b'12345')}
for name, p in cases.items():
    try: json.dumps(p.to_dict())
    except Exception as e: bad.append(f'to_dict of {name} -> {type(e).__name__}')
v = PayloadIDi(1, bytes([1, 2, 3, 4])).to_dict()['id_data']
if v != '1.2.3.4': bad.append(f'IPv4 id rendered as {v!r} instead of the address')
verdict('F6', bad)
