from common import *
A, B, ip1, ip2, calls = two_controllers()
a = A.ike_sas[0]; a.rekey_ike_sa_at = time.time() - 1
req = a.check_rekey_ike_sa_timer()
r1 = B.dispatch_message(req, ip2, ip1); n1 = len(B.ike_sas)
r2 = B.dispatch_message(req, ip2, ip1); n2 = len(B.ike_sas)
bad = []
if len(set(map(id, B.ike_sas))) != len(B.ike_sas):
    bad.append(f'retransmitted IKE_SA rekey request: table {n1} -> {n2} entries, one IKE_SA listed twice')
verdict('F7', bad)
