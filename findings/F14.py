from common import *
import xfrm
xfrm.Xfrm.send_recv = classmethod(lambda cls, *a, **k: [])
from configuration import Configuration
from ikesa import IkeSa
from message import Message, Payload, TrafficSelector as TS, Transform
ip1 = ip_address("192.168.0.1"); ip2 = ip_address("192.168.0.2")
def side(me, peer, idx, port):
    return {"my_addr": str(me), "peer_addr": str(peer), "my_auth": {"id": f"{me}", "psk": "k"}, "peer_auth": {"id": f"{peer}", "psk": "k"},
            "dh": ['ecp256'], "integ": ["sha256"], "prf": ["sha256"],
            "protect": [{"index": idx, "ip_proto": "tcp", "mode": "transport", "lifetime": 5, "peer_port": port, "ipsec_proto": "esp", "encr": ["aes256"]}]}
cf = Configuration([ip1, ip2], {"a": side(ip1, ip2, 1, 0), "b": side(ip2, ip1, 2, 23)})
bad = []
a = IkeSa(True, b'\0' * 8, cf.get_ike_configuration(ip1, ip2), ip1, ip2)
b = IkeSa(False, a.my_spi, cf.get_ike_configuration(ip2, ip1), ip2, ip1)
m1 = a.process_acquire(TS.from_network(ip_network('192.168.0.1/32'), 8765, TS.IpProtocol.TCP), TS.from_network(ip_network('192.168.0.2/32'), 23, TS.IpProtocol.TCP), 1)
res = Message.parse(b.process_message(m1))
# the responder's IKE_SA_INIT response, with the DH transform removed from the chosen proposal (KE payload left in place)
sa = res.get_payload(Payload.Type.SA)
sa.proposals[0].transforms = [t for t in sa.proposals[0].transforms if t.type != Transform.Type.DH]
try:
    a.process_message(res.to_bytes())
except Exception as ex:
    bad.append(f'raised {type(ex).__name__}')
if a.state == IkeSa.State.AUTH_REQ_SENT:
    bad.append('the initiator accepted an IKE_SA_INIT response whose proposal has no DH transform (it offered ENCR, INTEG, PRF and DH): chosen suite '
               f'{[(t.type.name, int(t.id)) for t in a.chosen_proposal.transforms]}')
verdict('F14', bad)
