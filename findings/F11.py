from common import *
import xfrm, netlink
A, B, ip1, ip2, calls = two_controllers()
bad = []
# the kernel refuses the SECOND XFRM_MSG_NEWSA of the next CHILD_SA the responder installs
state = {'n': 0, 'installed': set()}
def send_recv(cls, t, flags, payload, attributes=None):
    if t == xfrm.XFRM_MSG_NEWSA:
        state['n'] += 1
        if state['n'] == 2:
            raise netlink.NetlinkError('refused')
        state['installed'].add(bytes(payload.id.spi))
    if t == xfrm.XFRM_MSG_DELSA:
        state['installed'].discard(bytes(payload.spi))
    return []
xfrm.Xfrm.send_recv = classmethod(send_recv)
a = A.ike_sas[0]; b = B.ike_sas[0]
from message import TrafficSelector
TS = TrafficSelector
req = a.process_acquire(TS.from_network(ip_network('192.168.0.1/32'), 9999, TS.IpProtocol.TCP),
                        TS.from_network(ip_network('192.168.0.2/32'), 23, TS.IpProtocol.TCP), 1)
n_before = len(b.child_sas)
res = B.dispatch_message(req, ip2, ip1)
tracked = {bytes(c.inbound_spi) for c in b.child_sas[n_before:]} | {bytes(c.outbound_spi) for c in b.child_sas[n_before:]}
if len(b.child_sas) != n_before or state['installed']:
    bad.append(f'kernel refused the 2nd NEWSA of a CHILD_SA at the responder: reply sent, CHILD_SAs tracked {n_before} -> {len(b.child_sas)}, '
               f'SAs really installed {sorted(x.hex() for x in state["installed"])}, tracked SPIs {sorted(x.hex() for x in tracked)}')
verdict('F11', bad)
