from common import *
import types
A, B, ip1, ip2, calls = two_controllers()
import ikesacontroller as icm, ikesa as ikm, xfrm
bad = []
# A's peer (B) is dead; once per iteration A receives a datagram with the right SPIs and a wrong checksum (anybody who saw one datagram can send it)
a = A.ike_sas[0]
from message import Message
forged = bytearray(Message(spi_i=a.spi_i, spi_r=a.spi_r, major=2, minor=0, exchange_type=37, is_response=False, can_use_higher_version=False, is_initiator=False,
                           message_id=a.peer_msg_id, payloads=[], encrypted_payloads=[], crypto=a.peer_crypto).to_bytes())
forged[-1] ^= 0xFF
now = [time.time()]
ikm.time = types.SimpleNamespace(time=lambda: now[0])
class End(BaseException): pass
class Sock:
    def __init__(self): self.sent = []
    def bind(self, a): self.addr = a
    def listen(self, *a): pass
    def setsockopt(self, *a): pass
    def recvfrom(self, n): return bytes(forged), (str(ip2), 500)
    def sendto(self, data, dst): self.sent.append((data, dst))
    def recv(self, n): return b''
    def close(self): pass
socks = []
def mk(*a, **k):
    s = Sock(); socks.append(s); return s
n = [0]
def select(r, w, x, t=None):
    n[0] += 1
    if n[0] > 200: raise End()
    now[0] += 1.0
    return [socks[0]], [], []
icm.socket = types.SimpleNamespace(socket=mk, AF_INET=socket.AF_INET, AF_INET6=socket.AF_INET6, SOCK_DGRAM=socket.SOCK_DGRAM, SOCK_STREAM=socket.SOCK_STREAM,
                                   SOL_SOCKET=socket.SOL_SOCKET, SO_REUSEADDR=socket.SO_REUSEADDR, gaierror=socket.gaierror, error=socket.error)
icm.select = select
xfrm.Xfrm.get_socket = classmethod(lambda cls: mk())
try:
    A.main_loop()
except End:
    pass
if A.ike_sas:
    bad.append(f'200 s after the peer died (dpd = 60 s default, retransmission budget 20 s), with one bad-checksum datagram arriving per second, the IKE_SA is still '
               f'{[x.state.name for x in A.ike_sas]}: no probe was ever sent ({len(socks[0].sent)} datagrams sent)')
verdict('F19', bad)
