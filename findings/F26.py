from common import *
import xfrm
xfrm.Xfrm.send_recv = classmethod(lambda cls, *a, **k: [])
from configuration import Configuration
from ikesa import IkeSa
from ikesacontroller import IkeSaController
from xfrm import (XfrmUserAcquire, XfrmId, XfrmAddress, XfrmSelector, XfrmUserPolicyInfo, XfrmUserTmpl, XFRMA_TMPL)
ip1 = ip_address("192.168.0.1"); ip2 = ip_address("192.168.0.2")
def side(me, peer, idx, port):
    return {"my_addr": str(me), "peer_addr": str(peer), "my_auth": {"id": f"{me}", "psk": "k"}, "peer_auth": {"id": f"{peer}", "psk": "k"},
            "dh": ['ecp256'], "integ": ["sha256"], "prf": ["sha256"],
            "protect": [{"index": idx, "ip_proto": "tcp", "mode": "transport", "lifetime": 5, "peer_port": port, "ipsec_proto": "esp", "encr": ["aes256"]}]}
cf = Configuration([ip1, ip2], {"a": side(ip1, ip2, 1, 0), "b": side(ip2, ip1, 2, 23)})
B = IkeSaController([ip2], cf)
def acquire(index):
    return (XfrmUserAcquire(id=XfrmId(daddr=XfrmAddress.from_ipaddr(ip1)), saddr=XfrmAddress.from_ipaddr(ip2),
                            sel=XfrmSelector(saddr=XfrmAddress.from_ipaddr(ip2), sport=23, daddr=XfrmAddress.from_ipaddr(ip1), dport=8765, proto=6, family=socket.AF_INET),
                            policy=XfrmUserPolicyInfo(index=index << 3 | 1)), {XFRMA_TMPL: XfrmUserTmpl(family=socket.AF_INET)})
bad = []
for i in range(12):
    req, _, _ = B.process_acquire(*acquire(77))
    if req is not None:
        bad.append('an ACQUIRE for an unknown policy index started a negotiation')
if B.ike_sas:
    bad.append(f'12 ACQUIREs for an unknown policy index left {len(B.ike_sas)} IKE_SA(s) in state {B.ike_sas[0].state.name} in the table: listed by the status query and '
               f'counted as half-open (cookie threshold), although an ACQUIRE for an unknown index is to be ignored')
req, _, _ = B.process_acquire(*acquire(2))
if req is None:
    bad.append('a later ACQUIRE for a known index is not negotiated')
verdict('F26', bad)
