from common import *
A, B, ip1, ip2, calls = two_controllers()
bad = []
from ikesa import IkeSa
S = IkeSa.State
a1 = A.ike_sas[0]
# A rekeys its IKE_SA; B answers (its old entry -> REKEYED, successor registered); A's delete of the OLD IKE_SA is delayed
a1.rekey_ike_sa_at = 0
req = a1.check_rekey_ike_sa_timer()
res = B.dispatch_message(req, ip2, ip1)
dele_old = A.dispatch_message(res, ip1, ip2)
b_old = [x for x in B.ike_sas if x.state == S.REKEYED][0]
b_new = b_old.new_ike_sa
assert b_new in B.ike_sas and b_new.state == S.ESTABLISHED
# meanwhile A deletes the SUCCESSOR through a delete exchange on the new IKE_SA: B removes it ...
a2 = a1.new_ike_sa
a2.delete_ike_sa_at = 0
dreq = a2.check_rekey_ike_sa_timer()
B.dispatch_message(dreq, ip2, ip1)
assert b_new.state == S.DELETED and b_new not in B.ike_sas
# ... and then the rekey request is retransmitted to the old IKE_SA (still REKEYED at B)
B.dispatch_message(req, ip2, ip1)
if b_new in B.ike_sas:
    bad.append(f'the successor IKE_SA, ended by a delete exchange (state {b_new.state.name}), is listed again after a retransmitted rekey request '
               f'reached the old IKE_SA: table states {[x.state.name for x in B.ike_sas]}')
verdict('F13', bad)
