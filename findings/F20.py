from common import *
from message import Message
bad = []
payload = b'\x00\x00\x00\x0c' + b'\x03\x04\xff\xff' + b'\x07' * 4       # DELETE, ESP, SPI size 4, 65535 SPIs announced, 4 bytes of SPI data
data = b'I' * 8 + b'R' * 8 + bytes([42, 0x20, 37, 0x08]) + (7).to_bytes(4, 'big') + (28 + len(payload)).to_bytes(4, 'big') + payload
msg = Message.parse(data)
n = len(msg.payloads[0].spis)
if n > 1:
    bad.append(f'a {len(data)}-byte datagram whose DELETE payload holds 4 bytes of SPI data is parsed into {n} SPIs ({len(repr(msg.to_dict()))} characters of log dump)')
verdict('F20', bad)
