from common import *
from message import *
from crypto import Cipher, Integrity, Prf, Crypto
bad = []
try: PayloadSA.parse(b'\0\0\0')
except IkeSaError: pass
except Exception as e: bad.append(f'PayloadSA.parse(3 bytes) -> {type(e).__name__}')
c = Crypto(Cipher(Transform(1, 12, 256)), b'e' * 32, Integrity(Transform(3, 12)), b'a' * 32, Prf(Transform(2, 5)), b'p' * 32)
def forged(body):   # authentic ICV over an SK payload whose body is `body` + 16-byte ICV
    m = Message(b'I' * 8, b'R' * 8, 2, 0, 37, False, False, True, 0, [], [])
    sk = PayloadSK(body + b'\0' * 16); sk.next_payload_type = 0
    m.payloads = [sk]
    d = bytearray(m.to_bytes()); d[-16:] = c.integrity.compute(c.sk_a, d[:-16]); return bytes(d)
for body in (b'', b'\x11' * 10, b'\x11' * 16, b'\x11' * 21, b'\x11' * 32):
    try: Message.parse(forged(body), crypto=c)
    except IkeSaError: pass
    except Exception as e: bad.append(f'authentic SK payload with {len(body)}-byte body -> {type(e).__name__}: {e}')
verdict('F2', bad)
