from common import *
from configuration import Configuration, ConfigurationError
bad = []
d = {'c': {'my_addr': '192.0.2.1', 'peer_addr': '192.0.2.2', 'my_auth': {'psk': 'a'}, 'peer_auth': {'psk': 'b'}, 'encr': [], 'integ': [], 'prf': [], 'dh': [],
           'protect': [{}]}}
try:
    Configuration([ip_address('192.0.2.1')], d)
    bad.append('a connection without any IKE algorithm was accepted')
except ConfigurationError:
    pass
except Exception as ex:
    bad.append(f'empty algorithm lists (encr/integ/prf/dh: []) make Configuration raise {type(ex).__name__} instead of ConfigurationError: {ex}')
verdict('F12', bad)
